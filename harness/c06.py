"""C06 — solve() is a pure query and its results are immutable snapshots."""
from __future__ import annotations

import copy
import json

import numpy as np

import paramlib
from common import Stream, cf, clist, cnat, cvec, main
from paramlib import lk


def fingerprint(registry):
    fp = []
    for path in sorted(registry):
        S = registry[path][0]
        fp.append((path, len(S.structures), len(S.connections), len(S.connections_list), len(S.free_pins),
                   tuple(sorted(p.name for p in S.pin_mapping)),
                   tuple(sorted((k, repr(v)) for k, v in S.default_params.items())),
                   tuple(sorted((k, tuple(sorted(v[1].items()))) for k, v in S.param_mapping.items())),
                   tuple(tuple(sorted(st.param_mapping.items())) for st in S.structures)))
    return fp


def solver_paths(node, path=()):
    if "children" not in node:
        return []
    out = [path]
    for i, ch in enumerate(node["children"]):
        out += solver_paths(ch["node"], path + (i,))
    return out


class PurityStream(Stream):
    name = "history"
    imports = "Field Matrix Base Kernel Network Solve Params Corr"
    case_type = "pur_case"
    verdict_fn = "pur_verdict"
    shard_size = 40

    def generate(self, rng, tier):
        n = 200 if tier == "quick" else 3000
        out = []
        while len(out) < n:
            t = paramlib.gen_tree(rng, rng.choice([1, 2, 2, 3]), spy_p=0.5, twins=True, replace=True)
            if "children" not in t:
                continue
            paramlib.sanitize(t)
            paths = solver_paths(t)
            calls = []
            for _ in range(rng.randint(2, 6) if tier == "quick" else rng.randint(2, 15)):
                path = list(rng.choice(paths)) if rng.random() < 0.4 else []
                kw = {}
                for _ in range(rng.choice([0, 1, 2, 3])):
                    kw[rng.choice(paramlib.POOL + [6, 7])] = paramlib.rq(rng)
                calls.append({"path": path, "kw": [[k, v] for k, v in kw.items()]})
            if rng.random() < 0.5:
                calls.append(copy.deepcopy(calls[0]))        # repeating a call repeats the answer
            out.append({"tree": t, "calls": calls})
        return out

    def run(self, d):
        registry = {}
        paramlib.build(copy.deepcopy(d["tree"]), [0], registry, ())
        results = []
        for c in d["calls"]:
            S, pairs = registry[tuple(c["path"])]
            before = fingerprint(registry)
            try:
                mod = S.solve(**{paramlib.pn(k): v for k, v in c["kw"]})
                now = [complex(mod.get_A(b, a)) for a, b in pairs]
            except Exception:
                mod, now = None, None
            results.append((mod, pairs, now, before == fingerprint(registry)))
        terms = []
        for c, (mod, pairs, now, unchanged) in zip(d["calls"], results):
            try:
                later = [complex(mod.get_A(b, a)) for a, b in pairs] if mod is not None else None
            except Exception:
                later = None
            terms.append("{| pc_path := %s; pc_kw := %s; pc_now := %s; pc_later := %s; pc_unchanged := %s |}"
                         % (clist(cnat(i) for i in c["path"]), paramlib.dict_lit(c["kw"]),
                            "Raised" if now is None else "Obs " + cvec(now, cf),
                            "Raised" if later is None else "Obs " + cvec(later, cf),
                            "true" if unchanged else "false"))
        return "{| pu_tree := %s; pu_calls := %s |}" % (paramlib.tree_lit(copy.deepcopy(d["tree"])), clist(terms))

    def nontrivial(self, d):
        return len(d["calls"]) >= 3 and '"spy"' in json.dumps(d["tree"])

    def classify(self, d):
        sub = sum(1 for c in d["calls"] if c["path"])
        return "calls%d/sub%d" % (len(d["calls"]), min(sub, 3))

    def shrink(self, d):
        out = []
        for i in range(len(d["calls"]) - 1, -1, -1):
            if len(d["calls"]) > 1:
                e = copy.deepcopy(d)
                del e["calls"][i]
                out.append(e)
        for i, c in enumerate(d["calls"]):
            for j in range(len(c["kw"])):
                e = copy.deepcopy(d)
                del e["calls"][i]["kw"][j]
                out.append(e)
        return out

    def py_repro(self, d):
        return ("import sys, copy; sys.path.insert(0,'/verif/harness'); import paramlib, json\n"
                f"d=json.loads({json.dumps(d)!r}); reg={{}}\n"
                "paramlib.build(copy.deepcopy(d['tree']),[0],reg,())\n"
                "for c in d['calls']:\n    S,pairs=reg[tuple(c['path'])]; m=S.solve(**{paramlib.pn(k):v for k,v in c['kw']}); print(c, [m.get_A(b,a) for a,b in pairs])\n")


TRUSTED = [
    "Coq 8.16.1 kernel + vm_compute",
    "hand-written model Params.v (a function of circuit and call arguments: no state) tied to /repo by this run",
    "harness: spy leaves revealing every key they receive; all results kept alive and re-read at the end; "
    "fingerprint of every solver's structures/connections/exposed pins/defaults around each call",
]

if __name__ == "__main__":
    import c10

    class MonitorReread(c10.RereadStream):
        """an earlier result's monitor read-out is read again after the solver was solved with other values
        (the stream of C10; a result is a snapshot, monitors included)"""
        name = "monitor_reread"

    import copy
    import netlib
    from common import Stream

    class LaterBuiltStream(Stream):
        """solve() has no effect on circuits built LATER: circuit A (a phase shifter followed by user-matrix models,
        i.e. blocks created through Model.__init__ without a parameter dictionary) is solved with explicit values, then
        the same description is built again from fresh objects and solved with defaults: the model's answer for the
        defaults is required"""
        name = "later_built"
        imports = "Field Matrix Base Kernel Network Solve Corr"
        case_type = "net_case"
        verdict_fn = "net_verdict"
        shard_size = 25

        def generate(self, rng, tier):
            out = []
            while len(out) < (60 if tier == "quick" else 800):
                d = c10.gen_case(rng, tier, False, True)
                if not d["expo"]:
                    continue
                d["style"] = "with"
                d["mon"] = []
                for c in d["comps"]:
                    c.pop("bare", None)
                d["first"] = rng.choice([0.5, 1.0, 1.5])
                out.append(d)
            return out

        def run(self, d):
            names = [x[2] for x in d["expo"]]
            e = copy.deepcopy(d)
            e["comps"][0]["S"] = [[[0.0, 0.0], [1.0, 0.0]], [[1.0, 0.0], [0.0, 0.0]]]     # PS = 0 (the default)
            try:
                solA, _ = netlib.build(d)
                solA.solve(PS=d["first"], wl=1.3)
                lk_ = netlib.lk
                lk_.CWA(3, 10.0).solve(wl=1.7)            # a library block that has no parameter dictionary of its own
                solB, _ = netlib.build(d)                 # built AFTER those solves, from fresh objects
                mod = solB.solve()
                if sorted(p.name for p in mod.pin_dic) != sorted(names):
                    raise ValueError("exposed pin set differs")
                obs = netlib.obs_matrix_lit(netlib.observe_expo(mod, names))
            except Exception:
                obs = "Raised"
            return netlib.net_case_lit(e, obs)

        def nontrivial(self, d):
            return len(d["comps"]) >= 2 and len(d["conns"]) >= 1

        def classify(self, d):
            return "c%d/first%.1f" % (len(d["comps"]), d["first"])

        def shrink(self, d):
            return [e for e in netlib.shrink_netlist(d) if e["comps"] and e["comps"][0].get("ps")]

    import c04
    import numpy as np
    from common import cf, clist, cmat

    class BlockHistory(Stream):
        """every library block solved several times IN A ROW on the same object, consecutive solves differing in ONE
        argument: each answer must be the one a freshly built block gives for those arguments (no scratch state of a
        block survives a solve)"""
        name = "block_history"
        imports = "Field Matrix Base Kernel Network Solve Params Sweep Corr"
        case_type = "blk_case"
        verdict_fn = "blk_verdict"
        shard_size = 12

        def generate(self, rng, tier):
            out = []
            for name, (_, params) in c04.BLOCKS.items():
                if name.startswith("FPRGaussian") and tier == "quick":
                    continue
                for _ in range(1 if tier == "quick" else 4):
                    cur = {q: round(1.0 + rng.randint(0, 80) / 64.0, 6) for q in params}
                    hist = [dict(cur)]
                    order = list(params)
                    rng.shuffle(order)
                    for q in order + [rng.choice(params)]:        # every argument gets a step of its own
                        cur[q] = round(1.0 + rng.randint(0, 80) / 64.0, 6)
                        hist.append(dict(cur))
                    if rng.random() < 0.5:
                        hist.append(dict(hist[0]))          # back to the first assignment
                    out.append({"block": name, "hist": hist, "in_solver": rng.random() < 0.3})
            return out

        def run(self, d):
            def mat(mod):
                names = sorted(p.name for p in mod.pin_dic)
                return cmat(netlib.observe_expo(mod, names, 0), cf)
            make = lambda: c04.BlockStream._obj(None, d)
            fresh = []
            for a in d["hist"]:
                try:
                    fresh.append("Obs " + mat(make().solve(**a)))
                except Exception:
                    fresh.append("Raised")
            try:
                obj = make()
                seq = "Obs " + clist(mat(obj.solve(**a)) for a in d["hist"])
            except Exception:
                seq = "Raised"
            return "{| bk_scalar := %s; bk_sweep := %s |}" % (clist(fresh), seq)

        def nontrivial(self, d):
            return len(d["hist"]) >= 3

        def classify(self, d):
            return d["block"]

        def shrink(self, d):
            out = []
            for i in range(len(d["hist"])):
                if len(d["hist"]) > 2:
                    e = copy.deepcopy(d)
                    del e["hist"][i]
                    out.append(e)
            return out

    class SharedLater(Stream):
        """a library block OBJECT that was solved inside circuit A (explicit, swept values for all its parameters and a
        foreign one) is afterwards placed in circuit B, built later behind a phase shifter declared first; B solved with
        its defaults (and with one explicit value) must answer like the same circuit built from a fresh block object:
        an earlier solve leaves no trace in a component that a later circuit could pick up"""
        name = "shared_later"
        imports = "Field Matrix Base Kernel Network Solve Params Sweep Corr"
        case_type = "blk_case"
        verdict_fn = "blk_verdict"
        shard_size = 12

        def generate(self, rng, tier):
            out = []
            for name, (_, params) in c04.BLOCKS.items():
                if name.startswith("FPRGaussian") and tier == "quick":
                    continue
                for _ in range(1 if tier == "quick" else 3):
                    n = rng.randint(2, 3)
                    first = {q: [round(1.0 + rng.randint(1, 80) / 64.0, 6) for _ in range(n)] for q in params}
                    first.setdefault("PS", [rng.choice([0.25, 0.75, 1.5])] * n)
                    later = dict(rng.choice([{}, {}, {"PS": 0.5}]))
                    if name in ("Ring", "FPR", "CWA", "FPRGaussian", "FPRGaussian_callable"):
                        later["wl"] = 1.25            # blocks without a default wavelength
                    out.append({"block": name, "first": first, "later": later, "bare_first": rng.random() < 0.3,
                                "via_copy": rng.random() < 0.35})
            return out

        @staticmethod
        def _circuit(m):
            lk_ = netlib.lk
            with lk_.Solver() as S:
                ps = lk_.PhaseShifter().put()
                st = m.put()
                lk_.connect((ps, "b0"), (st, st.pin_list[0][1]))
                lk_.raise_pins()
            return S

        def run(self, d):
            def mat(mod):
                names = sorted(p.name for p in mod.pin_dic)
                return cmat(netlib.observe_expo(mod, names, 0), cf)
            make = c04.BLOCKS[d["block"]][0]
            try:
                fresh = "Obs " + mat(self._circuit(make()).solve(**d["later"]))
            except Exception:
                fresh = "Raised"
            try:
                m = make()
                kw = {k: np.array(v) for k, v in d["first"].items()}
                if d["bare_first"]:
                    m.solve(**{k: v for k, v in kw.items() if k != "PS"})
                A = self._circuit(m)
                if d.get("via_copy"):
                    # a shallow copy of circuit A (it shares the model objects) is solved with the explicit values; the
                    # ORIGINAL, solved afterwards, must answer as if the copy had never been solved
                    twin = A.shallow_copy()
                    twin.solve(**kw)
                    twin.solve(**{k: v[:1] for k, v in kw.items()})
                    seq = "Obs " + clist([mat(A.solve(**d["later"]))])
                else:
                    A.solve(**kw)
                    seq = "Obs " + clist([mat(self._circuit(m).solve(**d["later"]))])      # built AFTER the solves of A
            except Exception:
                seq = "Raised"
            return "{| bk_scalar := %s; bk_sweep := %s |}" % (clist([fresh]), seq)

        def nontrivial(self, d):
            return True

        def classify(self, d):
            return d["block"] + ("/bare_first" if d["bare_first"] else "") + ("/via_copy" if d.get("via_copy") else "")

    import c02

    class ResolveAfterEdit(c02.HierStream):
        """a hierarchy is solved, one of its (shared) sub-solvers is edited, and the parent is solved again: the second
        answer must be the one of the edited circuit, whatever the first solve left behind (the stream of C02, only the
        edited cases)"""
        name = "resolve_after_edit"

        def generate(self, rng, tier):
            out = [d for d in super().generate(rng, tier) if d.get("edit")]
            return out[:60 if tier == "quick" else 800]

    class SweepSnapshot(c10.SweepMonStream):
        """a swept solve whose sweep buffer the caller overwrites afterwards: the result's tables keep the solved values
        (the sweep stream of C10, whose driver does exactly that)"""
        name = "sweep_snapshot"

    main("C06", [PurityStream(), MonitorReread(), LaterBuiltStream(), BlockHistory(), SharedLater(), ResolveAfterEdit(), SweepSnapshot()],
         level_text="props/C06.v; the tie solves a hierarchy and its (shared) sub-solvers in random order with random "
                    "argument subsets, keeps every result alive, reads each result right after its call and again after all "
                    "later calls, and compares both readings with the model's history-free value for that call; spy leaves "
                    "(transmission = weighted sum over EVERY key they received) expose anything that leaks between calls; the "
                    "structures, connections, exposed pins, renamings and defaults of every solver are compared around each call. "
                    "A further stream builds the same circuit again AFTER earlier solves (from fresh objects, incl. blocks created "
                    "without a parameter dictionary) and requires the model's answer for the defaults: a solve has no effect on "
                    "circuits built later. A fourth stream solves every library block several times in a row on the same object "
                    "(consecutive solves differ in one argument) and requires the answers of freshly built blocks.",
         trusted_base=TRUSTED,
         assumptions=["'results already returned are not mutated' is a statement about Python aliasing: it is observed over "
                      "the histories run (the model proves history-freedom of the values)"])
