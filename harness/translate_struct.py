"""Translator: the per-structure link tables (structure.py) and Solver.add_structure -> Gallina over Wiring.v (C07 / C16).

    Structure.add_conn          record one end of a link (refused when the pin already has another partner)
    Structure.cut_connections   forget the links to one neighbour, keep the pins
    Solver.add_structure        (first half) register a structure and its pins as free pins

The current source is read with `ast`; each routine is a short guarded command over the structure's `conn_dict` /
`connected_to` (resp. the solver's `structures` / `free_pins`) and is emitted as a Gallina function over
`Wiring.sstruct` (resp. `wstate`).  coq/templates/StructSrcProof.v proves: `add_conn_src = Wiring.add_conn`;
`cut_connections_src = Wiring.cut_connections` whenever the structure's link table has distinct keys (a Python dict);
`add_structure_src` changes exactly the fields `Wiring.step s (Add id n)` changes, in the same way.
Fail-closed (`Unsupported`) on anything else.
"""
from __future__ import annotations

import ast
import hashlib
import os

from translate_params import Unsupported, U, find_fn, strip_doc


def tr_add_conn(fn):
    a = [x.arg for x in fn.args.args]
    if a != ["self", "pin", "target", "target_pin"]:
        raise Unsupported(f"add_conn arguments {a}")
    t = [ast.unparse(x) for x in strip_doc(fn.body)]
    want = ["tup = self.conn_dict.get((self, pin))",
            "if tup is not None:\n    if tup != (target, target_pin):\n        raise Exception('Pin already connected')\n"
            "else:\n    self.conn_dict[self, pin] = (target, target_pin)",
            "if target not in self.connected_to:\n    self.connected_to.append(target)"]
    if t != want:
        raise Unsupported("Structure.add_conn changed: " + " ; ".join(t)[:300])
    return ("Definition add_conn_src (t : sstruct) (x y : spin) : result sstruct :=\n"
            "  let tup := dget spin_eqb x (s_conn t) in\n"
            "  match tup with\n"
            "  | Some z => if negb (spin_eqb z y) then Err EAlreadyConnected else\n"
            "      Ok {| s_pins := s_pins t; s_conn := s_conn t;\n"
            "            s_to := if negb (nmem (fst y) (s_to t)) then s_to t ++ [fst y] else s_to t |}\n"
            "  | None =>\n"
            "      Ok {| s_pins := s_pins t; s_conn := dset spin_eqb x y (s_conn t);\n"
            "            s_to := if negb (nmem (fst y) (s_to t)) then s_to t ++ [fst y] else s_to t |}\n"
            "  end.\n")


def tr_cut_connections(fn):
    a = [x.arg for x in fn.args.args]
    if a != ["self", "target"]:
        raise Unsupported(f"cut_connections arguments {a}")
    body = strip_doc(fn.body)
    t = [ast.unparse(x) for x in body]
    if not (len(t) == 4 and t[0].startswith("if target not in self.connected_to:\n    raise ")
            and t[1] == "self.connected_to.remove(target)" and t[2] == "copy_dic = copy(self.conn_dict)"):
        raise Unsupported("Structure.cut_connections changed: " + " ; ".join(t)[:300])
    loop = body[3]
    want = ("for (s, pin), (t, tpin) in copy_dic.items():\n    if t is target:\n        if (s, pin) in self.conn_dict:\n"
            "            self.conn_dict.pop((s, pin))\n        else:\n            raise Exception(f'Pin {pin} not in conn_dict')")
    if ast.unparse(loop) != want:
        raise Unsupported("Structure.cut_connections: loop changed: " + ast.unparse(loop)[:300])
    return ("Definition cut_connections_src (t : sstruct) (target : nat) : result sstruct :=\n"
            "  if negb (nmem target (s_to t)) then Err ENotPresent else\n"
            "  let '(cd, err) := fold_left (fun '(cd, err) it =>\n"
            "        if Nat.eqb (fst (snd it)) target then\n"
            "          match dget spin_eqb (fst it) cd with\n"
            "          | Some _ => (dpop spin_eqb (fst it) cd, err)\n"
            "          | None => (cd, true) end\n"
            "        else (cd, err)) (s_conn t) (s_conn t, false) in\n"
            "  if err then Err ENoSuchPin else\n"
            "  Ok {| s_pins := s_pins t; s_conn := cd; s_to := nremove1 target (s_to t) |}.\n")


def tr_remove(fn_rc, fn_rp):
    """Structure.remove_connections / remove_pin: the links to one neighbour are forgotten AND the pins that faced it are
    dropped (used when that neighbour is removed for good)"""
    t = [ast.unparse(x) for x in strip_doc(fn_rp.body)]
    want = ["if (self, pin) in self.conn_dict:\n    self.conn_dict.pop((self, pin))\nelse:\n    raise Exception(f'Pin {pin} not in conn_dict')",
            "if (self, pin) in self.pin_list:\n    self.pin_list.remove((self, pin))\n    self.pin_dic.pop((self, pin))\nelse:\n"
            "    raise Exception(f'Pin {pin} not in conn_dict')"]
    if t != want:
        raise Unsupported("Structure.remove_pin changed: " + " ; ".join(t)[:300])
    a = [x.arg for x in fn_rc.args.args]
    if a != ["self", "target"]:
        raise Unsupported(f"remove_connections arguments {a}")
    t = [ast.unparse(x) for x in strip_doc(fn_rc.body)]
    if not (len(t) == 4 and t[0].startswith("if target not in self.connected_to:\n    raise ")
            and t[1] == "self.connected_to.remove(target)" and t[2] == "copy_dic = copy(self.conn_dict)"):
        raise Unsupported("Structure.remove_connections changed: " + " ; ".join(t)[:300])
    want = "for (s, pin), (t, tpin) in copy_dic.items():\n    if t is target:\n        self.remove_pin(pin)"
    if t[3] != want:
        raise Unsupported("Structure.remove_connections: loop changed: " + t[3][:300])
    return ("Definition remove_pin_src (me : nat) (st : list spin * list (spin * spin) * bool) (pin : nat)\n"
            "    : list spin * list (spin * spin) * bool :=\n"
            "  let '(pins, cd, err) := st in\n"
            "  if err then st else\n"
            "  match dget spin_eqb (me, pin) cd with\n"
            "  | None => (pins, cd, true)\n"
            "  | Some _ => let cd' := dpop spin_eqb (me, pin) cd in\n"
            "              if mem (me, pin) pins then (remove1 (me, pin) pins, cd', false) else (pins, cd', true)\n"
            "  end.\n\n"
            "Definition remove_connections_src (me : nat) (t : sstruct) (target : nat) : result sstruct :=\n"
            "  if negb (nmem target (s_to t)) then Err ENotPresent else\n"
            "  let '(pins, cd, err) :=\n"
            "    fold_left (fun st it => if Nat.eqb (fst (snd it)) target then remove_pin_src me st (snd (fst it)) else st)\n"
            "              (s_conn t) (s_pins t, s_conn t, false) in\n"
            "  if err then Err ENoSuchPin else\n"
            "  Ok {| s_pins := pins; s_conn := cd; s_to := nremove1 target (s_to t) |}.\n")


def tr_add_structure(fn):
    body = strip_doc(fn.body)
    want = ("if structure not in self.structures:\n    self.structures.append(structure)\n"
            "    for pin in structure.pin_list:\n        self.free_pins.append(pin)\nelse:\n"
            "    raise ValueError('Structure already present')")
    if ast.unparse(body[0]) != want:
        raise Unsupported("Solver.add_structure: registration of the structure changed: " + ast.unparse(body[0])[:300])
    # nothing after it may touch structures / free_pins / connections / connections_list / pin_mapping
    for st in body[1:]:
        for n in ast.walk(st):
            if isinstance(n, ast.Attribute) and ast.unparse(n) in ("self.structures", "self.free_pins", "self.connections",
                                                                   "self.connections_list", "self.pin_mapping"):
                raise U(st, "Solver.add_structure touches the wiring tables after the registration")
    return ("Definition add_structure_src (s : wstate) (id : nat) (t : sstruct) : wstate * option err :=\n"
            "  if negb (nmem id (w_structs s)) then\n"
            "    ({| w_structs := w_structs s ++ [id]; w_store := w_store s; w_conns := w_conns s; w_clist := w_clist s;\n"
            "        w_free := fold_left (fun fr p => fr ++ [p]) (s_pins t) (w_free s); w_map := w_map s |}, None)\n"
            "  else (s, Some EAlreadyPresent).\n")


def tr_maps_all_pins(fn):
    t = [ast.unparse(x) for x in strip_doc(fn.body)]
    want = ["for (st, pin) in self.free_pins:\n    if (st, pin) in self.pin_mapping.values():\n        continue\n"
            "    if pin in self.pin_mapping:\n        raise Exception('Pins double naming present, cannot map authomatically')\n"
            "    self.pin_mapping[pin] = (st, pin)"]
    want2 = [want[0].replace("for (st, pin) in", "for st, pin in")]
    if t != want and t != want2:
        raise Unsupported("Solver.maps_all_pins changed: " + " ; ".join(t)[:300])
    # the pin itself is the external name (auto_name); a raise ends the loop with what has been mapped so far
    return ("Definition maps_all_pins_src (s : wstate) : wstate * option err :=\n"
            "  let '(m', e) := fold_left (fun '(m, e) x =>\n"
            "        match e with\n"
            "        | Some _ => (m, e)\n"
            "        | None =>\n"
            "            if existsb (fun en : nat * spin => spin_eqb (snd en) x) m then (m, None)\n"
            "            else match dget Nat.eqb (auto_name x) m with\n"
            "                 | Some _ => (m, Some ENameClash)\n"
            "                 | None => (dset Nat.eqb (auto_name x) x m, None)\n"
            "                 end\n"
            "        end) (w_free s) (w_map s, None) in\n"
            "  ({| w_structs := w_structs s; w_store := w_store s; w_conns := w_conns s; w_clist := w_clist s;\n"
            "      w_free := w_free s; w_map := m' |}, e).\n")


def translate(repo: str) -> str:
    srcs = {}
    for f in ("structure.py", "sol.py"):
        with open(os.path.join(repo, "lekkersim", f)) as fh:
            srcs[f] = fh.read()
    h = hashlib.sha256((srcs["structure.py"] + srcs["sol.py"]).encode()).hexdigest()
    st = ast.parse(srcs["structure.py"])
    out = [f"(* GENERATED by harness/translate_struct.py from {repo}/lekkersim/{{structure,sol}}.py",
           f"   sha256 {h} — do not edit *)",
           "From Coq Require Import List Arith Bool Lia.",
           "From Lekkersim Require Import Field Matrix Base Kernel Network Solve Wiring.",
           "Import ListNotations.", ""]
    out.append(tr_add_conn(find_fn(st, "Structure", "add_conn")))
    out.append(tr_cut_connections(find_fn(st, "Structure", "cut_connections")))
    out.append(tr_remove(find_fn(st, "Structure", "remove_connections"), find_fn(st, "Structure", "remove_pin")))
    out.append(tr_add_structure(find_fn(ast.parse(srcs["sol.py"]), "Solver", "add_structure")))
    out.append(tr_maps_all_pins(find_fn(ast.parse(srcs["sol.py"]), "Solver", "maps_all_pins")))
    return "\n".join(out) + "\n"


if __name__ == "__main__":
    import sys
    print(translate(sys.argv[1] if len(sys.argv) > 1 else "/repo"))
