"""C18 — the star-product kernel (scattering.py) against Kernel.v."""
from __future__ import annotations

import copy
import random

import numpy as np

from common import (Stream, cf, clist, cmat, cnat, cq, cvec, main, rand_dyadic, rand_matrix,
                    setup_repo_import)

lk = setup_repo_import()
from lekkersim.scattering import S_matrix  # noqa: E402


def m2j(A):
    return [[[float(x.real), float(x.imag)] for x in row] for row in np.asarray(A)]


def j2m(J, n, m):
    A = np.zeros((n, m), complex)
    for i in range(n):
        for j in range(m):
            A[i, j] = complex(J[i][j][0], J[i][j][1])
    return A


def rand_slice(rng, N, M, link_is_right, kind="random"):
    """one partitioned matrix as a dict. Link side: right (M) for A, left (N) for B."""
    tot = N + M
    if kind == "thru" and N == M:
        return {"N": N, "M": M, "S11": m2j(np.identity(N)), "S12": m2j(np.zeros((M, M))),
                "S21": m2j(np.zeros((N, N))), "S22": m2j(np.identity(N))}
    return {"N": N, "M": M,
            "S11": m2j(rand_matrix(rng, M, N, tot)), "S12": m2j(rand_matrix(rng, M, M, tot)),
            "S21": m2j(rand_matrix(rng, N, N, tot)), "S22": m2j(rand_matrix(rng, N, M, tot))}


def build(slices, batched, dims=None):
    """list of slice dicts -> S_matrix (3-D blocks when batched, 2-D otherwise); an EMPTY batch needs dims = (N, M)"""
    if not slices:
        return S_matrix(dims[0], dims[1], ns=0)
    N, M = slices[0]["N"], slices[0]["M"]
    if batched:
        S = S_matrix(N, M, ns=len(slices))
        for k, s in enumerate(slices):
            S.S11[k], S.S12[k] = j2m(s["S11"], M, N), j2m(s["S12"], M, M)
            S.S21[k], S.S22[k] = j2m(s["S21"], N, N), j2m(s["S22"], N, M)
    else:
        s = slices[0]
        S = S_matrix(N, M)
        if (N + M) % 2 == 0:
            # the blocks the constructor allocated are filled IN PLACE (as Structure.split_in_out does)
            S.S11[...], S.S12[...] = j2m(s["S11"], M, N), j2m(s["S12"], M, M)
            S.S21[...], S.S22[...] = j2m(s["S21"], N, N), j2m(s["S22"], N, M)
        else:
            S.S11, S.S12 = j2m(s["S11"], M, N), j2m(s["S12"], M, M)
            S.S21, S.S22 = j2m(s["S21"], N, N), j2m(s["S22"], N, M)
    return S


def lsmx(N, M, S11, S12, S21, S22, lit):
    def mat(A, n, m):
        A = np.asarray(A).reshape(n, m)
        return cmat(A, lit)
    return ("{| lN := %s; lM := %s; l11 := %s; l12 := %s; l21 := %s; l22 := %s |}"
            % (cnat(N), cnat(M), mat(S11, M, N), mat(S12, M, M), mat(S21, N, N), mat(S22, N, M)))


def lsmx_of_slice(s):
    N, M = s["N"], s["M"]
    return lsmx(N, M, j2m(s["S11"], M, N), j2m(s["S12"], M, M), j2m(s["S21"], N, N),
                j2m(s["S22"], N, M), cq)


def observed_slices(S):
    """S_matrix result -> list of coq lsmx literals (one per slice)"""
    N, M = S.N, S.M
    arr = [np.asarray(S.S11), np.asarray(S.S12), np.asarray(S.S21), np.asarray(S.S22)]
    shapes = [(M, N), (M, M), (N, N), (N, M)]
    if all(a.ndim == 3 and a.shape[0] == 0 for a in arr):
        # an empty batch: no slices, but every block still has its two trailing dimensions
        for a, sh in zip(arr, shapes):
            if a.shape[1:] != sh:
                raise ValueError(f"block shape {a.shape} != (0,) + {sh}")
        return []
    ns = 1
    for a, sh in zip(arr, shapes):
        if a.ndim == 3:
            ns = max(ns, a.shape[0])
    out = []
    for k in range(ns):
        blocks = []
        for a, sh in zip(arr, shapes):
            if a.ndim == 3:
                b = a[k] if a.shape[0] > 1 else a[0]
            else:
                b = a
            if b.shape != sh:
                raise ValueError(f"block shape {b.shape} != {sh}")
            blocks.append(b)
        out.append(lsmx(N, M, *blocks, cf))
    return out


def dims_stream(rng, tier):
    n = 160 if tier == "quick" else 2500
    out = []
    for i in range(n):
        hi = 3 if (tier == "quick" or rng.random() < 0.8) else 5
        N, K, M = rng.randint(0, hi), rng.randint(0, hi), rng.randint(0, hi)
        out.append((N, K, M))
    return out


class AddStream(Stream):
    name = "add"
    case_type = "add_case"
    verdict_fn = "add_verdict"
    shard_size = 40

    def generate(self, rng, tier):
        descs = []
        for (N, K, M) in dims_stream(rng, tier):
            r = rng.random()
            nsA = nsB = rng.choice([1, 1, 2, 3])
            if r < 0.15:  # broadcast one operand
                nsA, nsB = (1, nsB) if rng.random() < 0.5 else (nsA, 1)
            batched = True if (nsA > 1 or nsB > 1) else rng.random() < 0.6
            K2 = K
            if rng.random() < 0.08:  # malformed: mismatched intermediate dimension
                K2 = K + rng.choice([1, 2])
            kindA = "thru" if (rng.random() < 0.07 and N == K) else "random"
            kindB = "thru" if (rng.random() < 0.07 and K2 == M) else "random"
            A = [rand_slice(rng, N, K, True, kindA) for _ in range(nsA)]
            B = [rand_slice(rng, K2, M, False, kindB) for _ in range(nsB)]
            if K2 == K and K >= 2 and rng.random() < 0.12:
                # structured zeros: the product of the facing reflections vanishes in ONE order only
                # (A reflects shared port 1 into shared port 0, B reflects shared port 0 into itself):
                # (A.S12)(B.S21) = 0 although (B.S21)(A.S12) != 0 — both resolvents are still needed
                for a_, b_ in zip(A, B):
                    z = [[[0.0, 0.0] for _ in range(K)] for _ in range(K)]
                    a_["S12"] = copy.deepcopy(z)
                    b_["S21"] = copy.deepcopy(z)
                    a_["S12"][0][1] = [0.5, 0.25]
                    b_["S21"][0][0] = [0.25, -0.5]
                    if rng.random() < 0.5:      # the mirrored situation
                        a_["S12"], b_["S21"] = b_["S21"], a_["S12"]
            if nsA == nsB and nsA >= 3 and K2 == K and rng.random() < 0.4:
                # a closed sweep: the last slice repeats the first one, the interior differs
                A[-1] = copy.deepcopy(A[0])
                B[-1] = copy.deepcopy(B[0])
            descs.append({"A": A, "B": B, "batched": batched})
        # the empty batch (a sweep of no points): the result is the empty stack with the dimensions of the join
        for (N, K, M) in [(1, 1, 1), (2, 1, 0), (0, 2, 1), (1, 2, 2)]:
            descs.append({"A": [], "B": [], "batched": True, "dims": [N, K, M]})
        return descs

    def run(self, d):
        if d.get("dims"):
            N, K, M = d["dims"]
            A, B = build([], True, (N, K)), build([], True, (K, M))
        else:
            A = build(d["A"], d["batched"])
            B = build(d["B"], d["batched"])
        try:
            C = A.add(B)
            if d.get("dims") and (C.N, C.M) != (d["dims"][0], d["dims"][2]):
                raise ValueError("dimensions of the empty join")
            # the documented full-matrix view of the result: [[S11, S12], [S21, S22]] (and its determinant)
            if np.asarray(C.S11).ndim == 2:
                full = np.vstack([np.hstack([C.S11, C.S12]), np.hstack([C.S21, C.S22])])
                if not np.array_equal(np.asarray(C.matrix()), full):
                    raise ValueError("matrix() is not the block matrix of the result")
                if full.shape[0] == full.shape[1] and full.shape[0] > 0 \
                        and not np.isclose(C.det(), np.linalg.det(full), rtol=1e-9, atol=1e-12):
                    raise ValueError("det() is not the determinant of the block matrix")
            obs = "Obs " + clist(observed_slices(C))
        except Exception:
            obs = "Raised"
        return ("{| ac_A := %s; ac_B := %s; ac_obs := %s |}"
                % (clist(lsmx_of_slice(s) for s in d["A"]), clist(lsmx_of_slice(s) for s in d["B"]),
                   obs))

    def nontrivial(self, d):
        if not d["A"]:
            return False
        a, b = d["A"][0], d["B"][0]
        if a["M"] == 0 or a["M"] != b["N"]:
            return False
        nz = lambda J: any(abs(x[0]) + abs(x[1]) > 0 for row in J for x in row)
        return nz(a["S12"]) and nz(b["S21"])

    def classify(self, d):
        if not d["A"]:
            return "empty_batch"
        a, b = d["A"][0], d["B"][0]
        tag = "mismatch" if a["M"] != b["N"] else f"K{a['M']}"
        return f"{tag}/ns{len(d['A'])}x{len(d['B'])}/{'3d' if d['batched'] else '2d'}"

    def shrink(self, d):
        out = []
        if len(d["A"]) > 1 or len(d["B"]) > 1:
            for k in range(max(len(d["A"]), len(d["B"]))):
                e = copy.deepcopy(d)
                e["A"] = [d["A"][min(k, len(d["A"]) - 1)]]
                e["B"] = [d["B"][min(k, len(d["B"]) - 1)]]
                out.append(e)
        return out

    def py_repro(self, d):
        return ("import sys; sys.path.insert(0,'/verif/harness'); import c18, json\n"
                f"d=json.loads({json_dumps(d)!r})\n"
                "dm=d.get('dims'); A=c18.build(d['A'],d['batched'],dm and dm[:2]); B=c18.build(d['B'],d['batched'],dm and dm[1:])\n"
                "C=A.add(B); print(C.S11, C.S12, C.S21, C.S22)\n")


def json_dumps(d):
    import json
    return json.dumps(d)


class IcStream(Stream):
    name = "int_complete"
    case_type = "ic_case"
    verdict_fn = "ic_verdict"
    shard_size = 40

    def generate(self, rng, tier):
        descs = []
        n = 80 if tier == "quick" else 1200
        for i in range(n):
            N, K, M = rng.randint(0, 3), rng.randint(0, 3), rng.randint(0, 3)
            ns = rng.choice([1, 1, 2, 3])
            batched = True if ns > 1 else rng.random() < 0.6
            A = [rand_slice(rng, N, K, True) for _ in range(ns)]
            B = [rand_slice(rng, K, M, False) for _ in range(ns)]
            u = [[z.real, z.imag] for z in (rand_dyadic(rng, 16, 16) for _ in range(N))]
            dd = [[z.real, z.imag] for z in (rand_dyadic(rng, 16, 16) for _ in range(M))]
            descs.append({"A": A, "B": B, "batched": batched, "u": u, "d": dd})
            if rng.random() < 0.3:
                # the SAME first operand has met another partner before (nothing may be remembered between calls)
                descs[-1]["B0"] = [rand_slice(rng, K, M, False) for _ in range(ns)]
        return descs

    def run(self, d):
        A = build(d["A"], d["batched"])
        B = build(d["B"], d["batched"])
        u = np.array([complex(*x) for x in d["u"]], complex)
        dd = np.array([complex(*x) for x in d["d"]], complex)
        K = d["A"][0]["M"]
        if d.get("B0"):
            try:
                A.int_complete(build(d["B0"], d["batched"]), u, dd)
            except Exception:
                pass
        try:
            uo, do = A.int_complete(B, u, dd)
            uo, do = np.asarray(uo), np.asarray(do)
            if uo.ndim == 1:
                uo, do = uo[None, :], do[None, :]
            obs = "Obs " + clist("(%s, %s)" % (cvec(uo[k].reshape(K), cf), cvec(do[k].reshape(K), cf))
                                 for k in range(uo.shape[0]))
        except Exception:
            obs = "Raised"
        return ("{| ic_A := %s; ic_B := %s; ic_u := %s; ic_d := %s; ic_obs := %s |}"
                % (clist(lsmx_of_slice(s) for s in d["A"]), clist(lsmx_of_slice(s) for s in d["B"]),
                   cvec([complex(*x) for x in d["u"]]), cvec([complex(*x) for x in d["d"]]), obs))

    def nontrivial(self, d):
        return d["A"][0]["M"] > 0 and (len(d["u"]) > 0 or len(d["d"]) > 0)

    def classify(self, d):
        a = d["A"][0]
        return f"N{a['N']}K{a['M']}M{d['B'][0]['M']}/ns{len(d['A'])}"


TRUSTED = [
    "Coq 8.16.1 kernel + vm_compute (no native_compute)",
    "hand-written model Kernel.v; tied to /repo (a) for ALL inputs by the translation obligation: harness/translate_kernel.py "
    "(trusted, fail-closed, ~250 lines) turns the current source of S_matrix.add / int_complete into Gallina and "
    "coq/templates/KernelSrcProof.v proves it equal to Kernel.sadd / Kernel.int_complete; (b) by this correspondence run (sampled)",
    "translator's reading of numpy: matmul / linalg.inv / linalg.solve / identity / + / - are the matrix operations of that name, "
    "slice-wise over a leading batch axis; solve(E, r) = inv(E) r for invertible E",
    "harness: generators, float->dyadic transport (fractions.Fraction / math.frexp), case emitter, verdict parser",
    "numpy matmul / linalg.inv / linalg.solve / broadcasting are exercised, not verified",
]

if __name__ == "__main__":
    import translate_kernel
    from common import source_obligation
    main("C18", [AddStream(), IcStream()],
         source_obligations=[source_obligation("KernelSrc_C18", translate_kernel.translate, "KernelSrcProof.v",
                                               ["add_src_is_sadd", "int_complete_src_is_model"])],
         level_text="Theorems in props/C18.v hold for all dimensions and all fields satisfying the laws "
                    "(sadd_sound/complete/unique: exact elimination; sadd_assoc; sadd_thru_l/r; sadd_dim; "
                    "int_complete_ok; sadd_batch_slices). The correspondence ties the same Gallina definitions, "
                    "run over Gaussian rationals, to S_matrix.add / int_complete on random reflective blocks. In addition the "
                    "CURRENT source text of both routines is translated to Gallina on every run and proved equal to the model "
                    "for all operands (add_src_is_sadd, int_complete_src_is_model): the tie of the kernel is not only sampled.",
         trusted_base=TRUSTED,
         assumptions=["theorems are conditional on the model returning Ok (inner systems invertible)",
                      "floating-point round-off abstracted by tolerance 1e-9"])
