"""C14 — InPulse export followed by import reproduces the model."""
from __future__ import annotations

import copy
import json
import os
import shutil
import tempfile

import numpy as np

import common
from common import Stream, cf, clist, cmat, cnat, cstr, main, rand_dyadic, zlit
from netlib import Pin, lk

BASES = ["a0", "b0", "in_1", "o", "1", "no", "Out"]
MODES = ["te", "tm", "x", "TE0"]
PARAMS = ["wl", "PS", "T", "x1"]


def ostr(m):
    return "None" if m is None else "Some " + cstr(m)


def flq(x: float) -> str:
    m, e = common._me(float(x))
    return f"(fl {zlit(m)} {zlit(e)})"


def rfloat(rng):
    k = rng.random()
    if k < 0.5:
        return 1.0 + rng.random()                      # wavelength-like
    if k < 0.8:
        return rng.uniform(-3.0, 3.0)
    if k < 0.9:
        return rng.random() * 10.0 ** rng.randint(-6, 3)
    return float(rng.randint(-5, 5)) + rng.choice([0.0, 0.1, 0.2, 0.3, 0.7])


def gen_case(rng, tier):
    while True:
        nb = rng.randint(1, 3)
        bases = rng.sample(BASES, nb)
        pins = []
        for b in bases:
            if rng.random() < 0.35:
                pins.append([b, None])
            else:
                for m in rng.sample(MODES, rng.randint(1, 2)):
                    pins.append([b, m])
        empty_mode = rng.random() < 0.1
        if empty_mode:
            # an un-moded port next to a port of the same base name whose mode name is the (legal) empty string: "a" and "a_"
            b = rng.choice(bases)
            pins = [p for p in pins if p[0] != b] + [[b, None], [b, ""]]
        names = [b if m is None else f"{b}_{m}" for b, m in pins]
        if len(set(names)) != len(names) or len(pins) > 5:
            continue
        break
    rng.shuffle(pins)
    n = len(pins)
    idx = list(range(n))
    rng.shuffle(idx)
    two = rng.random() < 0.3
    pnames = rng.sample(PARAMS, 2 if two else 1)

    def distinct(k):
        vals = []
        while len(vals) < k:
            v = rfloat(rng)
            if all(abs(v - w) > 1e-6 * max(1.0, abs(v)) for w in vals):
                vals.append(v)
        return vals

    if two:
        g1 = sorted(distinct(rng.randint(2, 3)))
        g2 = sorted(distinct(rng.randint(2, 3)))
        if rng.random() < 0.3:
            # a fine scan: the first parameter moves by a few parts per million only (it is still a swept parameter)
            v = 1.0 + rng.randint(0, 64) / 64.0
            g1 = [v, v + 5e-6, v + 10e-6][:len(g1)]
        elif rng.random() < 0.35:
            # axes of very different scale: a wavelength in metres against a parameter of order one
            v = (1.2 + rng.randint(0, 32) / 64.0) * 1e-6
            g1 = [v, v * 1.03125, v * 1.0625][:len(g1)]
        pts = [[a, b] for a in g1 for b in g2]
    else:
        g = distinct(rng.randint(2, 5))
        if rng.random() < 0.7:
            g.sort()
        pts = [[a] for a in g]
    S = []
    for _ in pts:
        M = [[[0.0, 0.0] if rng.random() < 0.2 else (lambda z: [z.real, z.imag])(rand_dyadic(rng, 16, 16))
              for _ in range(n)] for _ in range(n)]
        S.append(M)
    emap = {}
    if rng.random() < 0.5:
        emap[pnames[0]] = rng.choice(["wavelength", "lambda0", "par A"])
    if two and rng.random() < 0.2:
        emap = {pnames[0]: pnames[1], pnames[1]: pnames[0]}       # swapped names in the file
    mm = None
    file_modes = sorted({"" if m is None else m for _, m in pins})
    if rng.random() < 0.35 and not empty_mode:
        sel = rng.sample(file_modes, rng.randint(1, len(file_modes)))
        targets = rng.sample(["TE", "TM", "te", "q", "m1"], len(sel))
        mm = {s: t for s, t in zip(sel, targets)}
        real = [m for m in file_modes if m != ""]
        if len(real) >= 2 and rng.random() < 0.4:
            # new mode names that overlap the old ones: a swap, or a chain listed in the "unlucky" order
            a, b = rng.sample(real, 2)
            mm = {a: b, b: a} if rng.random() < 0.6 else {a: b, b: rng.choice(["q", "m1"])}
        elif rng.random() < 0.3:
            mm[rng.choice(sel)] = ""
        kept = []
        for b, m in pins:
            t = mm.get("" if m is None else m)
            if t is not None:
                kept.append((b, None if t == "" else t))
        names2 = [b if m is None else f"{b}_{m}" for b, m in kept]
        if len(set(kept)) != len(kept) or len(set(names2)) != len(names2) or not kept:
            mm = None
    return {"pins": pins, "idx": idx, "params": pnames, "pts": pts, "S": S, "emap": emap, "mm": mm,
            "kw_rev": rng.choice([0, 1, 2]) if two else 0,
            "mids": [] if two else [[k, t] for k in range(len(pts) - 1) for t in (0.25, 0.5) if rng.random() < 0.6]}


def run_python(d, workdir):
    pins = [Pin(b, m) for b, m in d["pins"]]
    pin_dic = {p: i for p, i in zip(pins, d["idx"])}
    n = len(pins)
    S = np.zeros((len(d["pts"]), n, n), complex)
    for k, M in enumerate(d["S"]):
        for i in range(n):
            for j in range(n):
                S[k, i, j] = complex(*M[i][j])
    params = {name: np.array([pt[c] for pt in d["pts"]]) for c, name in enumerate(d["params"])}
    fn = os.path.join(workdir, "m.csvy")
    emap = d["emap"] or None
    units = {(d["emap"] or {}).get(p, p): "u" for p in d["params"]}
    if d.get("late_rename"):
        # the result is exported once under provisional port names, re-labelled (new base names), and exported again:
        # the second file must describe the pins the model has NOW
        bases = sorted({b for b, _ in d["pins"]})
        prov = {b: f"zz{k}" for k, b in enumerate(bases)}
        old = {Pin(prov[b], m): i for (b, m), i in zip(d["pins"], d["idx"])}
        mod = lk.model.SolvedModel(pin_dic=old, param_dic=params, Smatrix=S)
        mod.export_InPulse(filename=os.path.join(workdir, "first.csvy"), parameter_name_mapping=emap, units=units)
        mod.pin_mapping({Pin(prov[b], m): Pin(b, m) for b, m in d["pins"]})
    else:
        mod = lk.model.SolvedModel(pin_dic=pin_dic, param_dic=params, Smatrix=S)
    mod.export_InPulse(filename=fn, parameter_name_mapping=emap, units=units)
    imap = {v: k for k, v in (d["emap"] or {}).items()} or None
    t = lk.Model_from_InPulse(fn, parameter_name_mapping=imap, mode_mapping=d["mm"])
    lp = sorted(t.pin_dic.items(), key=lambda kv: kv[1])
    if [i for _, i in lp] != list(range(len(lp))):
        raise ValueError("loaded indices are not 0..n-1")
    lpins = [(p.basename, p.mode_name) for p, _ in lp]
    grid = []
    for k, pt in enumerate(d["pts"]):
        kw = [(name, pt[c]) for c, name in enumerate(d["params"])]
        if d.get("kw_rev") and (k % 2 == 0 or d.get("kw_rev") == 2):
            kw.reverse()          # keyword order at evaluation differs from the column order of the file
        r = t.solve(**dict(kw))
        M = np.asarray(r.S)[0]
        if not np.all(np.isfinite(M)):
            raise ValueError("non-finite coefficient at an exported point")
        grid.append(M)
    mids = []
    if len(d["params"]) == 1:
        order = sorted(range(len(d["pts"])), key=lambda k: d["pts"][k][0])
        xs = [d["pts"][k][0] for k in order]
        for k, tt in d["mids"]:
            x = (1 - tt) * xs[k] + tt * xs[k + 1]
            r = t.solve(**{d["params"][0]: x})
            mids.append((x, np.asarray(r.S)[0]))
    return lpins, grid, mids


class RoundTrip(Stream):
    name = "roundtrip"
    imports = "Field Matrix Base Kernel Modes InPulse Corr"
    case_type = "ip_case"
    verdict_fn = "ip_verdict"
    shard_size = 25
    with_mm = None

    def generate(self, rng, tier):
        n = 200 if tier == "quick" else 3000
        out = []
        while len(out) < n:
            d = gen_case(rng, tier)
            if self.with_mm is True and d["mm"] is None:
                continue
            if self.with_mm is False:
                d["mm"] = None
            d["late_rename"] = rng.random() < 0.3
            out.append(d)
        return out

    def run(self, d):
        work = tempfile.mkdtemp(prefix="c14_")
        try:
            try:
                lpins, grid, mids = run_python(d, work)
                n = len(lpins)
                op = "Obs " + clist("(%s, %s)" % (cstr(b), ostr(m)) for b, m in lpins)
                og = "Obs " + clist(cmat(M.reshape(n, n), cf) for M in grid)
                om = "Obs " + clist("(%s, %s)" % (flq(x), cmat(M.reshape(n, n), cf)) for x, M in mids)
            except Exception:
                op = og = om = "Raised"
        finally:
            shutil.rmtree(work, ignore_errors=True)
        n = len(d["pins"])
        pins = clist("(%s, %s, %s)" % (cstr(b), ostr(m), cnat(i)) for (b, m), i in zip(d["pins"], d["idx"]))
        S = clist(cmat(np.array([[complex(*z) for z in row] for row in M]).reshape(n, n), cf) for M in d["S"])
        xs = "None" if len(d["params"]) != 1 else "Some " + clist(flq(pt[0]) for pt in d["pts"])
        mm = "None" if d["mm"] is None else "Some " + clist("(%s, %s)" % (cstr(a), cstr(b)) for a, b in d["mm"].items())
        return ("{| ip_pins := %s; ip_S := %s; ip_xs := %s; ip_mm := %s; ip_obs_pins := %s; ip_obs_grid := %s; "
                "ip_obs_mid := %s |}" % (pins, S, xs, mm, op, og, om))

    def nontrivial(self, d):
        return len(d["pins"]) >= 2

    def classify(self, d):
        return "p%d/%dpar/%dpts%s%s%s" % (len(d["pins"]), len(d["params"]), len(d["pts"]),
                                         "/renamed" if d["emap"] else "", "/mm" if d["mm"] else "",
                                         "/modes" if any(m is not None for _, m in d["pins"]) else "")

    def shrink(self, d):
        out = []
        if d["mm"] is not None:
            e = copy.deepcopy(d)
            e["mm"] = None
            out.append(e)
        if d["emap"]:
            e = copy.deepcopy(d)
            e["emap"] = {}
            out.append(e)
        if d["mids"]:
            e = copy.deepcopy(d)
            e["mids"] = []
            out.append(e)
        if len(d["params"]) == 1 and len(d["pts"]) > 2:
            for k in range(len(d["pts"])):
                e = copy.deepcopy(d)
                del e["pts"][k]
                del e["S"][k]
                e["mids"] = []
                out.append(e)
        n = len(d["pins"])
        if n > 1 and d["mm"] is None:
            for k in range(n):
                e = copy.deepcopy(d)
                pos = e["idx"][k]
                del e["pins"][k]
                del e["idx"][k]
                e["idx"] = [i - 1 if i > pos else i for i in e["idx"]]
                e["S"] = [[[z for j, z in enumerate(row) if j != pos] for i, row in enumerate(M) if i != pos]
                          for M in e["S"]]
                out.append(e)
        return out

    def py_repro(self, d):
        return ("import sys, tempfile; sys.path.insert(0,'/verif/harness'); import c14, json\n"
                f"d=json.loads({json.dumps(d)!r})\n"
                "print(c14.run_python(d, tempfile.mkdtemp()))\n")


class ModeMap(RoundTrip):
    name = "mode_mapping"
    with_mm = True

    def generate(self, rng, tier):
        return super().generate(rng, tier)[:80 if tier == "quick" else 1000]


class RealSolve(Stream):
    """sweeps produced by real solves (expanded library blocks, circuits) instead of hand-made results"""
    name = "real_solves"
    imports = RoundTrip.imports
    case_type = RoundTrip.case_type
    verdict_fn = RoundTrip.verdict_fn
    shard_size = 25

    def generate(self, rng, tier):
        out = []
        for _ in range(40 if tier == "quick" else 500):
            g = sorted({1.0 + rng.random() for _ in range(rng.randint(2, 4))})
            if len(g) < 2:
                continue
            out.append({"kind": rng.choice(["wg_modes", "bs_wg", "ps", "bs_partial"]), "grid": g,
                        "modes": rng.sample(MODES, rng.randint(1, 2)),
                        "mids": [[k, 0.5] for k in range(len(g) - 1)]})
        return out

    def build(self, d):
        if d["kind"] == "wg_modes":
            return lk.Waveguide(10.0, 2.0).expand_mode(list(d["modes"])).solve(wl=list(d["grid"])), "wl"
        if d["kind"] == "ps":
            return lk.PhaseShifter().solve(PS=list(d["grid"])), "PS"
        with lk.Solver() as sol:
            bs = lk.BeamSplitter(0.3).put()
            wg = lk.Waveguide(20.0, 1.5).put("a0", bs.pin["b0"])
            lk.Pin("i0").put(bs.pin["a0"])
            lk.Pin("i1").put(bs.pin["a1"])
            lk.Pin("o0").put(wg.pin["b0"])
            if d["kind"] != "bs_partial":       # bs_partial: one port stays unmapped (matrix larger than the pin table)
                lk.Pin("o1").put(bs.pin["b1"])
        return sol.solve(wl=list(d["grid"])), "wl"

    def run(self, d):
        work = tempfile.mkdtemp(prefix="c14_")
        try:
            mod, par = self.build(d)
            pins = sorted(mod.pin_dic.items(), key=lambda kv: kv[1])
            sel = [i for _, i in pins]          # the rows/columns the result's pins address (all of them unless a port is unmapped)
            dd = {"pins": [[p.basename, p.mode_name] for p, _ in pins], "idx": list(range(len(pins))),
                  "params": [par], "pts": [[x] for x in d["grid"]],
                  "S": [[[[z.real, z.imag] for z in row] for row in np.asarray(mod.S)[k][np.ix_(sel, sel)]]
                        for k in range(len(d["grid"]))],
                  "emap": {}, "mm": None, "mids": d["mids"]}
            inner = RoundTrip()
            # export the real result, not a rebuilt one
            fn = os.path.join(work, "m.csvy")
            try:
                mod.export_InPulse(filename=fn, units={par: "u"})
                t = lk.Model_from_InPulse(fn)
                lp = sorted(t.pin_dic.items(), key=lambda kv: kv[1])
                lpins = [(p.basename, p.mode_name) for p, _ in lp]
                n = len(lpins)
                grid = [np.asarray(t.solve(**{par: x}).S)[0] for x in d["grid"]]
                mids = []
                for k, tt in d["mids"]:
                    x = (1 - tt) * d["grid"][k] + tt * d["grid"][k + 1]
                    mids.append((x, np.asarray(t.solve(**{par: x}).S)[0]))
                op = "Obs " + clist("(%s, %s)" % (cstr(b), ostr(m)) for b, m in lpins)
                og = "Obs " + clist(cmat(M.reshape(n, n), cf) for M in grid)
                om = "Obs " + clist("(%s, %s)" % (flq(x), cmat(M.reshape(n, n), cf)) for x, M in mids)
            except Exception:
                op = og = om = "Raised"
        finally:
            shutil.rmtree(work, ignore_errors=True)
        n = len(dd["pins"])
        pl = clist("(%s, %s, %s)" % (cstr(b), ostr(m), cnat(i)) for (b, m), i in zip(dd["pins"], dd["idx"]))
        S = clist(cmat(np.array([[complex(*z) for z in row] for row in M]).reshape(n, n), cf) for M in dd["S"])
        xs = "Some " + clist(flq(x) for x in d["grid"])
        return ("{| ip_pins := %s; ip_S := %s; ip_xs := %s; ip_mm := None; ip_obs_pins := %s; ip_obs_grid := %s; "
                "ip_obs_mid := %s |}" % (pl, S, xs, op, og, om))

    def classify(self, d):
        return "%s/%dpts" % (d["kind"], len(d["grid"]))

    def shrink(self, d):
        out = []
        if len(d["grid"]) > 2:
            for k in range(len(d["grid"])):
                e = copy.deepcopy(d)
                del e["grid"][k]
                e["mids"] = []
                out.append(e)
        return out

    def py_repro(self, d):
        return ("import sys; sys.path.insert(0,'/verif/harness'); import c14, json\n"
                f"d=json.loads({json.dumps(d)!r})\n"
                "print(c14.RealSolve().run(d)[-400:])\n")


TRUSTED = [
    "Coq 8.16.1 kernel + vm_compute", "Bignums primitives (BigQ literals of the executed cases)",
    "hand-written model InPulse.v / Interp.v tied to /repo by this correspondence run (sampled)",
    "modelled, not verified: YAML and CSV serialisation, decimal printing/parsing of floats, numpy sqrt/exp/angle, scipy's "
    "interp1d and LinearNDInterpolator; their joint effect is observed by the tie on the real libraries at every exported "
    "point and at in-between values",
    "Coq.Reals axioms (ClassicalDedekindReals.sig_not_dec, sig_forall_dec, functional_extensionality_dep) for polar_roundtrip only",
]

if __name__ == "__main__":
    main("C14", [RoundTrip(), ModeMap(), RealSolve()],
         level_text="props/C14.v; the tie exports hand-made and really solved sweeps (1-5 pins with and without modes, awkward "
                    "base names, random index order, non-symmetric matrices with exact zeros, one parameter with 2-5 random "
                    "float values in sorted or random order, two parameters on a 2-3 x 2-3 grid, parameters renamed on export and "
                    "back on import, swapped names), loads the file with the real loader (optionally with a mode mapping) and "
                    "compares pins and every coefficient at EVERY exported point (first and last included) and at in-between "
                    "values with the model (tolerance 1e-9, decided in Coq).",
         trusted_base=TRUSTED,
         assumptions=["the stored form of a coefficient is a parameter of the model (enc/dec); dec(enc z)=z is proved over the reals "
                      "(polar_roundtrip) under numpy's contract for angle, and observed within 1e-9 by the tie",
                      "two-parameter files: only the exported grid points are compared (the triangulated interpolation between them "
                      "is not modelled)"])
