"""C13 — modes are independent: expand_mode replicates, connect_all pairs like modes, queries exact."""
from __future__ import annotations

import copy
import json

import numpy as np

import netlib
from common import Stream, cf, clist, cmat, cnat, cq, cstr, main
from netlib import Pin, lk

MODE_POOL = ["te", "tm", "x", "m3", "q", ""]     # the empty string is a mode name like any other: pin "a0_"


def ostr(m):
    return "None" if m is None else "Some " + cstr(m)


# ---------------------------------------------------------------------------------------------
# stream 1: one model, expanded; every parameter value and sweep


_EXTRA = {
    # blocks that refill ONE persistent buffer in create_S (the expansion must not cache it by identity)
    "CWA": dict(gen=lambda r, ints: {"wl": 1.0 + r.randint(0, 64) / 64.0}, make=lambda a: lk.CWA(3, 10.0),
                kw=lambda a: {"wl": a["wl"]}),
    "FPR": dict(gen=lambda r, ints: {"wl": 1.0 + r.randint(0, 64) / 64.0}, make=lambda a: lk.FPR(2, 3, 50.0, 2.0, 2.0),
                kw=lambda a: {"wl": a["wl"]}),
}


def _blocks():
    import c04
    import c09
    B = dict(c09.BLOCKS)
    B.update(_EXTRA)
    # every remaining library block (constructors of the C04 table): the block's own matrix is the oracle
    for name, (ctor, params) in c04.BLOCKS.items():
        if name in B or name.startswith(("UserWaveguide_", "PolRot", "FPRGaussian")) or name.endswith("_expanded"):
            continue       # already carry modes / are expansions / too slow for the quick tier
        B[name] = dict(gen=(lambda r, ints, ps=tuple(params): {q: 1.0 + r.randint(0, 64) / 64.0 for q in ps}),
                       make=(lambda a, c=ctor: c()), kw=(lambda a: dict(a)))
    # a user waveguide declared WITHOUT modes (it has the ports a0, b0 and may be expanded like any block)
    B["UserWaveguide_plain"] = dict(gen=(lambda r, ints: {"wl": 1.0 + r.randint(0, 64) / 64.0, "T": r.randint(0, 64) / 64.0}),
                                    make=(lambda a: lk.UserWaveguide(2.5, c04.uw_index, {"wl": 1.0, "T": 1.0})),
                                    kw=(lambda a: dict(a)))
    return B


def make_base(d):
    if d["block"] == "model":
        return netlib.comp_model(d["comp"])
    return _blocks()[d["block"]]["make"](d["args"])


def solve_kw(d):
    kw = {} if d["block"] == "model" else dict(_blocks()[d["block"]]["kw"](d["args"]))
    for k, v in d.get("sweep", {}).items():
        kw[k] = list(v)
    return kw


def run_expand(d):
    """returns (N, base matrices per point, expanded matrices per point in (mode, pin) order)"""
    kw = solve_kw(d)
    base = make_base(d)
    rb = base.solve(**copy.deepcopy(kw))
    N = len(rb.pin_dic)
    names = [None] * N
    for p, i in rb.pin_dic.items():
        names[i] = p.name
    Sb = np.asarray(rb.S)
    modes = d["modes"]
    ex = make_base(d).expand_mode(list(modes))
    if d.get("in_solver"):
        with lk.Solver() as sol:
            st = ex.put()
            for p in list(ex.pin_dic):
                lk.Pin(p.basename, p.mode_name).put(st.pin[p.name])
        if d.get("twice"):
            sol.solve(**{k: (v[0] if isinstance(v, list) else v) for k, v in kw.items()})
        re_ = sol.solve(**copy.deepcopy(kw))
    else:
        if d.get("twice"):
            ex.solve(**{k: (v[0] if isinstance(v, list) else v) for k, v in kw.items()})
        re_ = ex.solve(**copy.deepcopy(kw))
    pd = dict(re_.pin_dic)
    want = {Pin(n, m) for n in names for m in modes}
    if set(pd) != want:
        raise ValueError("expanded pin set differs: %s" % sorted(map(str, set(pd) ^ want)))
    Se = np.asarray(re_.S)
    if Se.shape[1] != N * len(modes) or Se.shape[0] != Sb.shape[0]:
        raise ValueError("expanded shape %s" % (Se.shape,))
    idx = [pd[Pin(names[n], m)] for m in modes for n in range(N)]
    if sorted(idx) != list(range(N * len(modes))):
        raise ValueError("expanded indices are not a permutation")
    obs = [Se[k][np.ix_(idx, idx)] for k in range(Se.shape[0])]
    return N, [Sb[k] for k in range(Sb.shape[0])], obs


class ExpandStream(Stream):
    name = "expand"
    imports = "Field Matrix Base Kernel Modes Corr"
    case_type = "exp_case"
    verdict_fn = "exp_verdict"
    shard_size = 40

    def generate(self, rng, tier):
        n = 160 if tier == "quick" else 3000
        out = []
        B = _blocks()
        # PolRot and the C09 table's UserWaveguide (declared with modes) already carry modes: expand_mode rejects them;
        # the mode-less UserWaveguide of the C04 table is expanded like any other block
        names = sorted(b for b in B if b not in ("PolRot", "UserWaveguide"))
        while len(out) < n:
            nm = rng.choice([1, 2, 2, 3, 3, 4, 5])
            modes = rng.sample(MODE_POOL, nm)
            d = {"modes": modes, "twice": rng.random() < 0.3, "in_solver": rng.random() < 0.3}
            if rng.random() < 0.35:
                g = netlib.gen_netlist(rng, max_comps=1, max_pins=4)
                d["block"] = "model"
                d["comp"] = g["comps"][0]
            else:
                b = rng.choice(names)
                d["block"] = b
                d["args"] = B[b]["gen"](rng, rng.random() < 0.25)
                kw = B[b]["kw"](d["args"])
                if kw and rng.random() < 0.6:
                    k = rng.choice(sorted(kw))
                    d["sweep"] = {k: [kw[k] + j / 8.0 for j in range(rng.randint(2, 4))]}
            out.append(d)
        return out

    def run(self, d):
        try:
            N, bs, obs = run_expand(d)
            b = "Obs " + clist(cmat(M.reshape(N, N), cf) for M in bs)
            o = "Obs " + clist(cmat(M, cf) for M in obs)
        except Exception:
            try:
                rb = make_base(d).solve(**solve_kw(d))
                N = len(rb.pin_dic)
                b = "Obs " + clist(cmat(np.asarray(rb.S)[k].reshape(N, N), cf) for k in range(np.asarray(rb.S).shape[0]))
            except Exception:
                N, b = 0, "Raised"
            o = "Raised"
        return "{| xp_n := %s; xp_np := %s; xp_base := %s; xp_obs := %s |}" % (
            cnat(N), cnat(len(d["modes"])), b, o)

    def nontrivial(self, d):
        return len(d["modes"]) >= 2

    def classify(self, d):
        return "%s/m%d%s%s%s" % (d["block"], len(d["modes"]), "/sweep" if d.get("sweep") else "",
                                 "/twice" if d.get("twice") else "", "/solver" if d.get("in_solver") else "")

    def shrink(self, d):
        out = []
        if len(d["modes"]) > 1:
            for i in range(len(d["modes"])):
                e = copy.deepcopy(d)
                del e["modes"][i]
                out.append(e)
        for k in ("twice", "in_solver"):
            if d.get(k):
                e = copy.deepcopy(d)
                e[k] = False
                out.append(e)
        if d.get("sweep"):
            e = copy.deepcopy(d)
            del e["sweep"]
            out.append(e)
        return out

    def py_repro(self, d):
        return ("import sys; sys.path.insert(0,'/verif/harness'); import c13, json\n"
                f"d=json.loads({json.dumps(d)!r})\n"
                "N,b,o=c13.run_expand(d); print(b); print(o)\n")


# ---------------------------------------------------------------------------------------------
# stream 2: circuits of expanded blocks wired by connect_all


def gen_circuit(rng, tier):
    while True:
        d = netlib.gen_netlist(rng, max_comps=4 if tier == "quick" else 5, max_pins=3, min_comps=2, expose_all=True)
        if not d["conns"]:
            continue
        pool = rng.sample(MODE_POOL, rng.choice([1, 2, 2, 3, 3]))
        uniform = rng.random() < 0.5
        for c in d["comps"]:
            if uniform:
                ms = list(pool)
            else:
                ms = rng.sample(pool, rng.randint(1, len(pool)))
            rng.shuffle(ms)
            c["modes"] = ms
        # exposures: per free base pin, a random subset of its modes; leftovers of partial links too
        linked = {tuple(a) for a, b in d["conns"]} | {tuple(b) for a, b in d["conns"]}
        expo = []
        j = 0
        for ci, c in enumerate(d["comps"]):
            for k in range(c["n"]):
                if (ci, k) in linked:
                    partner = None
                    for a, b in d["conns"]:
                        if tuple(a) == (ci, k):
                            partner = b[0]
                        if tuple(b) == (ci, k):
                            partner = a[0]
                    left = [m for m in c["modes"] if m not in d["comps"][partner]["modes"]]
                    ms = [m for m in left if rng.random() < 0.6]
                else:
                    ms = [m for m in c["modes"] if rng.random() < 0.8]
                if ms:
                    for m in ms:
                        expo.append([ci, k, m, f"x{j}"])
                    j += 1
        if not expo:
            continue
        rng.shuffle(expo)
        d["mexpo"] = expo
        d["api"] = rng.choice(["method", "function"])
        d["nested"] = rng.random() < 0.35
        d["styles"] = {}
        if not d["nested"]:
            for a, b in d["conns"]:
                st = rng.choice(["all", "all", "each", "subset", "some_then_all"])
                d["styles"][f"{a[0]}.{a[1]}-{b[0]}.{b[1]}"] = st
                common = [m for m in d["comps"][a[0]]["modes"] if m in d["comps"][b[0]]["modes"]]
                if st == "subset" and len(common) >= 2:
                    # the mode that stays unwired is exposed on one side (an EARLIER mode of a port whose later mode is wired)
                    d["mexpo"].append([a[0], a[1], common[0], f"s{len(d['mexpo'])}"])
        d["mode_major"] = rng.random() < 0.6
        if not d["nested"] and uniform and len(pool) >= 2 and rng.random() < 0.5:
            # ONE port, two partners: mode m0 of port (a, pa) goes to one structure, mode m1 of the same port to another
            cs = d["conns"]
            for i in range(len(cs)):
                for j in range(i + 1, len(cs)):
                    for si in (0, 1):
                        for sj in (0, 1):
                            if cs[i][si][0] == cs[j][sj][0] and cs[i][1 - si][0] != cs[j][1 - sj][0] \
                                    and "split" not in d:
                                a, b, c3 = cs[i][si], cs[i][1 - si], cs[j][1 - sj]
                                for key in (f"{cs[i][0][0]}.{cs[i][0][1]}-{cs[i][1][0]}.{cs[i][1][1]}",
                                            f"{cs[j][0][0]}.{cs[j][0][1]}-{cs[j][1][0]}.{cs[j][1][1]}"):
                                    d["styles"].pop(key, None)
                                cs[i] = [list(a), list(b)]
                                cs[j] = [list(a), list(c3)]
                                m0, m1 = d["comps"][a[0]]["modes"][:2]
                                d["styles"][f"{a[0]}.{a[1]}-{b[0]}.{b[1]}"] = "only:" + m0
                                d["styles"][f"{a[0]}.{a[1]}-{c3[0]}.{c3[1]}"] = "only:" + m1
                                d["split"] = True
            # exposures added for 'subset' links of re-routed pairs may now be wired: drop them
            if d.get("split"):
                wired = set()
                for a, b in cs:
                    sel = link_sel(d, a, b)
                    common = [m for m in d["comps"][a[0]]["modes"] if m in d["comps"][b[0]]["modes"]]
                    for m in (common if sel is None else sel):
                        wired.add((a[0], a[1], m))
                        wired.add((b[0], b[1], m))
                d["mexpo"] = [e for e in d["mexpo"] if (e[0], e[1], e[2]) not in wired]
                if not d["mexpo"]:
                    continue
        return d


def link_style(d, a, b):
    return (d.get("styles") or {}).get(f"{a[0]}.{a[1]}-{b[0]}.{b[1]}", "all")


def link_sel(d, a, b):
    """None: every common mode (connect_all, possibly after a first explicit connect); a list: exactly these modes"""
    st = link_style(d, a, b)
    common = [m for m in d["comps"][a[0]]["modes"] if m in d["comps"][b[0]]["modes"]]
    if st.startswith("only:"):
        return [st[5:]]
    if st == "each":
        return list(reversed(common))
    if st == "subset" and len(common) >= 2:
        return common[1:]                 # the first common mode stays unwired (it may be exposed instead)
    return None


def run_circuit(d):
    comps = d["comps"]

    def place_and_wire(indices, conns):
        sts = {}
        for i in indices:
            sts[i] = netlib.comp_model(comps[i]).expand_mode(list(comps[i]["modes"])).put()
        for a, b in conns:
            sel = link_sel(d, a, b)
            if sel is not None or link_style(d, a, b) == "some_then_all":
                # mode-selective wiring: the chosen modes are wired one by one with connect (Pin objects carrying the
                # mode); "some_then_all" completes the port pair with connect_all afterwards
                common = [m for m in comps[a[0]]["modes"] if m in comps[b[0]]["modes"]]
                first = sel if sel is not None else common[:1]
                for m in first:
                    lk.connect(sts[a[0]].pin[f"p{a[1]}_{m}"], sts[b[0]].pin[f"p{b[1]}_{m}"])
                if sel is not None:
                    continue
            if d["api"] == "function":
                lk.connect_all(sts[a[0]], f"p{a[1]}", sts[b[0]], f"p{b[1]}")
            else:
                lk.sol_list[-1].connect_all(sts[a[0]], f"p{a[1]}", sts[b[0]], f"p{b[1]}")
        return sts

    nc = len(comps)
    if d.get("nested") and nc >= 2:
        # component 0 lives in a sub-solver that exposes all its pins with their modes; the links to it
        # are made at top level by connect_all on the sub-solver's structure
        with lk.Solver() as inner:
            s0 = netlib.comp_model(comps[0]).expand_mode(list(comps[0]["modes"])).put()
            pairs = [(k, m) for k in range(comps[0]["n"]) for m in comps[0]["modes"]]
            if d.get("mode_major"):
                pairs = [(k, m) for m in comps[0]["modes"] for k in range(comps[0]["n"])]   # pins laid out mode by mode
            for k, m in pairs:
                lk.Pin(f"p{k}", m).put(s0.pin[f"p{k}_{m}"])
        with lk.Solver() as sol:
            sts = place_and_wire(range(1, nc), [c for c in d["conns"] if c[0][0] != 0 and c[1][0] != 0])
            sts[0] = inner.put()
            for a, b in d["conns"]:
                if a[0] == 0 or b[0] == 0:
                    lk.connect_all(sts[a[0]], f"p{a[1]}", sts[b[0]], f"p{b[1]}")
            for (c, k, m, name) in d["mexpo"]:
                lk.Pin(name, m).put(sts[c].pin[f"p{k}_{m}"])
    else:
        with lk.Solver() as sol:
            sts = place_and_wire(range(nc), d["conns"])
            for (c, k, m, name) in d["mexpo"]:
                lk.Pin(name, m).put(sts[c].pin[f"p{k}_{m}"])
    mod = sol.solve()
    want = sorted(f"{name}_{m}" for (_, _, m, name) in d["mexpo"])
    got = sorted(p.name for p in mod.pin_dic)
    if got != want:
        raise ValueError("exposed pin set differs")
    for p in mod.pin_dic:
        if p.mode_name is None:
            raise ValueError("exposed pin lost its mode")
    return netlib.observe_expo(mod, [f"{name}_{m}" for (_, _, m, name) in d["mexpo"]])


def circuit_lit(d, obs):
    cs = clist("{| mc_id := %s; mc_n := %s; mc_S := %s; mc_modes := %s |}"
               % (cnat(i), cnat(c["n"]), cmat(netlib.j2m(c["S"]).reshape(c["n"], c["n"]), cq),
                  clist(cstr(m) for m in c["modes"])) for i, c in enumerate(d["comps"]))
    def sel_lit(a, b):
        sel = link_sel(d, a, b)
        return "None" if sel is None else "(Some %s)" % clist(cstr(m) for m in sel)
    ls = clist("(%s, %s, %s, %s, %s)" % (cnat(a[0]), cnat(a[1]), cnat(b[0]), cnat(b[1]), sel_lit(a, b)) for a, b in d["conns"])
    ex = clist("(%s, %s, %s)" % (cnat(c), cnat(k), cstr(m)) for (c, k, m, _) in d["mexpo"])
    return "{| mm_comps := %s; mm_links := %s; mm_expo := %s; mm_obs := %s |}" % (cs, ls, ex, obs)


class CircuitStream(Stream):
    name = "connect_all"
    imports = "Field Matrix Base Kernel Network Solve Modes Corr"
    case_type = "mm_case"
    verdict_fn = "mm_verdict"
    shard_size = 12

    def generate(self, rng, tier):
        return [gen_circuit(rng, tier) for _ in range(120 if tier == "quick" else 2000)]

    def run(self, d):
        try:
            M = run_circuit(d)
            obs = netlib.obs_matrix_lit(M)
        except Exception:
            obs = "Raised"
        return circuit_lit(d, obs)

    def nontrivial(self, d):
        return any(len(c["modes"]) >= 2 for c in d["comps"]) and len({m for (_, _, m, _) in d["mexpo"]}) >= 2

    def classify(self, d):
        part = any(set(d["comps"][a[0]]["modes"]) != set(d["comps"][b[0]]["modes"]) for a, b in d["conns"])
        return "c%d/l%d/%s%s" % (len(d["comps"]), min(len(d["conns"]), 4), "partial" if part else "full",
                                 "/nested" if d.get("nested") else "")

    def shrink(self, d):
        out = []
        for i in range(len(d["conns"])):
            e = copy.deepcopy(d)
            del e["conns"][i]
            out.append(e)
        for i in range(len(d["mexpo"])):
            if len(d["mexpo"]) > 1:
                e = copy.deepcopy(d)
                del e["mexpo"][i]
                out.append(e)
        for ci, c in enumerate(d["comps"]):
            for m in c["modes"]:
                if len(c["modes"]) > 1:
                    e = copy.deepcopy(d)
                    e["comps"][ci]["modes"].remove(m)
                    e["mexpo"] = [x for x in e["mexpo"] if not (x[0] == ci and x[2] == m)]
                    if e["mexpo"]:
                        out.append(e)
        if d.get("nested"):
            e = copy.deepcopy(d)
            e["nested"] = False
            out.append(e)
        return out

    def py_repro(self, d):
        return ("import sys; sys.path.insert(0,'/verif/harness'); import c13, json\n"
                f"d=json.loads({json.dumps(d)!r})\n"
                "print(c13.run_circuit(d))\n")


# ---------------------------------------------------------------------------------------------
# stream 3: queries


def run_queries(d):
    """returns (pins, bases, {base: modes}, {base: pins} or None)"""
    comp = d["comp"]
    base = netlib.comp_model(comp)
    bn = d.get("bnames") or [f"p{k}" for k in range(comp["n"])]
    if d.get("bnames"):
        # base names that contain underscores (in_1, port_a1): a query must compare base names, never parse printable names
        base.pin_mapping({Pin(f"p{k}"): Pin(bn[k]) for k in range(comp["n"])})
    if d["modes"]:
        base = base.expand_mode(list(d["modes"]))
    kind = d["kind"]
    queried = list(bn) + ["nosuch"] + sorted({b.split("_")[0] for b in bn if "_" in b} - set(bn))
    out = {}

    def guard(f):
        try:
            return ("ok", f())
        except Exception as e:     # noqa: BLE001
            return ("raised", repr(e))

    if kind == "model":
        obj = base
        pins = [(p.basename, p.mode_name) for p in obj.pin_dic]
        out["bases"] = guard(lambda: list(obj.get_pin_basenames()))
        out["modes"] = {b: guard(lambda b=b: list(obj.get_pin_modes(b))) for b in queried}
        out["pinsof"] = {}
    elif kind == "solved":
        with lk.Solver() as sol:
            st = base.put()
            for p in list(base.pin_dic):
                lk.Pin(p.basename, p.mode_name).put(st.pin[p.name])
        obj = sol.solve()
        pins = [(p.basename, p.mode_name) for p in obj.pin_dic]
        out["bases"] = guard(lambda: list(obj.get_pin_basenames()))
        out["modes"] = {b: guard(lambda b=b: list(obj.get_pin_modes(b))) for b in queried}
        out["pinsof"] = {}
    else:
        if kind == "structure":
            with lk.Solver() as sol0:
                st = base.put()
                if d.get("lose") is not None:
                    # a neighbour wired to ALL modes of one base name is removed again: the placement loses those pins,
                    # and its queries must speak about the pins it still has
                    lb = bn[d["lose"]]
                    if d["modes"]:
                        nb = lk.Waveguide(1.0).expand_mode(list(d["modes"])).put()
                        lk.connect_all(st, lb, nb, "a0")
                    else:
                        nb = lk.Waveguide(1.0).put()
                        lk.connect(st.pin[lb], nb.pin["a0"])
                    sol0.remove_structure(nb)
        else:       # a placed sub-solver exposing the pins with their modes
            with lk.Solver() as inner:
                s0 = base.put()
                plist = list(base.pin_dic)
                if d.get("mode_major"):
                    plist.sort(key=lambda p: (str(p.mode_name), p.basename))     # pins laid out mode by mode
                for p in plist:
                    lk.Pin(p.basename, p.mode_name).put(s0.pin[p.name])
            with lk.Solver():
                st = inner.put()
        pins = [(p.basename, p.mode_name) for (_, p) in st.pin_list]
        out["bases"] = guard(lambda: list(st.get_pin_basenames()))
        out["modes"] = {b: guard(lambda b=b: list(st.get_pin_modenames(b))) for b in queried}
        out["pinsof"] = {b: guard(lambda b=b: [(p.basename, p.mode_name) for (s, p) in st.get_pins(b)])
                         for b in queried}
    want = {(bn[k], m) for k in range(comp["n"]) for m in (d["modes"] or [None])
            if not (kind == "structure" and d.get("lose") == k)}
    if set(pins) != want or len(pins) != len(want):
        raise ValueError("object's pins differ from what was built")
    return pins, out


class QueryStream(Stream):
    name = "queries"
    imports = "Field Matrix Base Kernel Modes Corr"
    case_type = "qry_case"
    verdict_fn = "qry_verdict"
    shard_size = 60

    def generate(self, rng, tier):
        out = []
        for _ in range(100 if tier == "quick" else 1200):
            g = netlib.gen_netlist(rng, max_comps=1, max_pins=4)
            nm = rng.choice([0, 1, 2, 3])
            out.append({"comp": g["comps"][0], "modes": rng.sample(MODE_POOL, nm),
                        "kind": rng.choice(["model", "solved", "structure", "structure", "substructure", "substructure"]),
                        "mode_major": rng.random() < 0.6})
            if out[-1]["kind"] == "structure" and rng.random() < 0.5:
                out[-1]["lose"] = rng.randrange(g["comps"][0]["n"])
            if rng.random() < 0.5:
                n = g["comps"][0]["n"]
                out[-1]["bnames"] = rng.sample(["in_1", "in_2", "in", "port_a1", "p_0", "x", "o_1_2"], n)
        return out

    def run(self, d):
        def ob(r, f):
            return "Obs " + f(r[1]) if r[0] == "ok" else "Raised"
        try:
            pins, out = run_queries(d)
        except Exception:
            return "{| q_pins := []; q_bases := Raised; q_modes := []; q_pinsof := [] |}"
        pl = lambda l: clist("(%s, %s)" % (cstr(b), ostr(m)) for b, m in l)
        return "{| q_pins := %s; q_bases := %s; q_modes := %s; q_pinsof := %s |}" % (
            pl(pins), ob(out["bases"], lambda l: clist(cstr(x) for x in l)),
            clist("(%s, %s)" % (cstr(b), ob(r, lambda l: clist(ostr(x) for x in l))) for b, r in out["modes"].items()),
            clist("(%s, %s)" % (cstr(b), ob(r, pl)) for b, r in out["pinsof"].items()))

    def nontrivial(self, d):
        return len(d["modes"]) >= 2

    def classify(self, d):
        return "%s/m%d" % (d["kind"], len(d["modes"]))

    def shrink(self, d):
        out = []
        for i in range(len(d["modes"])):
            e = copy.deepcopy(d)
            del e["modes"][i]
            out.append(e)
        return out

    def py_repro(self, d):
        return ("import sys; sys.path.insert(0,'/verif/harness'); import c13, json\n"
                f"d=json.loads({json.dumps(d)!r})\n"
                "print(c13.run_queries(d))\n")


TRUSTED = [
    "Coq 8.16.1 kernel + vm_compute", "Bignums/Uint63 primitives for the executed instance BQCf",
    "hand-written model Modes.v (index layout, block-diagonal matrix, common modes, queries) tied to /repo by this "
    "correspondence run (sampled)",
    "harness: builds the circuits through expand_mode / connect_all / Pin(base, mode).put and looks pins up by name",
]

if __name__ == "__main__":
    import translate_modes
    from common import source_obligation
    main("C13", [ExpandStream(), CircuitStream(), QueryStream()],
         source_obligations=[
             source_obligation("ModesSrc_C13", translate_modes.translate, "ModesSrcProof.v",
                               ["expand_pins_src_spec", "expand_S_src_is_expand_S", "connect_all_src_is_links",
                                "get_pin_modes_src_is_pin_modes", "get_pin_basenames_src_is_basenames"])],
         level_text="props/C13.v; the tie (1) expands every library block and random models to 1-5 modes (random order), "
                    "solves with scalar parameters and sweeps, directly and through a solver, and compares every coefficient "
                    "with expand_S of the single-mode matrices of the same parameters; (2) wires circuits of expanded blocks "
                    "(equal, permuted and partially overlapping mode lists; nested) with connect_all and compares with the "
                    "model's solve of the multi-mode netlist AND with independent per-mode single-mode solves / zero "
                    "cross-mode coefficients; (3) compares the base/mode/pin queries of models, results, structures and "
                    "placed sub-solvers with the model.",
         trusted_base=TRUSTED,
         assumptions=["expansion of an already solved model (SolvedModel.expand_mode) is outside the model: it raises "
                      "ValueError('Matrix is not square')"])
