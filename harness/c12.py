"""C12 — split() yields the connected components, each behaving like the original."""
from __future__ import annotations

import copy
import json
import random

import numpy as np

import netlib
from common import Stream, clist, cnat, main


def gen_star(rng, tier):
    """a hub with several branches (chains of two-ports); far ends declared first, hub last"""
    b = rng.randint(3, 4)
    ell = rng.randint(1, 2)
    comps = [{"n": b, "S": netlib.m2j(netlib.rand_matrix(rng, b, b, b)), "perm": list(range(b))}]
    conns, order = [], []
    for br in range(b):
        prev = (0, br)
        chain = []
        for j in range(ell):
            idx = len(comps)
            comps.append({"n": 2, "S": netlib.m2j(netlib.rand_matrix(rng, 2, 2, 2)), "perm": [0, 1]})
            conns.append([list(prev), [idx, 0]])
            prev = (idx, 1)
            chain.append(idx)
        order += list(reversed(chain))
    order.append(0)
    if rng.random() < 0.3:
        rng.shuffle(order)
    used = {tuple(e) for c in conns for e in c}
    free = [(i, k) for i in range(len(comps)) for k in range(comps[i]["n"]) if (i, k) not in used]
    expo = [[p[0], p[1], f"x{j}"] for j, p in enumerate(free)]
    return {"comps": comps, "conns": conns, "expo": expo, "order": order, "style": "with",
            "perm_seed": 0, "kind": "star"}


def gen_graph(rng, tier):
    if rng.random() < 0.2:
        return gen_star(rng, tier)
    nc = rng.randint(1, 6 if tier == "quick" else 8)
    d = netlib.gen_netlist(rng, max_comps=nc, max_pins=4, min_comps=nc)
    # sparsify: drop some connections so that several components appear; force cycles sometimes
    keep = []
    for c in d["conns"]:
        if rng.random() < 0.75:
            keep.append(c)
    d["conns"] = keep
    if rng.random() < 0.5 and nc >= 3:
        used = {tuple(e) for c in d["conns"] for e in c}
        free = {i: [(i, k) for k in range(d["comps"][i]["n"]) if (i, k) not in used] for i in range(nc)}
        tri = [i for i in range(nc) if len(free[i]) >= 2][:3]
        if len(tri) == 3:
            a, b, c3 = tri
            for x, y in ((free[a][0], free[b][0]), (free[b][1], free[c3][0]), (free[c3][1], free[a][1])):
                d["conns"].append([list(x), list(y)])
    used = {tuple(e) for c in d["conns"] for e in c}
    free = [(i, k) for i in range(nc) for k in range(d["comps"][i]["n"]) if (i, k) not in used]
    rng.shuffle(free)
    kk = rng.randint(0, len(free))
    d["expo"] = [[p[0], p[1], f"x{j}"] for j, p in enumerate(sorted(free[:kk]))]
    d["order"] = list(range(nc))
    rng.shuffle(d["order"])
    return d


def build_ordered(d):
    """like netlib.build but with the given declaration order of structures"""
    comps = d["comps"]
    models = [netlib.comp_model(c) for c in comps]
    sts = {}
    with netlib.lk.Solver(name="orig") as sol:
        for i in d["order"]:
            sts[i] = models[i].put()
        for a, b in d["conns"]:
            netlib.lk.connect(sts[a[0]].pin[f"p{a[1]}"], sts[b[0]].pin[f"p{b[1]}"])
        for c, k, name in d["expo"]:
            netlib.lk.Pin(name).put(sts[c].pin[f"p{k}"])
    return sol, sts


class SplitStream(Stream):
    name = "split"
    imports = "Field Matrix Base Kernel Network Solve Split Corr"
    case_type = "split_case"
    verdict_fn = "split_verdict"
    shard_size = 20

    def generate(self, rng, tier):
        return [gen_graph(rng, tier) for _ in range(200 if tier == "quick" else 3000)]

    def run(self, d):
        try:
            sol, sts = build_ordered(d)
            ids = {id(st): i for i, st in sts.items()}
            subs = sol.split()
            parts = []
            for sub in subs:
                members = [ids[id(st)] for st in sub.structures]
                names = [x[2] for x in d["expo"] if x[0] in members]
                try:
                    mod = sub.solve()
                    got = sorted(p.name for p in mod.pin_dic)
                    if got != sorted(names):
                        raise ValueError("exposed pins of the part differ")
                    o = netlib.obs_matrix_lit(netlib.observe_expo(mod, names))
                except Exception:
                    o = "Raised"
                parts.append("(%s, %s)" % (clist(cnat(m) for m in members), o))
            obs = "Obs " + clist(parts)
        except Exception:
            obs = "Raised"
        return ("{| sp_comps := %s; sp_conns := %s; sp_expo := %s; sp_order := %s; sp_parts := %s |}"
                % (netlib.comps_lit(d), netlib.conns_lit(d), netlib.expo_lit(d),
                   clist(cnat(i) for i in d["order"]), obs))

    def nontrivial(self, d):
        return len(d["comps"]) >= 3 and len(d["conns"]) >= 1

    def classify(self, d):
        return "c%d/l%d" % (len(d["comps"]), len(d["conns"]))

    def shrink(self, d):
        out = []
        for e in netlib.shrink_netlist(d):
            n = len(e["comps"])
            if n != len(d["comps"]):
                e["order"] = list(range(n))
            out.append(e)
        return out

    def py_repro(self, d):
        return ("import sys; sys.path.insert(0,'/verif/harness'); import c12, json\n"
                f"d=json.loads({json.dumps(d)!r})\n"
                "sol,sts=c12.build_ordered(d); print([len(s.structures) for s in sol.split()])\n")


TRUSTED = [
    "Coq 8.16.1 kernel + vm_compute", "Bignums/Uint63 primitives for the executed instance BQCf",
    "hand-written model Split.v tied to /repo by this correspondence run (sampled)",
    "harness: random graphs incl. cycles, multi-links, isolated nodes; random declaration orders",
]

if __name__ == "__main__":
    main("C12", [SplitStream()],
         level_text="props/C12.v; the tie runs split() of /repo on random graphs (trees, cycles, multi-links, isolated "
                    "structures) in random declaration orders, compares the partition as a set of sets with the model of the "
                    "incremental union and every returned solver's matrix with the model's solve of that part.",
         trusted_base=TRUSTED, assumptions=["matrix theorems conditional on the model returning Ok"])
