"""C12 — split() yields the connected components, each behaving like the original."""
from __future__ import annotations

import copy
import json
import random

import numpy as np

import netlib
from common import Stream, clist, cnat, main
from netlib import Pin, Structure, lk


def gen_star(rng, tier):
    """a hub with several branches (chains of two-ports); far ends declared first, hub last"""
    b = rng.randint(3, 4)
    ell = rng.randint(1, 2)
    comps = [{"n": b, "S": netlib.m2j(netlib.rand_matrix(rng, b, b, b)), "perm": list(range(b))}]
    conns, order = [], []
    for br in range(b):
        prev = (0, br)
        chain = []
        for j in range(ell):
            idx = len(comps)
            comps.append({"n": 2, "S": netlib.m2j(netlib.rand_matrix(rng, 2, 2, 2)), "perm": [0, 1]})
            conns.append([list(prev), [idx, 0]])
            prev = (idx, 1)
            chain.append(idx)
        order += list(reversed(chain))
    order.append(0)
    if rng.random() < 0.3:
        rng.shuffle(order)
    used = {tuple(e) for c in conns for e in c}
    free = [(i, k) for i in range(len(comps)) for k in range(comps[i]["n"]) if (i, k) not in used]
    expo = [[p[0], p[1], f"x{j}"] for j, p in enumerate(free)]
    return {"comps": comps, "conns": conns, "expo": expo, "order": order, "style": "with",
            "perm_seed": 0, "kind": "star"}


def gen_graph(rng, tier):
    if rng.random() < 0.2:
        return gen_star(rng, tier)
    nc = rng.randint(1, 6 if tier == "quick" else 8)
    d = netlib.gen_netlist(rng, max_comps=nc, max_pins=4, min_comps=nc)
    # sparsify: drop some connections so that several components appear; force cycles sometimes
    keep = []
    for c in d["conns"]:
        if rng.random() < 0.75:
            keep.append(c)
    d["conns"] = keep
    if rng.random() < 0.5 and nc >= 3:
        used = {tuple(e) for c in d["conns"] for e in c}
        free = {i: [(i, k) for k in range(d["comps"][i]["n"]) if (i, k) not in used] for i in range(nc)}
        tri = [i for i in range(nc) if len(free[i]) >= 2][:3]
        if len(tri) == 3:
            a, b, c3 = tri
            for x, y in ((free[a][0], free[b][0]), (free[b][1], free[c3][0]), (free[c3][1], free[a][1])):
                d["conns"].append([list(x), list(y)])
    used = {tuple(e) for c in d["conns"] for e in c}
    free = [(i, k) for i in range(nc) for k in range(d["comps"][i]["n"]) if (i, k) not in used]
    rng.shuffle(free)
    kk = rng.randint(0, len(free))
    d["expo"] = [[p[0], p[1], f"x{j}"] for j, p in enumerate(sorted(free[:kk]))]
    d["order"] = list(range(nc))
    rng.shuffle(d["order"])
    return d


def build_ordered(d):
    """like netlib.build but with the given declaration order of structures"""
    comps = d["comps"]
    models = [netlib.comp_model(c) for c in comps]
    sts = {}
    # some components are placed SUB-SOLVERS (the component inside, its pins exposed under their own names but declared
    # in reverse order, so that the solved port order differs from the declaration order)
    placed = {}
    for i, c in enumerate(comps):
        if c.get("n", 0) >= 2 and (i + len(comps)) % 3 == 0:
            with netlib.lk.Solver(name=f"W{i}") as sub:
                inner = models[i].put()
                for k in reversed(range(c["n"])):
                    netlib.lk.Pin(f"p{k}").put(inner.pin[f"p{k}"])
            placed[i] = sub
    with netlib.lk.Solver(name="orig") as sol:
        for i in d["order"]:
            sts[i] = placed[i].put() if i in placed else models[i].put()
        for a, b in d["conns"]:
            netlib.lk.connect(sts[a[0]].pin[f"p{a[1]}"], sts[b[0]].pin[f"p{b[1]}"])
        for c, k, name in d["expo"]:
            netlib.lk.Pin(name).put(sts[c].pin[f"p{k}"])
    return sol, sts


class SplitStream(Stream):
    name = "split"
    imports = "Field Matrix Base Kernel Network Solve Split Corr"
    case_type = "split_case"
    verdict_fn = "split_verdict"
    shard_size = 20

    def generate(self, rng, tier):
        out = [gen_graph(rng, tier) for _ in range(200 if tier == "quick" else 3000)]
        for d in out:
            d["presolve"] = rng.choice([0, 0, 1, 2])
        return out

    def run(self, d):
        try:
            sol, sts = build_ordered(d)
            ids = {id(st): i for i, st in sts.items()}
            if d.get("presolve"):
                # the circuit is solved (once or twice) BEFORE it is split: the components are those of the wiring,
                # whatever the elimination of an earlier solve paired up
                for _ in range(d["presolve"]):
                    try:
                        sol.solve()
                    except Exception:
                        pass
            subs = sol.split()
            parts = []
            for sub in subs:
                members = [ids[id(st)] for st in sub.structures]
                names = [x[2] for x in d["expo"] if x[0] in members]
                try:
                    mod = sub.solve()
                    got = sorted(p.name for p in mod.pin_dic)
                    if got != sorted(names):
                        raise ValueError("exposed pins of the part differ")
                    o = netlib.obs_matrix_lit(netlib.observe_expo(mod, names))
                except Exception:
                    o = "Raised"
                parts.append("(%s, %s)" % (clist(cnat(m) for m in members), o))
            obs = "Obs " + clist(parts)
        except Exception:
            obs = "Raised"
        return ("{| sp_comps := %s; sp_conns := %s; sp_expo := %s; sp_order := %s; sp_parts := %s |}"
                % (netlib.comps_lit(d), netlib.conns_lit(d), netlib.expo_lit(d),
                   clist(cnat(i) for i in d["order"]), obs))

    def nontrivial(self, d):
        return len(d["comps"]) >= 3 and len(d["conns"]) >= 1

    def classify(self, d):
        return "c%d/l%d%s" % (len(d["comps"]), len(d["conns"]), "/presolved" if d.get("presolve") else "")

    def shrink(self, d):
        out = []
        for e in netlib.shrink_netlist(d):
            n = len(e["comps"])
            if n != len(d["comps"]):
                e["order"] = list(range(n))
            out.append(e)
        return out

    def py_repro(self, d):
        return ("import sys; sys.path.insert(0,'/verif/harness'); import c12, json\n"
                f"d=json.loads({json.dumps(d)!r})\n"
                "sol,sts=c12.build_ordered(d); print([len(s.structures) for s in sol.split()])\n")


# ---------------------------------------------------------------------------------------------
# parametric circuits: each part must answer like the original for every assignment incl. none


def gen_param_case(rng, tier):
    nparts = rng.randint(2, 3)
    parts = []
    pnames = []
    for pi in range(nparts):
        chain = []
        for _ in range(rng.randint(1, 3)):
            k = rng.choice(["ps", "wg", "const"])
            if k == "ps":
                name = rng.choice(["PS", f"Q{pi}", "R"])
                chain.append({"k": "ps", "name": name})
                pnames.append(name)
            elif k == "wg":
                chain.append({"k": "wg", "L": rng.randint(1, 40) / 4.0, "n": 1.0 + rng.randint(0, 8) / 8.0})
            else:
                z = netlib.rand_matrix(rng, 2, 2, 2)
                chain.append({"k": "const", "S": netlib.m2j(z)})
        parts.append(chain)
    pnames = sorted(set(pnames))
    d = {"parts": parts, "defaults": {}, "adds": [], "assign": []}
    if rng.random() < 0.7:
        d["defaults"]["wl"] = 1.0 + rng.randint(1, 32) / 32.0
    for nm in pnames:
        if rng.random() < 0.5:
            d["defaults"][nm] = rng.randint(-8, 8) / 8.0
    if pnames and rng.random() < 0.5:
        old = rng.choice(pnames)
        d["adds"].append({"old": old, "new": "X", "scale": rng.choice([2, 3]), "default": rng.randint(-4, 4) / 8.0})
        d["defaults"].pop(old, None)
        if rng.random() < 0.6:
            d["defaults"]["X"] = rng.randint(-4, 4) / 8.0 + 0.0625      # the new parameter's default changed after add_param
    visible = [n for n in pnames if n not in [a["old"] for a in d["adds"]]] + [a["new"] for a in d["adds"]] + ["wl"]
    if any(blk["k"] == "wg" for chain in parts for blk in chain) and rng.random() < 0.3:
        # the wavelength itself is a derived parameter (wl = 2 F): every part must derive it like the original does
        d["adds"].append({"old": "wl", "new": "F", "scale": 2, "default": 0.75})
        d["defaults"].pop("wl", None)
        visible = [n for n in visible if n != "wl"] + ["F"]
    for _ in range(2):
        kw = {n: (0.5 + rng.randint(0, 8) / 8.0) if n == "F" else rng.randint(-8, 8) / 8.0 + (1.5 if n == "wl" else 0.0)
              for n in visible if rng.random() < 0.5}
        d["assign"].append(kw)
    d["assign"].append({})
    if rng.random() < 0.5:
        d["assign"].reverse()             # the argument-less solve comes first
    d["late_default"] = rng.random() < 0.3      # a default of the original changed after split(): parts must not follow
    return d


def build_param(d):
    with lk.Solver() as sol:
        ends = []
        for pi, chain in enumerate(d["parts"]):
            prev = None
            first = None
            for blk in chain:
                if blk["k"] == "ps":
                    st = lk.PhaseShifter(param_name=blk["name"]).put()
                elif blk["k"] == "wg":
                    st = lk.Waveguide(blk["L"], blk["n"]).put()
                else:
                    st = lk.Model(pin_dic={Pin("a0"): 0, Pin("b0"): 1}, Smatrix=netlib.j2m(blk["S"]).reshape(2, 2)).put()
                if prev is not None:
                    lk.connect(prev.pin["b0"], st.pin["a0"])
                else:
                    first = st
                prev = st
            lk.Pin(f"i{pi}").put(first.pin["a0"])
            lk.Pin(f"o{pi}").put(prev.pin["b0"])
            ends.append((f"i{pi}", f"o{pi}"))
        for a in d["adds"]:
            sc = a["scale"]
            lk.add_param(a["old"], (lambda sc, nm: (lambda **kw: sc * kw[nm]))(sc, a["new"]), default={a["new"]: a["default"]})
        lk.update_default_params(dict(d["defaults"]))
    return sol, ends


def run_param(d, only_expected=False):
    """returns (expected values from the original solver, observed values from the parts)"""
    sol, ends = build_param(d)
    if "wl" not in d["defaults"] and not any(a["old"] == "wl" for a in d["adds"]):
        for kw in d["assign"]:
            kw.setdefault("wl", 1.25)
    expected = []
    for kw in d["assign"]:
        r = sol.solve(**dict(kw))
        for (i, o) in ends:
            for a in (i, o):
                for b in (i, o):
                    expected.append(complex(r.get_A(a, b)))
    if only_expected:
        return (expected + expected if not d.get("late_default") else expected), None
    parts = sol.split()
    if len(parts) != len(ends):
        raise ValueError("split returned %d parts for %d chains" % (len(parts), len(ends)))
    if d.get("late_default"):
        sol.default_params["wl"] = 7.0
        for n in list(sol.default_params):
            if n != "wl":
                sol.default_params[n] = 0.375
    by_pin = {}
    for p in parts:
        for pin in p.pin_mapping:          # no solve here: the FIRST solve of a part may be the argument-less one
            by_pin[pin.name] = p
    observed = []
    kept = []
    for kw in d["assign"]:
        for (i, o) in ends:
            p = by_pin[i]
            if by_pin[o] is not p:
                raise ValueError("the two ends of a chain are in different parts")
            kw2 = {k: v for k, v in kw.items()}
            r = p.solve(**kw2)
            if sorted(x.name for x in r.pin_dic) != sorted([i, o]):
                raise ValueError("a part owns other pins than its chain's")
            kept.append((r, i, o))
    # every result is read only AFTER all the solves: a result is a snapshot, later solves must not rewrite it
    for r, i, o in kept:
        for a in (i, o):
            for b in (i, o):
                observed.append(complex(r.get_A(a, b)))
    if not d.get("late_default"):
        # ... and the ORIGINAL answers as before after its parts have been solved (split() hands out copies)
        again = []
        for kw in d["assign"]:
            r = sol.solve(**dict(kw))
            for (i, o) in ends:
                for a in (i, o):
                    for b in (i, o):
                        again.append(complex(r.get_A(a, b)))
        expected = expected + expected
        observed = observed + again
    return expected, observed


class SplitParams(Stream):
    name = "split_params"
    imports = "Field Matrix Base Kernel Corr"
    case_type = "val_case"
    verdict_fn = "val_verdict"
    shard_size = 60

    def generate(self, rng, tier):
        return [gen_param_case(rng, tier) for _ in range(120 if tier == "quick" else 1500)]

    def run(self, d):
        from common import cf, cvec
        d = copy.deepcopy(d)
        try:
            expected, _ = run_param(copy.deepcopy(d), only_expected=True)     # the ORIGINAL alone: the oracle
        except Exception:
            return "{| vc_expected := []; vc_obs := Obs [] |}"       # the original itself cannot answer: not a case
        try:
            _, observed = run_param(copy.deepcopy(d))
            obs = "Obs " + cvec(observed, cf)
        except Exception:
            obs = "Raised"
        return "{| vc_expected := %s; vc_obs := %s |}" % (cvec(expected, cf), obs)

    def classify(self, d):
        return "parts%d/adds%d/def%d%s" % (len(d["parts"]), len(d["adds"]), len(d["defaults"]),
                                          "/late" if d.get("late_default") else "")

    def shrink(self, d):
        out = []
        if len(d["parts"]) > 2:
            for i in range(len(d["parts"])):
                e = copy.deepcopy(d)
                del e["parts"][i]
                used = {b["name"] for ch in e["parts"] for b in ch if b["k"] == "ps"}
                e["adds"] = [a for a in e["adds"] if a["old"] in used]
                out.append(e)
        for i, ch in enumerate(d["parts"]):
            if len(ch) > 1:
                for j in range(len(ch)):
                    e = copy.deepcopy(d)
                    del e["parts"][i][j]
                    used = {b["name"] for c2 in e["parts"] for b in c2 if b["k"] == "ps"}
                    e["adds"] = [a for a in e["adds"] if a["old"] in used]
                    out.append(e)
        if len(d["assign"]) > 1:
            for i in range(len(d["assign"])):
                e = copy.deepcopy(d)
                del e["assign"][i]
                out.append(e)
        if d.get("late_default"):
            e = copy.deepcopy(d)
            e["late_default"] = False
            out.append(e)
        return out

    def py_repro(self, d):
        return ("import sys; sys.path.insert(0,'/verif/harness'); import c12, json\n"
                f"d=json.loads({json.dumps(d)!r})\n"
                "e,o=c12.run_param(d); print(e); print(o)\n")


# ---------------------------------------------------------------------------------------------
# split() after the circuit was edited (a structure cut, added again and wired elsewhere)


def gen_edited(rng, tier):
    while True:
        d = gen_graph(rng, tier)
        nc = len(d["comps"])
        linked = sorted({e[0] for c in d["conns"] for e in c})
        if nc < 3 or not linked:
            continue
        i = rng.choice(linked)
        final_conns = [c for c in d["conns"] if c[0][0] != i and c[1][0] != i]
        used = {tuple(e) for c in final_conns for e in c}
        exposed = {(x[0], x[1]) for x in d["expo"]}
        mine = [(i, k) for k in range(d["comps"][i]["n"])]
        others = [(j, k) for j in range(nc) if j != i for k in range(d["comps"][j]["n"])
                  if (j, k) not in used and (j, k) not in exposed]
        rng.shuffle(mine)
        rng.shuffle(others)
        new = []
        for x in mine[:rng.randint(0, 2)]:
            if others:
                new.append([list(x), list(others.pop())])
        e = copy.deepcopy(d)
        if rng.random() < 0.4:
            # the structure is REMOVED (its neighbours lose the pins that faced it) and stays out
            e["edit"] = {"remove": i, "new": []}
            e["final_conns"] = final_conns
            e["final_expo"] = [x for x in d["expo"] if x[0] != i]
            e["final_order"] = [j for j in d["order"] if j != i]
            return e
        e["edit"] = {"cut": i, "new": new}
        e["final_conns"] = final_conns + new
        newused = {tuple(x) for c in new for x in c}
        e["final_expo"] = [x for x in d["expo"] if x[0] != i and (x[0], x[1]) not in newused]
        e["final_order"] = [j for j in d["order"] if j != i] + [i]
        return e


class EditedSplit(SplitStream):
    """the circuit is built, one linked structure is cut, added again and wired to other free pins; then split()"""
    name = "split_after_edit"

    def generate(self, rng, tier):
        return [gen_edited(rng, tier) for _ in range(100 if tier == "quick" else 1500)]

    def run(self, d):
        final = {"comps": d["comps"], "conns": d["final_conns"], "expo": d["final_expo"]}
        try:
            sol, sts = build_ordered(d)
            if "remove" in d["edit"]:
                victim = sts[d["edit"]["remove"]]
                if victim.solver is not None and (d["edit"]["remove"] + len(d["final_conns"])) % 3 != 0:
                    # the structure is a placed sub-solver: it is EMPTIED and pruned away (a dead branch with live
                    # links) instead of being removed by hand
                    victim.solver.remove_structure(victim.solver.structures[0])
                    sol.prune()
                    if victim in sol.structures:
                        raise ValueError("prune() kept a dead branch")
                else:
                    sol.remove_structure(victim)
            else:
                i = d["edit"]["cut"]
                sol.cut_structure(sts[i])
                sol.add_structure(sts[i])
            for a, b in d["edit"]["new"]:
                sol.connect(sts[a[0]], Pin(f"p{a[1]}"), sts[b[0]], Pin(f"p{b[1]}"))
            ids = {id(st): j for j, st in sts.items()}
            # a link the solver must refuse (free pin -> pin that already has a link) just before split(): the refusal
            # must leave no trace in what split() looks at
            used = [tuple(e) for c in d["final_conns"] for e in c]
            gone = d["edit"].get("remove")
            present = [j for j in sts if j != gone and sts[j] in sol.structures]
            free = [(j, q) for j in present for q in range(d["comps"][j]["n"]) if (j, q) not in used]
            bad = next(((x, y) for x in free for y in used if y[0] != x[0] and y[0] in present), None)
            if bad is not None:
                try:
                    sol.connect(sts[bad[0][0]], Pin(f"p{bad[0][1]}"), sts[bad[1][0]], Pin(f"p{bad[1][1]}"))
                    refused = False
                except Exception:
                    refused = True
                if not refused:
                    raise ValueError("a second link on a connected pin was accepted")
            if free:
                # ... and a link to a structure that is not in this solver at all
                stranger = Structure(model=netlib.comp_model({"n": 2, "S": [[[0.0, 0.0], [1.0, 0.0]], [[1.0, 0.0], [0.0, 0.0]]]}))
                x = free[0]
                try:
                    sol.connect(sts[x[0]], Pin(f"p{x[1]}"), stranger, Pin("p0"))
                    refused = False
                except Exception:
                    refused = True
                if not refused:
                    raise ValueError("a link to a structure outside the solver was accepted")
            subs = sol.split()
            parts = []
            for sub in subs:
                members = [ids[id(st)] for st in sub.structures]
                names = [x[2] for x in d["final_expo"] if x[0] in members]
                try:
                    mod = sub.solve()
                    if sorted(p.name for p in mod.pin_dic) != sorted(names):
                        raise ValueError("exposed pins of the part differ")
                    o = netlib.obs_matrix_lit(netlib.observe_expo(mod, names))
                except Exception:
                    o = "Raised"
                parts.append("(%s, %s)" % (clist(cnat(m) for m in members), o))
            obs = "Obs " + clist(parts)
        except Exception:
            obs = "Raised"
        return ("{| sp_comps := %s; sp_conns := %s; sp_expo := %s; sp_order := %s; sp_parts := %s |}"
                % (netlib.comps_lit(final), netlib.conns_lit(final), netlib.expo_lit(final),
                   clist(cnat(j) for j in d["final_order"]), obs))

    def shrink(self, d):
        out = []
        for k in range(len(d["edit"]["new"])):
            e = copy.deepcopy(d)
            gone = e["edit"]["new"].pop(k)
            e["final_conns"] = [c for c in e["final_conns"] if c != gone]
            out.append(e)
        return out

    def py_repro(self, d):
        return ("import sys; sys.path.insert(0,'/verif/harness'); import c12, json\n"
                f"d=json.loads({json.dumps(d)!r})\n"
                "print(c12.EditedSplit().run(d)[-600:])\n")


TRUSTED = [
    "Coq 8.16.1 kernel + vm_compute", "Bignums/Uint63 primitives for the executed instance BQCf",
    "hand-written model Split.v tied to /repo by this correspondence run (sampled)",
    "harness: random graphs incl. cycles, multi-links, isolated nodes; random declaration orders",
]

if __name__ == "__main__":
    import translate_split
    from common import source_obligation
    main("C12", [SplitStream(), EditedSplit(), SplitParams()],
         source_obligations=[
             source_obligation("SplitSrc_C12", translate_split.translate, "SplitSrcProof.v",
                               ["split_step_src_is_split_step", "split_sets_src_is_split_sets", "split_parts_src_spec"])],
         level_text="props/C12.v; the tie runs split() of /repo on random graphs (trees, cycles, multi-links, isolated "
                    "structures) in random declaration orders, compares the partition as a set of sets with the model of the "
                    "incremental union and every returned solver's matrix with the model's solve of that part; parametric circuits (renamed phase shifters, waveguides, add_param, solver defaults): every part must answer like the original for several assignments including none, also after the original's defaults are changed later.",
         trusted_base=TRUSTED, assumptions=["matrix theorems conditional on the model returning Ok"])
