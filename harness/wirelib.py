"""Edit histories of a Solver: generation (with a tiny tracker used only to choose sensible and
deliberately invalid operations), execution on /repo, canonical observation, Coq literals."""
from __future__ import annotations

import copy
import random

import numpy as np

import netlib
from common import cf, clist, cmat, cnat, cq
from netlib import Pin, Structure, lk, m2j, rand_matrix


def pname(i, k):
    # structures 2j and 2j+1 use the same pin names (as two instances of one block do)
    return f"s{i // 2}p{k}"


def auto_name(i, k):
    return 1000 + 100 * (i // 2) + k


def spin(x):
    return f"({cnat(x[0])}, {cnat(x[1])})"


def name_id(n: str) -> int:
    if n.startswith("x"):
        return int(n[1:])
    g, k = n[1:].split("p")
    return 1000 + 100 * int(g) + int(k)


# ---------------------------------------------------------------------------------------------
# generation


class Tracker:
    """bookkeeping used ONLY to choose operations (valid and deliberately invalid ones)"""

    def __init__(self, sizes):
        self.sizes = sizes
        self.present = []
        self.pins = {}        # id -> list of k still present
        self.conns = []       # list of (x, y)
        self.mapped = {}      # name -> pin
        self.created = set()
        self.dirty = set()    # removed structures (not re-added by the generator)

    def connected(self):
        return {e for c in self.conns for e in c}

    def free(self):
        con = self.connected()
        return [(i, k) for i in self.present for k in self.pins[i] if (i, k) not in con]


def gen_history(rng: random.Random, nstruct=4, length=12, invalid_p=0.0, max_pins=3, scenario=None):
    sizes = [rng.randint(1, max_pins) if rng.random() > 0.12 else 0 for _ in range(nstruct)]
    if nstruct >= 3 and rng.random() < 0.4:
        sizes[rng.randrange(nstruct)] = 0
    if scenario == "hub":
        nstruct = max(nstruct, 3)
        sizes = [rng.randint(2, max(2, max_pins))] + [rng.randint(1, max_pins) for _ in range(nstruct - 1)]
    if scenario == "expose_wire":
        nstruct = max(nstruct, 2)
        sizes = [rng.randint(1, max_pins), rng.randint(1, max_pins)] + [rng.randint(1, max_pins) for _ in range(nstruct - 2)]
    if scenario == "multilink":
        nstruct = max(nstruct, 3)
        sizes = [rng.randint(3, 4), rng.randint(2, 3)] + [rng.randint(1, max_pins) for _ in range(nstruct - 2)]
    comps = []
    for n in sizes:
        comps.append({"n": n, "S": m2j(rand_matrix(rng, n, n, n))})
        if n > 0 and rng.random() < (0.4 if scenario else 0.25):
            comps[-1]["wrap"] = True
    tr = Tracker(sizes)
    ops = []
    nexpo = [0]

    def emit(op):
        ops.append(op)

    def do_add(i):
        emit(["add", i])
        if i not in tr.present:
            tr.present.append(i)
            if i not in tr.created:
                tr.created.add(i)
                tr.pins[i] = list(range(sizes[i]))

    def do_connect(x, y):
        emit(["connect", list(x), list(y)])
        tr.conns.append((x, y))

    def do_cut(i, remove=False):
        emit(["remove" if remove else "cut", i])
        tr.present.remove(i)
        for (x, y) in list(tr.conns):
            if x[0] == i or y[0] == i:
                tr.conns.remove((x, y))
                if remove:
                    o = y if x[0] == i else x
                    tr.pins[o[0]].remove(o[1])
        for n, p in list(tr.mapped.items()):
            if p[0] == i:
                del tr.mapped[n]
        if remove:
            tr.dirty.add(i)

    for i in range(min(nstruct, 2)):
        do_add(i)
    if scenario == "expose_wire":
        # a pin is exposed under a name while it is free, THEN wired to another structure, and that structure is cut
        # again (no solve in between): the exposure is part of the circuit that remains
        if sizes[0] == 0:
            sizes[0] = 1
        k = rng.randrange(sizes[0])
        late_map = rng.random() < 0.3      # the third order: the pin is wired FIRST and exposed while it is wired
        if late_map:
            pass
        elif rng.random() < 0.5:
            emit(["map", "x77", [0, k]])
            tr.mapped["x77"] = (0, k)
        else:
            # ... or everything is raised first (so the pins that get wired next are exposed ones), and raised again
            # after a further structure has been added
            emit(["raise"])
            for p in tr.free():
                if p not in tr.mapped.values():
                    tr.mapped["auto%d_%d" % tuple(p)] = p
        cand = [j for j in range(1, min(nstruct, 2)) if sizes[j] > 0]
        if cand:
            j = cand[0]
            do_connect((0, k), (j, rng.randrange(sizes[j])))
            if late_map:
                emit(["map", "x77", [0, k]])
                tr.mapped["x77"] = (0, k)
            if rng.random() < 0.5 and nstruct >= 3:
                do_add(2)
                emit(["raise"])
                for p in tr.free():
                    if p not in tr.mapped.values():
                        tr.mapped["auto%d_%d" % tuple(p)] = p
            keep = dict(tr.mapped)
            do_cut(j)
            for nm, p in keep.items():       # exposures of the structures that stay survive the cut
                if p[0] != j:
                    tr.mapped[nm] = p
            if rng.random() < 0.5:
                do_add(j)
        if rng.random() < 0.5:               # (half of the histories solve with the exposures made so far)
            emit(["raise"])
            for p in tr.free():
                if p not in tr.mapped.values():
                    tr.mapped["auto%d_%d" % tuple(p)] = p
        emit(["solve"])
        length = len(ops) + rng.randint(0, 4)
    if scenario == "multilink":
        # structure 0 is linked to structure 1 TWICE, with a link to a third structure declared in between; then 1 is
        # taken out (removed or cut) and the history goes on around structure 0 (cut / removed / re-wired / solved)
        do_add(2)
        do_connect((0, 0), (1, 0))
        do_connect((0, 1), (2, 0))
        do_connect((0, 2), (1, 1))
        if rng.random() < 0.4:
            emit(["raise"])
            for p in tr.free():
                if p not in tr.mapped.values():
                    tr.mapped["auto%d_%d" % tuple(p)] = p
            emit(["solve"])
        do_cut(1, remove=rng.random() < 0.6)
        follow = rng.choice(["cut0", "remove0", "cut2", "none"])
        if follow == "cut0":
            do_cut(0)
            if rng.random() < 0.5:
                do_add(0)
        elif follow == "remove0":
            do_cut(0, remove=True)
        elif follow == "cut2":
            do_cut(2)
        emit(["raise"])
        for p in tr.free():
            if p not in tr.mapped.values():
                tr.mapped["auto%d_%d" % tuple(p)] = p
        emit(["solve"])
        length = len(ops) + rng.randint(0, 5)
    if scenario == "hub":
        # structure 0 gets links to >= 2 distinct neighbours, is cut (or removed), and the history goes on
        # around the freed pins: bypass connections, re-adding the hub, exposing, solving
        for i in range(2, nstruct):
            do_add(i)
        nb = list(range(1, nstruct))
        rng.shuffle(nb)
        hub_pins = list(range(sizes[0]))
        rng.shuffle(hub_pins)
        for k, j in zip(hub_pins, nb):
            do_connect((0, k), (j, rng.randrange(sizes[j])))
        if rng.random() < 0.4:
            free = [p for p in tr.free() if p[0] != 0]
            if len(free) >= 2 and free[0][0] != free[-1][0]:
                do_connect(free[0], free[-1])
        if rng.random() < 0.5:
            emit(["raise"])
            for p in tr.free():
                if p not in tr.mapped.values():
                    tr.mapped["auto%d_%d" % tuple(p)] = p
            emit(["solve"])
        removed = rng.random() < 0.25
        do_cut(0, remove=removed)
        follow = rng.choice(["bypass", "readd", "readd_connect", "solve"])
        free = [p for p in tr.free() if p not in tr.mapped.values()]
        if follow == "bypass" and len(free) >= 2:
            x = rng.choice(free)
            cand = [p for p in free if p[0] != x[0]]
            if cand:
                do_connect(x, rng.choice(cand))
        elif follow in ("readd", "readd_connect") and not removed:
            do_add(0)
            if follow == "readd_connect":
                free = [p for p in tr.free() if p not in tr.mapped.values()]
                mine = [p for p in free if p[0] == 0]
                other = [p for p in free if p[0] != 0]
                if mine and other:
                    do_connect(rng.choice(mine), rng.choice(other))
        emit(["raise"])
        for p in tr.free():
            if p not in tr.mapped.values():
                tr.mapped["auto%d_%d" % tuple(p)] = p
        emit(["solve"])
        length = len(ops) + rng.randint(0, 5)
    while len(ops) < length:
        r = rng.random()
        if rng.random() < invalid_p:
            kind = rng.choice(["readd", "conn_used", "conn_used2", "conn_nopin", "repeat", "repeat_flip",
                               "same_struct", "cut_absent"])
            free = tr.free()
            if kind == "readd" and tr.present:
                emit(["add", rng.choice(tr.present)])
            elif kind in ("conn_used", "conn_used2") and tr.conns and free:
                x = rng.choice(tr.conns)[rng.randint(0, 1)]
                y = rng.choice([p for p in free if p[0] != x[0]] or [None])
                if y is not None and y not in tr.mapped.values():
                    emit(["connect", list(x), list(y)] if kind == "conn_used" else ["connect", list(y), list(x)])
            elif kind == "conn_nopin" and free:
                y = rng.choice(free)
                others = [i for i in tr.present if i != y[0]]
                if others and y not in tr.mapped.values():
                    emit(["connect", [rng.choice(others), 7], list(y)] if rng.random() < 0.5
                         else ["connect", list(y), [rng.choice(others), 7]])
            elif kind in ("repeat", "repeat_flip") and tr.conns:
                x, y = rng.choice(tr.conns)
                emit(["connect", list(x), list(y)] if kind == "repeat" else ["connect", list(y), list(x)])
            elif kind == "same_struct":
                cand = [i for i in tr.present if len([p for p in free if p[0] == i]) >= 2]
                if cand:
                    i = rng.choice(cand)
                    ps = [p for p in free if p[0] == i and p not in tr.mapped.values()]
                    if len(ps) >= 2:
                        emit(["connect", list(ps[0]), list(ps[1])])
            elif kind == "cut_absent":
                absent = [i for i in range(nstruct) if i not in tr.present and i in tr.created]
                if absent:
                    emit([rng.choice(["cut", "remove"]), rng.choice(absent)])
            continue
        if r < 0.30:
            free = [p for p in tr.free() if p not in tr.mapped.values()]
            if len(free) >= 2:
                x = rng.choice(free)
                cand = [p for p in free if p[0] != x[0]]
                if cand:
                    do_connect(x, rng.choice(cand))
        elif r < 0.50:
            absent = [i for i in range(nstruct) if i not in tr.present]
            if absent:
                do_add(rng.choice(absent))
        elif r < 0.62:
            if len(tr.present) >= 2:
                do_cut(rng.choice(tr.present))
        elif r < 0.70:
            if len(tr.present) >= 2:
                do_cut(rng.choice(tr.present), remove=True)
        elif r < 0.80:
            free = [p for p in tr.free() if p not in tr.mapped.values()]
            if free:
                p = rng.choice(free)
                xs = [n for n in tr.mapped if n.startswith("x")]
                if xs and rng.random() < 0.3:
                    name = rng.choice(xs)          # the same external name mapped again, to another pin
                else:
                    name = f"x{nexpo[0]}"
                    nexpo[0] += 1
                emit(["map", name, list(p)])
                tr.mapped[name] = p
        elif r < 0.80 + 0.0 and False:
            pass
        elif r < 0.83:
            if tr.present and rng.random() < 0.5:
                i = rng.choice(tr.present)
                if sizes[i] > 0:
                    emit(["setp", i, rng.randint(1, 8) / 8.0 + 0.03125])
                    continue
            if rng.random() < 0.6:
                # an empty model declared right before another structure, then prune
                absent0 = [i for i in range(nstruct) if i not in tr.present and sizes[i] == 0 and i not in tr.dirty]
                if absent0:
                    do_add(rng.choice(absent0))
                    others = [i for i in range(nstruct) if i not in tr.present and i not in tr.dirty]
                    if others and rng.random() < 0.7:
                        do_add(rng.choice(others))
            emit(["prune"])
            for i in [i for i in tr.present if sizes[i] == 0]:
                tr.present.remove(i)
        elif r < 0.87:
            emit(["raise"])
            for p in tr.free():
                if p not in tr.mapped.values():
                    tr.mapped["auto%d_%d" % tuple(p)] = p
        else:
            if tr.present:
                emit(["solve"])
    if tr.present:
        emit(["solve"])
    # a quarter of the histories start from a solver CONSTRUCTED with their leading adds / connects
    # (Solver(structures=[...], connections={...})) instead of issuing them one by one
    return {"comps": comps, "ops": ops, "ctor": rng.random() < 0.25}


# ---------------------------------------------------------------------------------------------
# execution on the implementation


class Driver:
    def __init__(self, desc, by_name=False):
        self.desc = desc
        self.by_name = by_name
        self.models = {}
        self.sts = {}
        self.sol = lk.Solver()
        self.ids = {}
        self.added = set()
        self.corrupt = False          # a rejected call changed the solver's parameter defaults

    def structure(self, i):
        if i not in self.sts:
            c = self.desc["comps"][i]
            n = c["n"]
            if n == 0:
                m = lk.Model()
            else:
                m = lk.Model(pin_dic={Pin(pname(i, k)): k for k in range(n)}, param_dic={f"q{i}": 0.25},
                             Smatrix=netlib.j2m(c["S"]))
            self.models[i] = m
            if c.get("wrap") and n > 0:
                # the same component as a placed SUB-SOLVER: one structure inside, every pin exposed under its own name
                sub = lk.Solver(name=f"W{i}")
                inner = Structure(model=m)
                sub.add_structure(inner)
                sub.map_pins({pname(i, k): inner.pin[pname(i, k)] for k in range(n)})
                st = Structure(solver=sub)
            else:
                st = Structure(model=m)
            self.sts[i] = st
            self.ids[id(st)] = i
        return self.sts[i]

    def pin(self, x):
        return Pin(pname(x[0], x[1]))

    def tup(self, t):
        return (self.ids.get(id(t[0]), 997), int(t[1].name.split("p")[1]) if "p" in t[1].name else 0)

    def apply(self, op):
        """returns (ok, solved_model_or_None)"""
        mod = None
        before = repr(sorted((k, repr(v)) for k, v in self.sol.default_params.items()))
        try:
            if op[0] == "setp":
                self.sol.set_param(f"q{op[1]}", op[2])
                return True, None
            if op[0] == "add":
                st = self.structure(op[1])
                if st.solver is not None and self.sol.structures and self.sol.structures[0].pin_list:
                    # a placement of the sub-solver by a pin NAME it does not expose: refused, nothing may be left behind
                    other = self.sol.structures[0]
                    try:
                        with self.sol:
                            st.solver.put("nosuchpin", other.pin_list[0])
                    except Exception:
                        pass
                    else:
                        self.corrupt = True
                self.added.add(op[1])
                self.sol.add_structure(st)
            elif op[0] == "connect":
                x, y = op[1], op[2]
                a, b = self.structure(x[0]), self.structure(y[0])
                if self.by_name:
                    self.sol.connect(a, pname(*x), b, pname(*y))
                else:
                    self.sol.connect(a, self.pin(x), b, self.pin(y))
            elif op[0] == "cut":
                self.sol.cut_structure(self.structure(op[1]))
            elif op[0] == "remove":
                self.sol.remove_structure(self.structure(op[1]))
            elif op[0] == "map":
                x = op[2]
                st = self.structure(x[0])
                self.nmap = getattr(self, "nmap", 0) + 1
                if self.nmap % 2 == 1:
                    # first the same exposure with a pin NAME the structure does not have (method or helper): it must
                    # be refused and leave nothing behind (the state compared next is the one without this call)
                    try:
                        if self.nmap % 3 == 0:
                            # several exposures in ONE call, the last of them invalid: none of them may be made
                            self.sol.map_pins({"x88": (st, self.pin(x)), "x89": (st, "nosuchpin")})
                        elif (self.nmap // 2) % 2:
                            self.sol.map_pins({op[1]: (st, "nosuchpin")})
                        else:
                            with self.sol:
                                lk.putpin(op[1], (st, "nosuchpin"))
                    except Exception:
                        pass
                    else:
                        self.corrupt = True
                v = self.nmap % 4
                if v == 0:
                    self.sol.map_pins({op[1]: (st, self.pin(x))})
                elif v == 1:
                    self.sol.map_pins({op[1]: (st, pname(*x))})          # target pin given by name
                elif v == 2:
                    with self.sol:
                        lk.putpin(op[1], (st, pname(*x)))                 # the helper, target pin by name
                else:
                    with self.sol:
                        lk.putpin(op[1], st.pin[pname(*x)])
            elif op[0] == "raise":
                self.nraise = getattr(self, "nraise", 0) + 1
                if self.nraise % 3 != 1:
                    with self.sol:               # the public helper on the active solver (two times out of three)
                        lk.raise_pins()
                else:
                    self.sol.maps_all_pins()
            elif op[0] == "prune":
                self.sol.prune()
            elif op[0] == "solve":
                mod = self.sol.solve()
            return True, mod
        except Exception:
            if repr(sorted((k, repr(v)) for k, v in self.sol.default_params.items())) != before:
                self.corrupt = True
            return False, None

    def observe(self, ok, mod):
        sol = self.sol
        o = {"ok": ok,
             "structs": [self.ids.get(id(s), 997) for s in sol.structures],       # 997: a structure nobody asked for
             "conns": [(self.tup(a), self.tup(b)) for a, b in sol.connections.items()],
             "clist": [self.tup(t) for t in sol.connections_list],
             "free": [self.tup(t) for t in sol.free_pins],
             "map": [(name_id(p.name), self.tup(t)) for p, t in sol.pin_mapping.items()],
             "store": [], "S": None}
        if self.corrupt:
            o["structs"] = o["structs"] + [999]      # atomicity covers the parameter defaults too
        for i, st in sorted((i, st) for i, st in self.sts.items() if i in self.added):
            o["store"].append((i, [self.tup(t) for t in st.pin_list],
                               [(self.tup(a), self.tup(b)) for a, b in st.conn_dict.items()],
                               [self.ids[id(t)] for t in st.connected_to]))
        if mod is not None:
            names = sorted(sol.pin_mapping.keys(), key=lambda p: name_id(p.name))
            got = sorted(p.name for p in mod.pin_dic)
            if got != sorted(p.name for p in names):
                raise ValueError("exposed pin set differs")
            o["S"] = netlib.observe_expo(mod, [p.name for p in names])
        return o


def op_lit(op):
    if op[0] == "add":
        return f"Add {cnat(op[1])} {cnat(op[2])}"
    if op[0] == "connect":
        return f"Connect {spin(op[1])} {spin(op[2])}"
    if op[0] == "cut":
        return f"Cut {cnat(op[1])}"
    if op[0] == "remove":
        return f"Remove {cnat(op[1])}"
    if op[0] == "map":
        return f"MapPin {cnat(name_id(op[1]))} {spin(op[2])}"
    if op[0] == "raise":
        return "RaiseAll"
    if op[0] == "prune":
        return "Prune " + clist(cnat(i) for i in op[1])
    return "SolveOp"


def ostate_lit(o):
    S = "None" if o["S"] is None else "Some " + cmat(np.asarray(o["S"]).reshape(len(o["S"]), len(o["S"])), cf)
    store = clist("(%s, (%s, %s, %s))" % (cnat(i), clist(spin(p) for p in pins),
                                          clist(f"({spin(a)}, {spin(b)})" for a, b in conn),
                                          clist(cnat(t) for t in to))
                  for i, pins, conn, to in o["store"])
    return ("{| o_ok := %s; o_structs := %s; o_conns := %s; o_clist := %s; o_free := %s; o_map := %s; "
            "o_store := %s; o_S := %s |}"
            % ("true" if o["ok"] else "false", clist(cnat(i) for i in o["structs"]),
               clist(f"({spin(a)}, {spin(b)})" for a, b in o["conns"]),
               clist(spin(p) for p in o["clist"]), clist(spin(p) for p in o["free"]),
               clist(f"({cnat(n)}, {spin(p)})" for n, p in o["map"]), store, S))


def run_history(desc, by_name=False):
    """execute on /repo; returns the Coq term of the case"""
    drv = Driver(desc, by_name)
    obs = []
    ops = []
    todo = list(desc["ops"])
    k = 0
    seen_pins, seen_sts = set(), set()
    while k < len(todo) and todo[k][0] in ("add", "connect"):
        # only first-time adds and links between pins not yet used: a repetition is a call of its own, not part of a netlist
        if todo[k][0] == "add":
            if todo[k][1] in seen_sts:
                break
            seen_sts.add(todo[k][1])
        else:
            ends = {tuple(todo[k][1]), tuple(todo[k][2])}
            if ends & seen_pins or len(ends) < 2:
                break
            seen_pins |= ends
        k += 1
    if desc.get("ctor") and k >= 2:
        # the states after the leading adds / connects are observed on a throw-away solver that issues them one by one;
        # the solver the rest of the history works on is CONSTRUCTED with those structures and links at once
        tmp = Driver(desc, by_name)
        pre = []
        for op in todo[:k]:
            ok, mod = tmp.apply(op)
            pre.append((ok, tmp.observe(ok, mod)))
        if all(ok for ok, _ in pre):
            sts, conns = [], {}
            for op in todo[:k]:
                if op[0] == "add":
                    sts.append(drv.structure(op[1]))
                    drv.added.add(op[1])
                else:
                    x, y = op[1], op[2]
                    conns[(drv.structure(x[0]), drv.pin(x))] = (drv.structure(y[0]), drv.pin(y))
            drv.sol = lk.Solver(structures=sts, connections=conns)
            for op, (ok, o) in zip(todo[:k], pre):
                obs.append(o)
                ops.append(["add", op[1], desc["comps"][op[1]]["n"]] if op[0] == "add" else list(op))
            todo = todo[k:]
    for op in todo:
        ok, mod = drv.apply(op)
        if op[0] == "setp":
            continue                  # parameter defaults are not part of the wiring model
        try:
            o = drv.observe(ok, mod)
        except Exception:
            o = drv.observe(False, None)
        obs.append(o)
        full = list(op)
        if op[0] == "add":
            full = ["add", op[1], desc["comps"][op[1]]["n"]]
        if op[0] == "prune":
            full = ["prune", [i for i, c in enumerate(desc["comps"]) if c["n"] == 0]]
        ops.append(full)
    mats = clist("(%s, %s)" % (cnat(i), cmat(netlib.j2m(c["S"]).reshape(c["n"], c["n"]), cq))
                 for i, c in enumerate(desc["comps"]))
    return "{| wc_mats := %s; wc_ops := %s; wc_obs := %s |}" % (
        mats, clist(op_lit(o) for o in ops), clist(ostate_lit(o) for o in obs))


def shrink_history(d):
    out = []
    n = len(d["ops"])
    for i in range(n - 1, -1, -1):
        e = copy.deepcopy(d)
        del e["ops"][i]
        out.append(e)
    for k in (n // 2,):
        if k > 0:
            e = copy.deepcopy(d)
            e["ops"] = e["ops"][:k]
            out.insert(0, e)
    return out
