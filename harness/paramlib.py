"""Parameter delivery: hierarchies of solvers whose leaves are probes (transmission = the value
of their parameter), random injective renamings, defaults at every level, add_param definitions."""
from __future__ import annotations

import copy
import random
from fractions import Fraction as Fr

import numpy as np

from common import clist, cnat, setup_repo_import, zlit

lk = setup_repo_import()
from lekkersim.pin import Pin  # noqa: E402

POOL = list(range(6))


def pn(n):
    return f"q{n}"


class Probe(lk.Model):
    """two-port whose transmission IS the value of its parameter (exactly observable)"""

    def __init__(self, name, default):
        super().__init__(pin_dic={Pin("a0"): 0, Pin("b0"): 1}, param_dic={name: default})
        self.pn = name

    def create_S(self):
        v = self.param_dic[self.pn]
        S = np.zeros((2, 2), complex)
        S[0, 1] = v
        S[1, 0] = v
        self.S = S
        return S


class Spy(lk.Model):
    """two-port revealing EVERY key of its working dictionary: transmission = sum_k 2^-(k+1) * value(q_k)"""

    def __init__(self, defaults):
        super().__init__(pin_dic={Pin("a0"): 0, Pin("b0"): 1}, param_dic=dict(defaults))

    def create_S(self):
        v = 0.0
        for k in range(8):
            x = self.param_dic.get(pn(k))
            if x is not None:
                v = v + x / 2.0 ** (k + 1)
        S = np.zeros((2, 2), complex)
        S[0, 1] = v
        S[1, 0] = v
        self.S = S
        return S


FUNCS = {0: (1, lambda x: 2 * x + 1), 1: (2, lambda x, y: x + 2 * y), 2: (1, lambda x: x / 2), 3: (0, lambda: 0.75)}


def make_func(fid, argnames):
    arity, f = FUNCS[fid]

    def g(**kw):
        return f(*[kw[a] for a in argnames])
    return g


def rq(rng):
    return rng.randint(-8, 8) / 4.0


def gen_rmap(rng, names_hint):
    """injective renaming old -> new (both sides without repetition); may contain chains and swaps"""
    k = rng.choice([0, 0, 1, 1, 2, 3])
    olds = rng.sample(POOL, min(k, len(POOL)))
    r = rng.random()
    if r < 0.35 and len(olds) >= 2:
        news = olds[1:] + olds[:1]              # a cyclic permutation: swaps and chains
    else:
        news = rng.sample(POOL, len(olds))
    pairs = [[o, n] for o, n in zip(olds, news) if o != n]
    rng.shuffle(pairs)
    return pairs


_FRESH = [10]


def hygienic_rmap(rng, child):
    """rename some of the child's visible parameters to names used nowhere else"""
    vis = sorted(visible_defaults(child))
    pairs = []
    for o in rng.sample(vis, min(len(vis), rng.choice([0, 1, 1, 2]))):
        _FRESH[0] += 1
        pairs.append([o, _FRESH[0]])
    return pairs


def gen_tree(rng, depth, spy_p=0.0, hygienic=False, twins=False, replace=False):
    if depth == 0 or rng.random() < 0.3:
        if rng.random() < spy_p:
            return {"spy": [[k, rq(rng)] for k in rng.sample(POOL, rng.randint(0, 2))]}
        return {"leaf": rng.choice(POOL), "default": rq(rng)}
    nchild = rng.randint(1, 3)
    children = []
    for _ in range(nchild):
        if twins and children and rng.random() < 0.3:
            # the SAME object placed a second time under another renaming
            j = rng.randrange(len(children))
            c = copy.deepcopy(children[j]["node"])
            children.append({"rmap": hygienic_rmap(rng, c) if hygienic else gen_rmap(rng, None), "node": c,
                             "twin_of": children[j].get("twin_of", j)})
            continue
        c = gen_tree(rng, depth - 1, spy_p, hygienic, twins, replace)
        children.append({"rmap": hygienic_rmap(rng, c) if hygienic else gen_rmap(rng, None), "node": c})
    sdef = {}
    for _ in range(rng.choice([0, 0, 1, 2])):
        sdef[rng.choice(POOL)] = rq(rng)
    adds = []
    taken = set()
    for _ in range(rng.choice([0, 0, 0, 1, 1, 2])):
        # define an existing visible parameter in terms of new arguments (possibly none: a constant)
        fid = rng.choice([0, 1, 2, 0, 1, 2, 3])
        arity = FUNCS[fid][0]
        old = rng.choice([p for p in POOL if p not in taken])     # neither an earlier definition's name nor argument
        taken.add(old)
        args = rng.sample([p for p in POOL + [6, 7] if p not in taken], arity)
        taken |= set(args)
        adds.append({"name": old, "fun": fid, "args": [[a, rq(rng)] for a in args]})
        if arity > 0 and rng.random() < 0.3:
            adds[-1]["intro"] = True
    node = {"children": children, "sdef": [[k, v] for k, v in sdef.items()], "adds": adds,
            "set_after": rng.random() < 0.5}
    if replace and rng.random() < 0.3:
        # set_default_params: the whole dictionary is replaced (definition defaults of add_param become reachable)
        node["replaced"] = [[k, rq(rng)] for k in rng.sample(POOL, rng.randint(0, 2))]
    return node


def visible_defaults(node):
    """mirror of what add_structure collects: used only to keep add_param applicable"""
    if "leaf" in node:
        return {node["leaf"]}
    if "spy" in node:
        return {k for k, _ in node["spy"]}
    out = set()
    for ch in node["children"]:
        inv = {o: n for o, n in ch["rmap"]}
        out |= {inv.get(k, k) for k in visible_defaults(ch["node"])}
    out |= {k for k, _ in node["sdef"]}
    for a in node["adds"]:
        if a["name"] in out:
            out.discard(a["name"])
            out |= {x for x, _ in a["args"]}
    if "replaced" in node:
        return {k for k, _ in node["replaced"]}
    return out


def drop_child(node, i):
    """delete child i of a solver node, keeping the twin_of references of the others meaningful"""
    del node["children"][i]
    for ch in node["children"]:
        if "twin_of" in ch:
            if ch["twin_of"] == i:
                del ch["twin_of"]
            elif ch["twin_of"] > i:
                ch["twin_of"] -= 1
    # a twin whose original was deleted becomes the original of its later twins
    for k, ch in enumerate(node["children"]):
        if "twin_of" in ch and "twin_of" in node["children"][ch["twin_of"]]:
            ch["twin_of"] = node["children"][ch["twin_of"]]["twin_of"]


def sanitize(node):
    """add_param pops the old name from default_params: it must be visible there"""
    if "leaf" in node or "spy" in node:
        return
    for ch in node["children"]:
        sanitize(ch["node"])
    saved, node["adds"] = node["adds"], []
    rep = node.pop("replaced", None)
    vis = visible_defaults(node)
    if rep is not None:
        node["replaced"] = rep
    keep = []
    for a in saved:
        if a["name"] in vis:
            keep.append(a)
            vis = (vis - {a["name"]}) | {x for x, _ in a["args"]}
    node["adds"] = keep


def build(node, counter, registry=None, path=()):
    """returns (object to put, list of exposed pin-name pairs [(a,b)] in DFS leaf order);
    registry[path] = (solver, pairs) for every solver of the hierarchy"""
    if "leaf" in node:
        return Probe(pn(node["leaf"]), node["default"]), None
    if "spy" in node:
        return Spy({pn(k): v for k, v in node["spy"]}), None
    kids = []
    for i, ch in enumerate(node["children"]):
        if "twin_of" in ch:
            kids.append(kids[ch["twin_of"]])
            if registry is not None and isinstance(kids[-1][0], lk.Solver):
                for pth in [q for q in list(registry) if q[:len(path) + 1] == path + (ch["twin_of"],)]:
                    registry[path + (i,) + pth[len(path) + 1:]] = registry[pth]
        else:
            kids.append(build(ch["node"], counter, registry, path + (i,)))
    pairs = []
    with lk.Solver() as S:
        for ch, (obj, sub_pairs) in zip(node["children"], kids):
            st = obj.put(param_mapping={pn(o): pn(n) for o, n in ch["rmap"]})
            if sub_pairs is None:
                counter[0] += 1
                a, b = f"a{counter[0]}", f"b{counter[0]}"
                lk.Pin(a).put(st.pin["a0"])
                lk.Pin(b).put(st.pin["b0"])
                pairs.append((a, b))
            else:
                for (a, b) in sub_pairs:
                    counter[0] += 1
                    a2, b2 = f"a{counter[0]}", f"b{counter[0]}"
                    lk.Pin(a2).put(st.pin[a])
                    lk.Pin(b2).put(st.pin[b])
                    pairs.append((a2, b2))
        # in some solvers one placed leaf is declared a MONITOR (it is solved in the monitored group): it receives its
        # parameters like every other component
        placed = list(S.structures)
        if len(placed) >= 2 and (counter[0] + len(placed)) % 3 == 0:
            leaf = [st for st, (obj, sp) in zip(placed, kids) if sp is None]
            if leaf:
                S.monitor_structure(leaf[0], name=f"MON{counter[0]}")
        for k, v in node["sdef"]:
            S.set_param(pn(k), v)
        # Solver.set_param is a METHOD: it must act on its own solver also when that solver is no longer (or not) the
        # innermost active one — half of the hierarchies apply the late defaults after the with-block has been left
        late_ok = "replaced" not in node and (len(node["children"]) + len(node["sdef"])) % 2 == 0
        late = []
        for a in node["adds"]:
            argnames = [pn(x) for x, _ in a["args"]]
            if a.get("intro"):
                # defaults and argument names found by introspection of the function (default=None)
                src = "lambda %s: _f(%s)" % (", ".join(f"{pn(x)}={d!r}" for x, d in a["args"]), ", ".join(argnames))
                lk.add_param(pn(a["name"]), eval(src, {"_f": FUNCS[a["fun"]][1]}))
            else:
                lk.add_param(pn(a["name"]), make_func(a["fun"], argnames),
                             default={pn(x): d for x, d in a["args"]})
            if node.get("set_after") and a["args"]:
                # a solver default given AFTER the definition must be honoured by the function
                x, d = a["args"][0]
                if late_ok:
                    late.append((pn(x), d + 0.75))
                else:
                    S.set_param(pn(x), d + 0.75)
        if "replaced" in node:
            rep = {"wl": None}
            rep.update({pn(k): v for k, v in node["replaced"]})
            lk.set_default_params(rep)
    for name, v in late:
        S.set_param(name, v)
    if registry is not None:
        registry[path] = (S, pairs)
    return S, pairs


def qlit(x: float) -> str:
    fr = Fr(x)
    return f"({zlit(fr.numerator)} # {fr.denominator})%Q"


def dict_lit(pairs):
    return clist(f"({cnat(k)}, {qlit(v)})" for k, v in pairs)


def tree_lit(node):
    if "leaf" in node:
        return f"PLeaf {cnat(node['leaf'])} {qlit(node['default'])}"
    if "spy" in node:
        return f"PSpy {dict_lit(node['spy'])}"
    kids = clist("(%s, %s)" % (clist(f"({cnat(n)}, {cnat(o)})" for o, n in ch["rmap"]), tree_lit(ch["node"]))
                 for ch in node["children"])
    adds, after = [], []
    for a in node["adds"]:
        adds.append("{| ap_name := %s; ap_fun := %s; ap_args := %s |}"
                    % (cnat(a["name"]), cnat(a["fun"]), dict_lit(a["args"])))
        if node.get("set_after") and a["args"]:
            x, d = a["args"][0]
            after.append([x, d + 0.75])
    rep = "None" if "replaced" not in node else "(Some %s)" % dict_lit(node["replaced"])
    return "PSol %s %s %s %s %s" % (kids, dict_lit(node["sdef"]), clist(adds), dict_lit(after), rep)
