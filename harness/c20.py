"""C20 — accuracy and success do not degrade with size or depth.
The exact half is proved (props/C20.v). Here the real code is executed at the stated sizes against
the proven closed forms / theorem-derived oracles; round-off growth and interpreter limits are
runtime facts that are exhibited, not proved."""
from __future__ import annotations

import json
import signal
from fractions import Fraction as Fr

import numpy as np

import netlib
from common import Stream, cf, clist, cmat, cq, cvec, main, rand_dyadic
from netlib import Pin, lk, frac_lit

PHASES = [(Fr(3, 5), Fr(4, 5)), (Fr(4, 5), Fr(3, 5)), (Fr(5, 13), Fr(12, 13)), (Fr(1), Fr(0)),
          (Fr(0), Fr(1)), (Fr(-3, 5), Fr(4, 5)), (Fr(12, 13), Fr(-5, 13)), (Fr(1, 2), Fr(0))]


class Timeout(Exception):
    pass


def with_timeout(sec, f):
    def handler(signum, frame):
        raise Timeout()
    old = signal.signal(signal.SIGALRM, handler)
    signal.alarm(sec)
    try:
        return f()
    finally:
        signal.alarm(0)
        signal.signal(signal.SIGALRM, old)


def cmulf(a, b):
    return (a[0] * b[0] - a[1] * b[1], a[0] * b[1] + a[1] * b[0])


def two_port(t):
    z = complex(float(t[0]), float(t[1]))
    return lk.Model(pin_dic={Pin("a0"): 0, Pin("b0"): 1}, Smatrix=np.array([[0, z], [z, 0]], complex))


def cascade_solver(ts):
    with lk.Solver() as S:
        prev = None
        for k, t in enumerate(ts):
            st = two_port(t).put()
            if prev is None:
                lk.Pin("in").put(st.pin["a0"])
            else:
                lk.connect(prev.pin["b0"], st.pin["a0"])
            prev = st
        lk.Pin("out").put(prev.pin["b0"])
    return S


PSQ = [(0.0, (Fr(1), Fr(0))), (0.5, (Fr(0), Fr(1))), (1.0, (Fr(-1), Fr(0))), (1.5, (Fr(0), Fr(-1)))]


def param_cascade_solver(n):
    """a cascade of phase shifters, each with its OWN parameter name (PS0, PS1, ...): the parameter dictionary grows with
    the circuit (hundreds of names), every leaf sees all of it"""
    with lk.Solver() as S:
        prev = None
        for k in range(n):
            st = lk.PhaseShifter().put(param_mapping={"PS": f"PS{k}"})
            if prev is None:
                lk.Pin("in").put(st.pin["a0"])
            else:
                lk.connect(prev.pin["b0"], st.pin["a0"])
            prev = st
        lk.Pin("out").put(prev.pin["b0"])
    return S


def cascade_ctor(ts):
    """the same cascade given as a netlist: Solver(structures=[...], connections={...}), then the two exposures"""
    from lekkersim.structure import Structure
    sts = [Structure(model=two_port(t)) for t in ts]
    conns = {sts[k].pin["b0"]: sts[k + 1].pin["a0"] for k in range(len(sts) - 1)}
    S = lk.Solver(structures=sts, connections=conns)
    S.map_pins({"in": sts[0].pin["a0"], "out": sts[-1].pin["b0"]})
    return S


def wide_solver(ts, width):
    """two bundles of `width` parallel two-ports joined by `width` links (one join over a wide interface)"""
    n = width
    z = [complex(float(t[0]), float(t[1])) for t in ts]

    def bundle(zs):
        S = np.zeros((2 * n, 2 * n), complex)
        for k in range(n):
            S[k, n + k] = S[n + k, k] = zs[k % len(zs)]
        pins = {Pin(f"a{k}"): k for k in range(n)}
        pins.update({Pin(f"b{k}"): n + k for k in range(n)})
        return lk.Model(pin_dic=pins, Smatrix=S)
    with lk.Solver() as S:
        A = bundle(z[:len(z) // 2]).put()
        B = bundle(z[len(z) // 2:]).put()
        for k in range(n):
            lk.connect(A.pin[f"b{k}"], B.pin[f"a{k}"])
        lk.Pin("in").put(A.pin["a0"])
        lk.Pin("out").put(B.pin["b0"])
    return S


def nest_solver(ts):
    """depth len(ts): level k = [two-port t_k] -- [level k-1]"""
    inner = None
    for k, t in enumerate(ts):
        with lk.Solver() as S:
            st = two_port(t).put()
            lk.Pin("in").put(st.pin["a0"])
            if inner is None:
                lk.Pin("out").put(st.pin["b0"])
            else:
                sub = inner.put()
                lk.connect(st.pin["b0"], sub.pin["in"])
                lk.Pin("out").put(sub.pin["out"])
        inner = S
    return inner


def placed_solver(ts):
    """a long cascade as ONE sub-solver, placed twice in series in a parent (hierarchy with large placed parts)"""
    inner = cascade_solver(ts)
    with lk.Solver() as S:
        a = inner.put()
        b = inner.put()
        lk.connect(a.pin["out"], b.pin["in"])
        lk.Pin("in").put(a.pin["in"])
        lk.Pin("out").put(b.pin["out"])
    return S


class ClosedFormStream(Stream):
    name = "closed_form"
    imports = "Field Matrix Base Kernel Network Solve Corr"
    case_type = "val_case"
    verdict_fn = "val_verdict"
    shard_size = 4

    def generate(self, rng, tier):
        sizes = [("cascade", 200), ("cascade", 1000), ("nest", 16), ("nest", 40), ("placed", 300), ("cascade_ctor", 300),
                 ("placed_flat", 200), ("wide", 2), ("cascade_params", 150)] if tier == "quick" else \
                [("cascade", 500), ("cascade", 2000), ("cascade", 2000), ("nest", 40), ("nest", 60), ("placed", 800),
                 ("cascade_ctor", 1500), ("placed_flat", 600), ("wide", 2), ("wide", 4), ("cascade_params", 70),
                 ("cascade_params", 400)]
        out = []
        for kind, n in sizes:
            idx = [rng.randrange(len(PHASES) - 1) for _ in range(n)]
            for _ in range(min(6, n // 10)):
                idx[rng.randrange(n)] = len(PHASES) - 1     # a few lossy elements
            out.append({"kind": kind, "n": n, "idx": idx})
        return out

    def run(self, d):
        ts = [PHASES[i] for i in d["idx"]] if d["kind"] != "cascade_params" else [PSQ[i % 4][1] for i in d["idx"]]
        prod = (Fr(1), Fr(0))
        for t in ts:
            prod = cmulf(prod, t)
        if d["kind"] in ("placed", "placed_flat"):
            prod = cmulf(prod, prod)
        if d["kind"] == "wide":
            # in -> A(a0 -> b0) -> B(a0 -> b0) -> out: the first element of each half
            prod = cmulf(ts[0], ts[len(ts) // 2])
        expected = [prod, (Fr(0), Fr(0)), prod, (Fr(0), Fr(0))]
        try:
            def go():
                if d["kind"] == "cascade_params":
                    return param_cascade_solver(len(ts)).solve(**{f"PS{k}": PSQ[i % 4][0] for k, i in enumerate(d["idx"])})
                S = (wide_solver(ts, 260) if d["kind"] == "wide" else
                     cascade_solver(ts) if d["kind"] == "cascade" else
                     cascade_ctor(ts) if d["kind"] == "cascade_ctor" else
                     placed_solver(ts) if d["kind"] in ("placed", "placed_flat") else nest_solver(ts))
                if d["kind"] == "placed_flat":
                    S.flatten()           # the large placed parts are dissolved into one flat netlist first
                return S.solve()
            mod = with_timeout(120, go)
            vals = [mod.get_A("out", "in"), mod.get_A("in", "in"), mod.get_A("in", "out"),
                    mod.get_A("out", "out")]
            obs = "Obs " + cvec(vals, cf)
        except Exception:
            obs = "Raised"
        return "{| vc_expected := %s; vc_obs := %s |}" % (clist(frac_lit(z) for z in expected), obs)

    def classify(self, d):
        return f"{d['kind']}{d['n']}"

    def py_repro(self, d):
        return ("import sys; sys.path.insert(0,'/verif/harness'); import c20, json\n"
                f"d=json.loads({json.dumps(d)!r}); ts=[c20.PHASES[i] for i in d['idx']]\n"
                "S=c20.cascade_solver(ts) if d['kind']=='cascade' else c20.nest_solver(ts); m=S.solve(); print(m.get_A('out','in'))\n")


class LossyStream(ClosedFormStream):
    """long lossy chains / deep lossy hierarchies: the transmitted amplitude is tiny (down to 1e-40) and must still
    be right to a RELATIVE 1e-9 (decided in Coq on the exact product)"""
    name = "lossy_relative"
    verdict_fn = "relval_verdict"

    def generate(self, rng, tier):
        sizes = [("cascade", 300), ("cascade", 1500), ("nest", 30), ("nest", 40)] if tier == "quick" else \
                [("cascade", 600), ("cascade", 2000), ("cascade", 2000), ("nest", 40), ("nest", 60)]
        out = []
        for kind, n in sizes:
            out.append({"kind": kind, "n": n, "idx": [rng.randrange(len(PHASES)) for _ in range(n)],
                        "att": [rng.choice([[1, 1], [63, 64], [61, 64], [1, 2]]) if kind == "cascade"
                                else rng.choice([[1, 2], [3, 8], [1, 4]]) for _ in range(n)]})
        return out

    def run(self, d):
        ts = [(PHASES[i][0] * Fr(*a), PHASES[i][1] * Fr(*a)) for i, a in zip(d["idx"], d["att"])]
        prod = (Fr(1), Fr(0))
        for t in ts:
            prod = cmulf(prod, t)
        expected = [prod, (Fr(0), Fr(0)), prod, (Fr(0), Fr(0))]
        try:
            def go():
                S = cascade_solver(ts) if d["kind"] == "cascade" else nest_solver(ts)
                return S.solve()
            mod = with_timeout(120, go)
            vals = [mod.get_A("out", "in"), mod.get_A("in", "in"), mod.get_A("in", "out"),
                    mod.get_A("out", "out")]
            obs = "Obs " + cvec(vals, cf)
        except Exception:
            obs = "Raised"
        return "{| vc_expected := %s; vc_obs := %s |}" % (clist(frac_lit(z) for z in expected), obs)

    def classify(self, d):
        return f"lossy_{d['kind']}{d['n']}"

    def py_repro(self, d):
        return ("import sys; sys.path.insert(0,'/verif/harness'); import c20, json\n"
                f"d=json.loads({json.dumps(d)!r})\n"
                "from fractions import Fraction as Fr\n"
                "ts=[(c20.PHASES[i][0]*Fr(*a), c20.PHASES[i][1]*Fr(*a)) for i,a in zip(d['idx'],d['att'])]\n"
                "S=c20.cascade_solver(ts) if d['kind']=='cascade' else c20.nest_solver(ts); m=S.solve(); print(m.get_A('out','in'))\n")


def coupler(rng):
    """4-port, reflection-free, exactly unitary and symmetric: [[0,U],[U^T,0]] with U 2x2 unitary"""
    U = netlib.cayley_unitary(rng, 2)
    Z = (Fr(0), Fr(0))
    S = [[Z, Z, U[0][0], U[0][1]], [Z, Z, U[1][0], U[1][1]],
         [U[0][0], U[1][0], Z, Z], [U[0][1], U[1][1], Z, Z]]
    return np.array([[complex(float(z[0]), float(z[1])) for z in row] for row in S], complex)


def mesh_solver(rng, N, layers, record=None):
    """rectangular mesh on N modes: layer l couples modes (k, k+1) for k = l%2, l%2+2, ..."""
    import random
    with lk.Solver() as S:
        tail = [None] * N           # last structure pin on every mode
        ncoup = 0
        for l in range(layers):
            for k in range(l % 2, N - 1, 2):
                C = coupler(rng)
                if record is not None:
                    record.append((k, C))
                m = lk.Model(pin_dic={Pin("a0"): 0, Pin("a1"): 1, Pin("b0"): 2, Pin("b1"): 3}, Smatrix=C)
                st = m.put()
                ncoup += 1
                for off, (pa, pb) in enumerate((("a0", "b0"), ("a1", "b1"))):
                    if tail[k + off] is None:
                        lk.Pin(f"in{k + off}").put(st.pin[pa])
                    else:
                        lk.connect(tail[k + off], st.pin[pa])
                    tail[k + off] = st.pin[pb]
        for k in range(N):
            if tail[k] is not None:
                lk.Pin(f"out{k}").put(tail[k])
    return S, ncoup


class OracleStream(Stream):
    """meshes of couplers (unitary, reciprocal) and long lossy reflective chains (passive)"""
    name = "oracle"
    imports = "Field Matrix Base Kernel Network Solve Corr"
    case_type = "prop_case"
    verdict_fn = "prop_verdict"
    shard_size = 2

    def generate(self, rng, tier):
        if tier == "quick":
            return [{"kind": "mesh", "N": 8, "layers": 25, "seed": rng.randint(0, 10 ** 9)},
                    {"kind": "chain", "n": 200, "seed": rng.randint(0, 10 ** 9)}]
        return [{"kind": "mesh", "N": 8, "layers": 60, "seed": rng.randint(0, 10 ** 9)},
                {"kind": "mesh", "N": 10, "layers": 90, "seed": rng.randint(0, 10 ** 9)},
                {"kind": "chain", "n": 500, "seed": rng.randint(0, 10 ** 9)}]

    def run(self, d):
        import random
        rng = random.Random(d["seed"])
        us = []
        try:
            if d["kind"] == "mesh":
                def go():
                    S, nc = mesh_solver(rng, d["N"], d["layers"])
                    d["_ncoup"] = nc
                    return S.solve()
                mod = with_timeout(400, go)
                names = sorted(p.name for p in mod.pin_dic)
                kinds = ["ELossless", "EReciprocal"]
            else:
                nd = {"comps": [], "conns": [], "expo": [[0, 0, "in"], [d["n"] - 1, 1, "out"]], "style": "with"}
                for k in range(d["n"]):
                    nd["comps"].append({"n": 2, "S": netlib.m2j(netlib.rand_matrix(rng, 2, 2, 1)),
                                        "perm": [0, 1]})
                    if k:
                        nd["conns"].append([[k - 1, 1], [k, 0]])
                def go():
                    sol, sts = netlib.build(nd)
                    return sol.solve()
                mod = with_timeout(400, go)
                names = ["in", "out"]
                kinds = ["EPassive"]
                us = [[rand_dyadic(rng, 16, 8) for _ in range(2)] for _ in range(4)]
            M = netlib.observe_expo(mod, names)
            obs = netlib.obs_matrix_lit(M)
        except Exception:
            obs, kinds = "Raised", []
        return "{| pc_kinds := %s; pc_us := %s; pc_obs := %s |}" % (
            clist(kinds), clist(cvec(u) for u in us), obs)

    def classify(self, d):
        return d["kind"] + str(d.get("n", d.get("layers")))


class MeshReference(Stream):
    """coupler meshes against the reference solution: the product of the layers' transfer matrices (numpy, harness
    oracle); every in -> out coefficient is compared (a mesh that is merely unitary but wired wrongly is caught)"""
    name = "mesh_reference"
    imports = "Field Matrix Base Kernel Network Solve Corr"
    case_type = "val_case"
    verdict_fn = "val_verdict"
    shard_size = 2

    def generate(self, rng, tier):
        sizes = [(5, 6), (6, 12), (8, 20)] if tier == "quick" else [(5, 8), (8, 40), (10, 60), (12, 30)]
        return [{"N": n, "layers": l, "seed": rng.randint(0, 10 ** 9)} for n, l in sizes]

    def run(self, d):
        import random
        rng = random.Random(d["seed"])
        N = d["N"]
        rec = []
        try:
            def go():
                S, nc = mesh_solver(rng, N, d["layers"], rec)
                return S.solve()
            mod = with_timeout(400, go)
            T = np.eye(N, dtype=complex)
            for k, C in rec:
                B = C[2:4, 0:2]                       # amplitudes at (b0, b1) per unit input at (a0, a1)
                T[k:k + 2, :] = B @ T[k:k + 2, :]
            expected = [T[i, j] for i in range(N) for j in range(N)]
            vals = [mod.get_A(f"out{i}", f"in{j}") for i in range(N) for j in range(N)]
            obs = "Obs " + cvec(vals, cf)
        except Exception:
            expected, obs = [], "Raised"
        return "{| vc_expected := %s; vc_obs := %s |}" % (cvec(expected, cf), obs)

    def classify(self, d):
        return "mesh%dx%d" % (d["N"], d["layers"])

    def py_repro(self, d):
        return ("import sys; sys.path.insert(0,'/verif/harness'); import c20\n"
                f"d={d!r}\nprint(c20.MeshReference().run(d)[:400])\n")


class ChainModelStream(Stream):
    """lossy reflective chain of 30 cells against the exact model"""
    name = "chain_model"
    imports = "Field Matrix Base Kernel Network Solve Corr"
    case_type = "net_case"
    verdict_fn = "net_verdict"
    shard_size = 1

    def generate(self, rng, tier):
        out = []
        for n in ([12, 20] if tier == "quick" else [30, 30, 40]):
            nd = {"comps": [], "conns": [], "expo": [[0, 0, "in"], [n - 1, 1, "out"]], "style": "with",
                  "perm_seed": 1, "kind": "random"}
            for k in range(n):
                nd["comps"].append({"n": 2, "S": netlib.m2j(netlib.rand_matrix(rng, 2, 2, 1)), "perm": [0, 1]})
                if k:
                    nd["conns"].append([[k - 1, 1], [k, 0]])
            out.append(nd)
        return out

    def run(self, d):
        try:
            sol, sts = netlib.build(d)
            mod = sol.solve()
            obs = netlib.obs_matrix_lit(netlib.observe_expo(mod, ["in", "out"]))
        except Exception:
            obs = "Raised"
        return netlib.net_case_lit(d, obs)

    def classify(self, d):
        return "chain%d" % len(d["comps"])


TRUSTED = [
    "Coq 8.16.1 kernel + vm_compute (no native_compute)",
    "Bignums/Uint63 primitives for the executed instance BQCf",
    "harness: circuit builders, exact closed forms computed with fractions.Fraction, emitter, parser",
]

if __name__ == "__main__":
    main("C20", [ClosedFormStream(), LossyStream(), OracleStream(), MeshReference(), ChainModelStream()],
         level_text="props/C20.v proves the exact-arithmetic half for ALL sizes: n-1 merges, cascade closed form for any "
                    "length and schedule, nesting of any depth equals the flat circuit, passivity/isometry of the result. "
                    "The runtime half (round-off growth through thousands of LAPACK inversions, interpreter recursion and "
                    "time) is not a theorem: it is exhibited by running /repo at the stated sizes (cascades to 2000, nesting "
                    "to 60, meshes to 400 couplers, lossy chains to 500) against the proven closed forms and the "
                    "theorem-derived oracles (T^H T = I, T = T^T, passivity), each run under a time limit.",
         trusted_base=TRUSTED,
         assumptions=["PARTIAL: floating-point error growth and resource limits are observed at the sizes run, not proved",
                      "tolerance 1e-9 absolute on coefficients of modulus <= 1"],
         extra={"partial": True})
