"""Translator: how a solved circuit is handed over as a model (structure.py, model.py) -> Gallina over Hier.v (C02).

    Structure.get_model      the pin table of the SolvedModel: exposed name -> index of the mapped pin in the merged structure
                             (the matrix is handed over unchanged)
    Model.__init__           N = size of the matrix whenever a matrix is given (a solver with unexposed pins has more rows
                             than names)
    Structure.createS        (solver branch) a placement of a sub-solver takes the solved model's pin table, keyed by
                             (placement, pin), and its matrix

These three statements ARE the hierarchy step of C02: what a parent sees of a sub-solver.  The current source is read with
`ast`; coq/templates/HandoverSrcProof.v proves that the entry the solved model reads between two exposed names is the
entry `Hier.restrict T ex` defines (T = merged structure with the position table `join` builds, ex = mapped pins), that N
is the matrix size, and that a fresh placement's table is the solved model's.  Fail-closed.
"""
from __future__ import annotations

import ast
import hashlib
import os
import warnings

from translate_params import Unsupported, U, find_fn, strip_doc

HEADER = r"""From Coq Require Import List Arith Lia Bool.
From Lekkersim Require Import Field Matrix Base Kernel Network Solve Wiring Hier.
Import ListNotations.

Section HandoverSrc.
Variable K : cfield.
"""


def tr_get_model(fn):
    a = [x.arg for x in fn.args.args]
    if a != ["self", "pin_mapping", "name"]:
        raise Unsupported(f"Structure.get_model arguments {a}")
    body = strip_doc(fn.body)
    t = [ast.unparse(x) for x in body]
    want_last = ["pin_dic = {name: self.pin_dic[pin] for name, pin in pin_mapping.items()}",
                 "MOD = mod.SolvedModel(pin_dic=pin_dic, param_dic=self.param_dic, Smatrix=self.Smatrix, name=name)",
                 "return MOD"]
    got = [x.replace("for (name, pin) in", "for name, pin in") for x in t[-3:]]
    if got != want_last:
        raise Unsupported("Structure.get_model: the pin table / the hand-over of the matrix changed: " + " ; ".join(got)[:300])
    # what precedes may only allocate the (unused) buffer and default the mapping
    allowed = ["Smod = np.zeros((self.ns, self.N, self.N), complex)",
               "if pin_mapping is None:\n    pin_mapping = self.solver.pin_mapping"]
    for x in t[:-3]:
        if x not in allowed:
            raise Unsupported("Structure.get_model: unexpected statement: " + x[:200])
    return ("Definition get_model_src (pin_dic : list (spin * nat)) (pin_mapping : list (nat * spin)) : list (nat * option nat) :=\n"
            "  map (fun np => (fst np, dget spin_eqb (snd np) pin_dic)) pin_mapping.\n")


def tr_model_init(fn):
    t = [ast.unparse(x) for x in strip_doc(fn.body)]
    want = ["self.pin_dic = {} if pin_dic is None else pin_dic",
            "self.N = len(self.pin_dic)",
            "if Smatrix is not None:\n    if self.N != np.shape(Smatrix)[-1]:\n        self.N = np.shape(Smatrix)[-1]",
            "self.S = np.identity(self.N, complex) if Smatrix is None else Smatrix"]
    if t[:4] != want:
        raise Unsupported("Model.__init__: pin table / size / matrix changed: " + " ; ".join(t[:4])[:300])
    for x in t[4:]:
        if any(k in x for k in ("self.pin_dic", "self.N ", "self.N=", "self.S ")) and x != "self.update_pins()":
            raise Unsupported("Model.__init__ touches the pin table, the size or the matrix again: " + x[:200])
    return ("Definition model_N_src (npins : nat) (msize : option nat) : nat :=\n"
            "  match msize with Some n => if negb (Nat.eqb npins n) then n else npins | None => npins end.\n")


def tr_createS(fn):
    body = strip_doc(fn.body)
    t = [ast.unparse(x) for x in body]
    want_solver = ("if self.solver is not None:\n    model = self.solver.solve(**self.param_dic)\n"
                   "    for pin, i in model.pin_dic.items():\n        self.pin_dic[self, pin] = i\n"
                   "    self.Smatrix = model.create_S()")
    got = [x.replace("for (pin, i) in", "for pin, i in").replace("self.pin_dic[(self, pin)]", "self.pin_dic[self, pin]") for x in t]
    if want_solver not in got:
        raise Unsupported("Structure.createS: the sub-solver branch changed: " + " ; ".join(got)[:400])
    rest = [x for x in got if x != want_solver]
    want_rest = ["if self.model is not None:\n    self.Smatrix = self.model.solve(**self.param_dic).create_S()",
                 "self.N = np.shape(self.Smatrix)[-1]", "self.ns = np.shape(self.Smatrix)[0]", "return self.Smatrix"]
    if rest != want_rest:
        raise Unsupported("Structure.createS changed: " + " ; ".join(rest)[:400])
    return ("Definition createS_pins_src (me : nat) (old : list (spin * nat)) (model_pin_dic : list (nat * nat)) : list (spin * nat) :=\n"
            "  fold_left (fun d pi => dset spin_eqb (me, fst pi) (snd pi) d) model_pin_dic old.\n")


def translate(repo: str) -> str:
    srcs = {}
    for f in ("structure.py", "model.py"):
        with open(os.path.join(repo, "lekkersim", f)) as fh:
            srcs[f] = fh.read()
    with warnings.catch_warnings():
        warnings.simplefilter("ignore", SyntaxWarning)
        trees = {f: ast.parse(s) for f, s in srcs.items()}
    h = hashlib.sha256((srcs["structure.py"] + srcs["model.py"]).encode()).hexdigest()
    out = [f"(* GENERATED by harness/translate_handover.py from {repo}/lekkersim/{{structure,model}}.py",
           f"   sha256 {h} — do not edit *)", HEADER]
    out.append(tr_get_model(find_fn(trees["structure.py"], "Structure", "get_model")))
    out.append(tr_model_init(find_fn(trees["model.py"], "Model", "__init__")))
    out.append(tr_createS(find_fn(trees["structure.py"], "Structure", "createS")))
    return "\n".join(out) + "\n"


if __name__ == "__main__":
    import sys
    print(translate(sys.argv[1] if len(sys.argv) > 1 else "/repo"))
