"""Translator: pin names and the name tables built from them (C16) -> Gallina.

    Pin.name            (pin.py)     the printable name of a pin
    Pin equality        (pin.py)     `@dataclass(frozen=True)` over (basename, mode_name), no hand-written __eq__/__hash__
    Model.update_pins   (model.py)   the table name -> pin, refused when two pins print alike
    Model.pin_mapping   (model.py)   simultaneous renaming of pins, refused when two pins end up the same

The current source is read with `ast`.  `name` is an if/return over an f-string; `update_pins` a loop with a
membership test, an insertion and a raise; `pin_mapping` a dictionary comprehension `{ren.get(pin, pin): n ...}`
followed by a length test.  They are emitted as Gallina over Names.v's `pin` record (strings are Coq strings) and
coq/templates/NamesSrcProof.v proves: the printable name is Names.pin_name; update_pins_src is Names.update_pins
(same table, same rejections); pin_mapping_src accepts exactly when Names.update_pins (Names.rename_pins ren pins)
does, with the same table.  Fail-closed: anything else raises `Unsupported`.
Trusted about Python: a frozen dataclass compares and hashes field-wise; dict keeps the first position of a key and
the last value; `d.get(k, dflt)`; f-strings concatenate.
"""
from __future__ import annotations

import ast
import hashlib
import os

from translate_params import Unsupported, U, find_fn, strip_doc


def tr_pin_class(tree):
    cls = [n for n in tree.body if isinstance(n, ast.ClassDef) and n.name == "Pin"]
    if len(cls) != 1:
        raise Unsupported("class Pin not found")
    c = cls[0]
    decos = [ast.unparse(d) for d in c.decorator_list]
    if decos != ["dataclass(frozen=True)"]:
        raise U(c, f"Pin must be a frozen dataclass (field-wise equality and hash), got decorators {decos}")
    fields = [(n.target.id, ast.unparse(n.annotation), ast.unparse(n.value) if n.value else None)
              for n in c.body if isinstance(n, ast.AnnAssign)]
    if fields != [("basename", "str", None), ("mode_name", "Optional[str]", "None")]:
        raise U(c, f"Pin fields changed: {fields}")
    for f in c.body:
        if isinstance(f, ast.FunctionDef) and f.name in ("__eq__", "__hash__", "__ne__", "__lt__", "__getattribute__",
                                                          "__getattr__", "__setattr__", "__init__", "__post_init__"):
            raise U(f, f"Pin defines {f.name}: equality / hashing of pins is no longer field-wise")
    name = [f for f in c.body if isinstance(f, ast.FunctionDef) and f.name == "name"]
    if len(name) != 1 or [ast.unparse(d) for d in name[0].decorator_list] != ["property"]:
        raise U(c, "Pin.name must be a property")
    body = strip_doc(name[0].body)
    # if self.<f> is None: return <expr> ; return <expr>
    if not (len(body) == 2 and isinstance(body[0], ast.If) and not body[0].orelse and len(body[0].body) == 1
            and isinstance(body[0].body[0], ast.Return) and isinstance(body[1], ast.Return)
            and ast.unparse(body[0].test) == "self.mode_name is None"):
        raise U(name[0], "Pin.name: expected `if self.mode_name is None: return ...; return ...`")

    def sexpr(node, some):
        """string expression over self.basename / self.mode_name (mode_name known to be Some m in the 2nd branch)"""
        if isinstance(node, ast.Attribute) and ast.unparse(node) == "self.basename":
            return "(basename p)"
        if isinstance(node, ast.Attribute) and ast.unparse(node) == "self.mode_name":
            if not some:
                raise U(node, "mode_name used where it is None")
            return "m"
        if isinstance(node, ast.Constant) and isinstance(node.value, str):
            return '"%s"' % node.value.replace('"', '""')
        if isinstance(node, ast.JoinedStr):
            parts = []
            for v in node.values:
                if isinstance(v, ast.FormattedValue):
                    if v.conversion != -1 or v.format_spec is not None:
                        raise U(v, "formatted value with conversion")
                    parts.append(sexpr(v.value, some))
                else:
                    parts.append(sexpr(v, some))
            out = parts[-1]
            for x in reversed(parts[:-1]):
                out = f"(String.append {x} {out})"
            return out
        raise U(node, "unsupported string expression")
    none_e = sexpr(body[0].body[0].value, False)
    some_e = sexpr(body[1].value, True)
    return ("Definition pin_name_src (p : pin) : string :=\n"
            f"  match mode_name p with None => {none_e} | Some m => {some_e} end.\n")


def tr_update_pins(fn):
    body = strip_doc(fn.body)
    t = [ast.unparse(x) for x in body]
    if not (len(body) == 4 and t[0] == "pins = {}" and isinstance(body[1], ast.For)
            and t[2] == "self.pin = pins" and t[3] == "return self.pin"):
        raise U(fn, "update_pins: expected `pins = {}; for ...; self.pin = pins; return self.pin`")
    loop = body[1]
    if ast.unparse(loop.iter) != "self.pin_dic" or ast.unparse(loop.target) != "pin" or loop.orelse or len(loop.body) != 1:
        raise U(loop, "update_pins: loop over self.pin_dic")
    st = loop.body[0]
    if not (isinstance(st, ast.If) and len(st.body) == 1 and len(st.orelse) == 1):
        raise U(st, "update_pins: if/else")
    test = ast.unparse(st.test)
    ins, other = st.body[0], st.orelse[0]
    if test == "pin.name in pins":
        ins, other = other, ins
    elif test != "pin.name not in pins":
        raise U(st, "update_pins: membership test on the printable name")
    if ast.unparse(ins) != "pins[pin.name] = pin" or not isinstance(other, ast.Raise):
        raise U(st, "update_pins: insert under the printable name, else raise")
    return ("Definition update_pins_src (pins : list pin) : result (list (string * pin)) :=\n"
            "  let '(tab, err) := fold_left (fun '(tab, err) p =>\n"
            "        if negb (existsb (fun e => String.eqb (fst e) (pin_name_src p)) tab)\n"
            "        then (tab ++ [(pin_name_src p, p)], err) else (tab, true)) pins ([], false) in\n"
            "  if err then Err ENameClash else Ok tab.\n")


def tr_pin_mapping(fn):
    a = [x.arg for x in fn.args.args]
    if a != ["self", "pin_mapping"]:
        raise Unsupported(f"pin_mapping arguments {a}")
    t = [ast.unparse(x) for x in strip_doc(fn.body)]
    want = ["new_dic = {pin_mapping.get(pin, pin): n for pin, n in self.pin_dic.items()}",
            "if len(new_dic) != len(self.pin_dic):\n    raise ValueError(f'In Model {self}: renaming maps two pins to the same pin')",
            "self.pin_dic.clear()", "self.pin_dic.update(new_dic)", "self.update_pins()", "return self"]
    if len(t) != 6 or t[0] != want[0] or not t[1].startswith("if len(new_dic) != len(self.pin_dic):\n    raise ") \
            or t[2:] != want[2:]:
        raise Unsupported("Model.pin_mapping: " + " ; ".join(t)[:300])
    # new_dic: keys in first-occurrence order (a Python dict built by a comprehension)
    return ("Definition dget (ren : list (pin * pin)) (p : pin) : pin :=\n"
            "  match find (fun e => pin_eqb (fst e) p) ren with Some e => snd e | None => p end.\n"
            "Definition dedup_keys (l : list pin) : list pin :=\n"
            "  fold_left (fun acc p => if existsb (pin_eqb p) acc then acc else acc ++ [p]) l [].\n"
            "Definition pin_mapping_src (ren : list (pin * pin)) (pins : list pin) : result (list (string * pin)) :=\n"
            "  let new_keys := dedup_keys (map (dget ren) pins) in\n"
            "  if negb (Nat.eqb (List.length new_keys) (List.length pins)) then Err ENameClash\n"
            "  else update_pins_src new_keys.\n")


def translate(repo: str) -> str:
    srcs = {}
    for f in ("pin.py", "model.py"):
        with open(os.path.join(repo, "lekkersim", f)) as fh:
            srcs[f] = fh.read()
    h = hashlib.sha256((srcs["pin.py"] + srcs["model.py"]).encode()).hexdigest()
    out = [f"(* GENERATED by harness/translate_names.py from {repo}/lekkersim/{{pin,model}}.py",
           f"   sha256 {h} — do not edit *)",
           "From Coq Require Import List String Bool Arith Lia.",
           "From Lekkersim Require Import Base Names.",
           "Import ListNotations.",
           "Open Scope string_scope.", "Open Scope list_scope.", ""]
    out.append(tr_pin_class(ast.parse(srcs["pin.py"])))
    mt = ast.parse(srcs["model.py"])
    out.append(tr_update_pins(find_fn(mt, "Model", "update_pins")))
    out.append(tr_pin_mapping(find_fn(mt, "Model", "pin_mapping")))
    return "\n".join(out) + "\n"


if __name__ == "__main__":
    import sys
    print(translate(sys.argv[1] if len(sys.argv) > 1 else "/repo"))
