"""C02 — hierarchy is transparent: nested solvers equal the flat circuit."""
from __future__ import annotations

import copy
import json

import numpy as np

import hierlib
import netlib
from common import Stream, main


def solve_top(desc, edit=None):
    built = hierlib.build_all(desc)
    top = built[desc["top"]][0]
    if edit is not None:
        top.solve()                       # an earlier solve of the parent (results discarded)
        hierlib.apply_edit_py(desc, built, edit)
    return top.solve()


class HierStream(Stream):
    name = "hier"
    imports = "Field Matrix Base Kernel Network Solve Hier Corr"
    case_type = "hier_case"
    verdict_fn = "hier_both_verdict"
    shard_size = 20

    def generate(self, rng, tier):
        n = 160 if tier == "quick" else 2500
        out = []
        while len(out) < n:
            nd = rng.choice([2, 2, 3, 3, 4]) if tier == "quick" else rng.choice([2, 3, 4, 5, 6])
            d = hierlib.gen_hier(rng, ndefs=nd)
            if not d["defs"][d["top"]]["expo"]:
                continue
            if rng.random() < 0.3:
                # edit a (possibly shared) sub-solver between two solves of the parent
                cand = [(j, e) for j, df in enumerate(d["defs"]) for e in range(len(df["expo"]))]
                j, e = rng.choice(cand)
                comp = hierlib.gen_comp(rng, 2)
                while comp["n"] != 2:
                    comp = hierlib.gen_comp(rng, 2)
                d["edit"] = {"def": j, "expo": e, "comp": comp}
                if rng.random() < 0.35:
                    # instead: a placed sub-solver exposes one more of its free pins afterwards
                    cands = []
                    for jj, df in enumerate(d["defs"]):
                        if jj == d["top"] or df.get("auto"):
                            continue
                        used = {tuple(x) for c in df["conns"] for x in c} | {(x[0], x[1]) for x in df["expo"]}
                        for c, ch in enumerate(df["children"]):
                            for q in range(hierlib.nports(d, ch)):
                                if (c, q) not in used:
                                    cands.append((jj, [c, q]))
                    placed = {ch["sub"] for df in d["defs"] for ch in df["children"] if "sub" in ch}
                    cands = [x for x in cands if x[0] in placed]
                    if cands:
                        jj, port = rng.choice(cands)
                        d["edit"] = {"kind": "expose_more", "def": jj, "port": port}
            out.append(d)
        return out

    def run(self, d):
        model_desc = hierlib.apply_edit_desc(d, d["edit"]) if d.get("edit") else d
        term, ex, nl = hierlib.instantiate(model_desc)
        names = [x[2] for x in d["defs"][d["top"]]["expo"]]
        try:
            mod = solve_top(d, d.get("edit"))
            got = sorted(p.name for p in mod.pin_dic)
            if got != sorted(names):
                raise ValueError("exposed pin set differs")
            obs = netlib.obs_matrix_lit(netlib.observe_expo(mod, names))
        except Exception:
            obs = "Raised"
        return "{| hc_circ := %s; hc_obs := %s |}" % (term, obs)

    def nontrivial(self, d):
        return hierlib.depth(d) >= 2 and any(df["conns"] for df in d["defs"])

    def classify(self, d):
        return "depth%d/reuse%d%s" % (hierlib.depth(d), hierlib.reuse_count(d), "/edit" if d.get("edit") else "")

    def shrink(self, d):
        out = []
        if d.get("edit"):
            e = copy.deepcopy(d)
            del e["edit"]
            out.append(e)
        for k, df in enumerate(d["defs"]):
            for i in range(len(df["conns"])):
                e = copy.deepcopy(d)
                del e["defs"][k]["conns"][i]
                out.append(e)
        return out

    def py_repro(self, d):
        return ("import sys; sys.path.insert(0,'/verif/harness'); import c02, netlib, json\n"
                f"d=json.loads({json.dumps(d)!r})\n"
                "m=c02.solve_top(d,d.get('edit')); print(netlib.observe_expo(m,[x[2] for x in d['defs'][d['top']]['expo']]))\n")


def expose_more_candidates(d):
    cands = []
    for jj, df in enumerate(d["defs"]):
        if jj == d["top"] or df.get("auto"):
            continue
        used = {tuple(x) for c in df["conns"] for x in c} | {(x[0], x[1]) for x in df["expo"]}
        for c, ch in enumerate(df["children"]):
            for q in range(hierlib.nports(d, ch)):
                if (c, q) not in used:
                    cands.append((jj, [c, q]))
    placed = {ch["sub"] for df in d["defs"] for ch in df["children"] if "sub" in ch}
    return [x for x in cands if x[0] in placed]


class LateExpose(HierStream):
    """a sub-solver that is already placed (and solved once inside its parent) exposes one more of its free pins;
    the parent, which does not own that pin, must answer as before"""
    name = "late_expose"

    def generate(self, rng, tier):
        out = []
        while len(out) < (60 if tier == "quick" else 800):
            d = hierlib.gen_hier(rng, ndefs=rng.choice([2, 2, 3]), max_children=3, max_pins=3, leaf_p=0.4)
            if not d["defs"][d["top"]]["expo"] or not d["defs"][d["top"]]["conns"]:
                continue
            cands = expose_more_candidates(d)
            if not cands:
                continue
            jj, port = rng.choice(cands)
            d["edit"] = {"kind": "expose_more", "def": jj, "port": port}
            out.append(d)
        return out


class BareStream(Stream):
    """a bare component solved directly vs wrapped in a solver with all pins raised"""
    name = "bare"
    imports = "Field Matrix Base Kernel Network Solve Hier Corr"
    case_type = "hier_case"
    verdict_fn = "hier_both_verdict"
    shard_size = 40

    def generate(self, rng, tier):
        return [{"comp": hierlib.gen_comp(rng, 4), "wrapped": bool(i % 2)}
                for i in range(40 if tier == "quick" else 400)]

    def run(self, d):
        comp = d["comp"]
        n = comp["n"]
        mat = netlib.cmat(netlib.j2m(comp["S"]).reshape(n, n), netlib.cq)
        ex = netlib.clist(netlib.spin(0, k) for k in range(n))
        term = f"HSub [HLeaf 0%nat {n}%nat {mat}] [] {ex}"
        try:
            m = netlib.comp_model(comp)
            if d["wrapped"]:
                with netlib.lk.Solver() as S:
                    m.put()
                    netlib.lk.raise_pins()
                mod = S.solve()
            else:
                mod = m.solve()
            obs = netlib.obs_matrix_lit(netlib.observe_expo(mod, [f"p{k}" for k in range(n)]))
        except Exception:
            obs = "Raised"
        return "{| hc_circ := %s; hc_obs := %s |}" % (term, obs)

    def classify(self, d):
        return "wrapped" if d["wrapped"] else "bare"


TRUSTED = [
    "Coq 8.16.1 kernel + vm_compute (no native_compute)",
    "Bignums/Uint63 primitives for the executed instance BQCf",
    "hand-written model Hier.v tied to /repo by this correspondence run (sampled)",
    "harness: hierarchy generator (DAG of definitions, re-use), instantiation to leaf pins, emitter, parser",
]

if __name__ == "__main__":
    import translate_handover
    from common import source_obligation
    import c05

    class TwinPlacements(c05.SharedStream):
        """ONE parameterised sub-solver placed twice in a parent under different renamings, the placements often wired to each
        other (the stream of C05, twin cases only): the nested circuit must report what the flat circuit of its parts reports
        for the parameter values each placement receives — the model evaluates the tree leaf by leaf"""
        name = "twin_placements"

        def generate(self, rng, tier):
            out = [d for d in super().generate(rng, tier) if '"twin_of"' in json.dumps(d["tree"])]
            return out[:80 if tier == "quick" else 1000]

    main("C02", [HierStream(), LateExpose(), BareStream(), TwinPlacements()],
         source_obligations=[
             source_obligation("HandoverSrc_C02", translate_handover.translate, "HandoverSrcProof.v",
                               ["get_model_src_is_restrict", "model_N_src_is_matrix_size", "createS_pins_src_fresh"])],
         level_text="props/C02.v; the correspondence builds nested Solvers in /repo (sub-solvers re-used, partial exposure at "
                    "every level, optional edit of a shared sub-solver between two parent solves) and lets Coq compare the "
                    "observed top-level matrix with BOTH the nested model (solve_hier) and the flat single-level circuit "
                    "(solve of inline), so that nested = flat is checked on every case. A fourth stream places one PARAMETERISED "
                    "sub-solver twice under different renamings (the twin cases of C05's stream) and requires the value the "
                    "model computes leaf by leaf.",
         trusted_base=TRUSTED,
         assumptions=["theorems conditional on the model returning Ok", "round-off abstracted by tolerance 1e-9"])
