"""Translator: the read-out helpers of Model / SolvedModel (model.py) -> Gallina over Readout.v (C15).

    Model.get_A / get_T / get_PH          one entry of the matrix (its squared modulus, its angle)
    Model.get_output                      excitation vector from a {pin: amplitude} dictionary, S.u, one value per pin
    SolvedModel.get_full_output           the same for every sweep point: one column per pin, one row per point
    SolvedModel.get_data                  the columns T / dB / Phase / Amplitude of one entry over the sweep
    the parameter-column block            shared by get_data / get_full_output / get_full_data: every solved parameter
                                          becomes a column of ns rows (length-1 values repeated)

The CURRENT source is read with `ast` and executed symbolically statement by statement: Python variables are bound to
Gallina terms of a few kinds (pin dictionary, pin list, vector, list of vectors), loops over a list / a dictionary
become `fold_left` / `map`.  Which index selects the row and which the column, which operand of the product is the
matrix, what a missing pin is filled with, which branch `power` selects — all of that is in the emitted term, and
coq/templates/ReadoutSrcProof.v proves the terms equal to Readout.v's `get_A`, `get_T`, `get_output`,
`get_output_power`, `data_table` (entrywise `==` where a matrix-vector product is involved) for every model, every
excitation naming distinct pins of the model, every sweep length.  Fail-closed (`Unsupported`) on anything else.
"""
from __future__ import annotations

import ast
import hashlib
import os

from translate_params import Unsupported, U, find_fn, strip_doc, no_override

HEADER = r"""From Coq Require Import List Arith Bool Lia Setoid Morphisms.
From Lekkersim Require Import Field Matrix Base Network Wiring Readout.
Import ListNotations.

Section ReadoutSrc.
Variable K : cfield.
Hypothesis KL : cfield_laws K.
Notation "0" := (f0 K).
Infix "*" := (fmul K).
Infix "==" := (feq K) (at level 70).

Definition sqmod (z : K) : K := z * fconj K z.                       (* np.abs(z) ** 2.0 *)
Definition vupd (v : vec K) (i : nat) (x : K) : vec K := fun j => if Nat.eqb j i then x else v j.   (* u[i] = x *)
Definition dgetd (d : list (spin * K)) (p : spin) : K :=
  match dget spin_eqb p d with Some x => x | None => 0 end.
Definition pt (pins : list spin) (idx : spin -> nat) (n : nat) (S : mx K) : smodel K :=
  {| sm_pins := pins; sm_idx := idx; sm_n := n; sm_S := S |}.
"""

ZEROS = ("0.0 + 0j", "0.0 + 0.0j", "0.0", "0j", "0.0j", "0", "0 + 0j", "complex(0)", "complex(0.0)")


def is_warning_guard(st):
    """`if np.shape(self.S)[0] > 1: logger.warning(...)` — no effect on the result"""
    return (isinstance(st, ast.If) and not st.orelse and len(st.body) == 1 and isinstance(st.body[0], ast.Expr)
            and isinstance(st.body[0].value, ast.Call) and ast.unparse(st.body[0].value.func) == "logger.warning")


class Ctx:
    """where the model's pins / indices / matrix come from in the emitted term"""

    def __init__(self, sweep: bool):
        self.sweep = sweep
        self.pins = "pins" if sweep else "(sm_pins m)"
        self.n = "n" if sweep else "(sm_n m)"

    def idx(self, p):
        return f"(idx {p})" if self.sweep else f"(sm_idx m {p})"


def pin_index(node, pinvars, ctx):
    """self.pin_dic[self._to_pin(<pinK>)]  ->  index of the K-th pin argument"""
    t = ast.unparse(node)
    for v in pinvars:
        if t == f"self.pin_dic[self._to_pin({v})]":
            return ctx.idx(v)
    raise U(node, "not the matrix index of one of the pin arguments")


def entry(node, pinvars, ctx, ivars=None):
    """self.S[0, I, J] (one point) -> S I J ; returns (row, col) terms"""
    if not (isinstance(node, ast.Subscript) and ast.unparse(node.value) == "self.S" and isinstance(node.slice, ast.Tuple)
            and len(node.slice.elts) == 3):
        raise U(node, "not an entry of self.S")
    k, i, j = node.slice.elts
    def ix(e):
        if ivars and isinstance(e, ast.Name) and e.id in ivars:
            return ivars[e.id]
        return pin_index(e, pinvars, ctx)
    return ast.unparse(k), ix(i), ix(j)


def scalar_expr(node, pinvars, ctx, want_point="0", ivars=None, S="(sm_S m)"):
    """np.abs(E) ** 2.0 | np.angle(E) | 20.0 * np.log10(np.abs(E)) | E   with E an entry of self.S
    returns (kind, term) with kind in {'sq', 'angle', 'db', 'amp'} and term the Gallina entry (sq: its squared modulus)"""
    if isinstance(node, ast.BinOp) and isinstance(node.op, ast.Pow) and ast.unparse(node.right) in ("2.0", "2") \
            and isinstance(node.left, ast.Call) and ast.unparse(node.left.func) == "np.abs" and len(node.left.args) == 1:
        k, i, j = entry(node.left.args[0], pinvars, ctx, ivars)
        kind = "sq"
    elif isinstance(node, ast.Call) and ast.unparse(node.func) == "np.angle" and len(node.args) == 1 and not node.keywords:
        k, i, j = entry(node.args[0], pinvars, ctx, ivars)
        kind = "angle"
    elif isinstance(node, ast.BinOp) and isinstance(node.op, ast.Mult) and ast.unparse(node.left) in ("20.0", "20") \
            and isinstance(node.right, ast.Call) and ast.unparse(node.right.func) == "np.log10" \
            and isinstance(node.right.args[0], ast.Call) and ast.unparse(node.right.args[0].func) == "np.abs":
        k, i, j = entry(node.right.args[0].args[0], pinvars, ctx, ivars)
        kind = "db"
    else:
        k, i, j = entry(node, pinvars, ctx, ivars)
        kind = "amp"
    if k != want_point:
        raise U(node, f"sweep index {k!r} where {want_point!r} is expected")
    t = f"{S} {i} {j}"
    return kind, (f"sqmod ({t})" if kind == "sq" else t)


def tr_entry_fn(fn, name, want_kind):
    a = [x.arg for x in fn.args.args]
    if a != ["self", "pin1", "pin2"]:
        raise Unsupported(f"{fn.name} arguments {a}")
    body = [st for st in strip_doc(fn.body) if not is_warning_guard(st)]
    if not (len(body) == 1 and isinstance(body[0], ast.Return)):
        raise Unsupported(f"{fn.name}: expected a single return")
    kind, term = scalar_expr(body[0].value, ["pin1", "pin2"], Ctx(False))
    if kind != want_kind:
        raise Unsupported(f"{fn.name}: returns a {kind} read-out where {want_kind} is documented")
    return f"Definition {name} (m : smodel K) (pin1 pin2 : spin) : K :=\n  {term}.\n"


class Exec:
    """symbolic execution of the body of get_output / get_full_output"""

    def __init__(self, ctx):
        self.ctx = ctx
        self.env = {}          # python variable -> (kind, gallina variable)
        self.lets = []
        self.result = None

    def let(self, var, kind, term):
        self.lets.append(f"let {var} := {term} in")
        self.env[var] = (kind, var)

    def get(self, node, kind):
        if not (isinstance(node, ast.Name) and node.id in self.env and self.env[node.id][0] == kind):
            raise U(node, f"expected a {kind} variable")
        return self.env[node.id][1]

    def out_value(self, node, dvar, pinv, iv):
        """np.abs(d[i]) ** 2.0 | d[i]  (single point)   /   np.abs(output[:, i]) ** 2.0 | output[:, i]  (sweep)"""
        def elem(e):
            if self.ctx.sweep:
                if not (isinstance(e, ast.Subscript) and ast.unparse(e) == f"{dvar}[:, {iv}]"):
                    raise U(e, "expected the column of the pin")
            elif not (isinstance(e, ast.Subscript) and ast.unparse(e) == f"{dvar}[{iv}]"):
                raise U(e, "expected the entry of the pin")
            return f"o {self.ctx.idx(pinv)}" if self.ctx.sweep else f"{dvar} {self.ctx.idx(pinv)}"
        if isinstance(node, ast.BinOp) and isinstance(node.op, ast.Pow) and ast.unparse(node.right) in ("2.0", "2") \
                and isinstance(node.left, ast.Call) and ast.unparse(node.left.func) == "np.abs":
            return f"sqmod ({elem(node.left.args[0])})"
        return elem(node)

    def stmt(self, st, params_var=None):
        ctx = self.ctx
        if is_warning_guard(st):
            return
        # input_pin_dic = {self._to_pin(name): value for name, value in input_dic.items()}
        if isinstance(st, (ast.Assign, ast.AnnAssign)):
            tgt = st.target if isinstance(st, ast.AnnAssign) else (st.targets[0] if len(st.targets) == 1 else None)
            if not isinstance(tgt, ast.Name):
                raise U(st, "unsupported assignment target")
            v, val = tgt.id, st.value
            txt = ast.unparse(val)
            if txt == "{self._to_pin(name): value for (name, value) in input_dic.items()}" or \
                    txt == "{self._to_pin(name): value for name, value in input_dic.items()}":
                return self.let(v, "dict", "input_dic")
            if txt == "list(self.pin_dic.keys())" or txt == "list(self.pin_dic)":
                return self.let(v, "pins", ctx.pins)
            if isinstance(val, ast.Call) and ast.unparse(val.func) == "list" and len(val.args) == 1:
                a = val.args[0]
                if isinstance(a, ast.Call) and isinstance(a.func, ast.Attribute) and a.func.attr == "keys" and not a.args:
                    a = a.func.value
                return self.let(v, "pins", f"map fst {self.get(a, 'dict')}")
            if txt == "np.zeros(self.N, complex)" or txt == "np.zeros(self.N, dtype=complex)":
                return self.let(v, "vec", "(fun _ : nat => 0)")
            if txt == "{}":
                self.env[v] = ("out", v)
                return
            if isinstance(val, ast.Call) and ast.unparse(val.func) in ("np.dot", "np.matmul") and len(val.args) == 2:
                a0, a1 = val.args
                if not ctx.sweep:
                    if ast.unparse(a0) != "self.S[0, :, :]":
                        raise U(val, "the first operand must be the matrix of point 0")
                    return self.let(v, "vec", f"mv {ctx.n} (sm_S m) {self.get(a1, 'vec')}")
                if ast.unparse(a0) != "self.S" or ast.unparse(val.func) != "np.matmul":
                    raise U(val, "the first operand must be the stack of matrices")
                return self.let(v, "vecs", f"map (fun S => mv {ctx.n} S {self.get(a1, 'vec')}) Ss")
            raise U(st, "unsupported assignment")
        if isinstance(st, ast.If) and not st.orelse and isinstance(st.test, ast.Compare) and len(st.test.ops) == 1 \
                and isinstance(st.test.ops[0], ast.NotEq) and ast.unparse(st.test.comparators[0]) == "[]" \
                and len(st.body) == 1 and isinstance(st.body[0], ast.For) \
                and ast.unparse(st.body[0].iter) == ast.unparse(st.test.left):
            # `if l != []: for x in l: ...` is `for x in l: ...`
            return self.stmt(st.body[0])
        if isinstance(st, ast.For) and not st.orelse and len(st.body) == 1:
            b = st.body[0]
            it = ast.unparse(st.iter)
            tg = ast.unparse(st.target)
            # for pin in l2: l1.remove(pin)
            if isinstance(st.target, ast.Name) and isinstance(b, ast.Expr) and isinstance(b.value, ast.Call) \
                    and isinstance(b.value.func, ast.Attribute) and b.value.func.attr == "remove" \
                    and ast.unparse(b.value.args[0]) == tg:
                l2 = self.get(st.iter, "pins")
                l1 = self.get(b.value.func.value, "pins")
                return self.let(l1, "pins", f"fold_left (fun l {tg} => remove1 {tg} l) {l2} {l1}")
            # for pin in l1: input_pin_dic[pin] = 0.0 + 0.0j
            if isinstance(st.target, ast.Name) and isinstance(b, ast.Assign) and isinstance(b.targets[0], ast.Subscript) \
                    and ast.unparse(b.targets[0].slice) == tg and ast.unparse(b.value) in ZEROS:
                l1 = self.get(st.iter, "pins")
                d = self.get(b.targets[0].value, "dict")
                return self.let(d, "dict", f"fold_left (fun d {tg} => dset spin_eqb {tg} 0 d) {l1} {d}")
            if it == "self.pin_dic.items()" and isinstance(st.target, ast.Tuple) and len(st.target.elts) == 2:
                pv, iv = (ast.unparse(e) for e in st.target.elts)
                # for pin, i in self.pin_dic.items(): u[i] = input_pin_dic[pin]
                if isinstance(b, ast.Assign) and isinstance(b.targets[0], ast.Subscript) and ast.unparse(b.targets[0].slice) == iv \
                        and isinstance(b.value, ast.Subscript) and ast.unparse(b.value.slice) == pv:
                    u = self.get(b.targets[0].value, "vec")
                    d = self.get(b.value.value, "dict")
                    return self.let(u, "vec", f"fold_left (fun v {pv} => vupd v {ctx.idx(pv)} (dgetd {d} {pv})) {ctx.pins} {u}")
                # for pin, i in self.pin_dic.items(): out[pin.name] = A if power else B
                if isinstance(b, ast.Assign) and isinstance(b.targets[0], ast.Subscript) \
                        and ast.unparse(b.targets[0].slice) == f"{pv}.name" and isinstance(b.value, ast.IfExp) \
                        and ast.unparse(b.value.test) == "power":
                    outv = ast.unparse(b.targets[0].value)
                    if ctx.sweep:
                        if outv != params_var:
                            raise U(b, "the columns must go to the table of the parameters")
                        base = b.value.body.left.args[0] if isinstance(b.value.body, ast.BinOp) else b.value.body
                        dvar = self.get(base.value, "vecs")
                        a = self.out_value(b.value.body, dvar, pv, iv)
                        c = self.out_value(b.value.orelse, dvar, pv, iv)
                        self.result = (f"map (fun {pv} => ({pv}, map (fun o : vec K => if power then {a} else {c}) {dvar})) "
                                       f"{ctx.pins}")
                        return
                    if outv not in self.env or self.env[outv][0] != "out":
                        raise U(b, "unknown result dictionary")
                    base = b.value.body.left.args[0] if isinstance(b.value.body, ast.BinOp) else b.value.body
                    dvar = self.get(base.value, "vec")
                    a = self.out_value(b.value.body, dvar, pv, iv)
                    c = self.out_value(b.value.orelse, dvar, pv, iv)
                    self.env[outv] = ("outdone", f"map (fun {pv} => ({pv}, if power then {a} else {c})) {ctx.pins}")
                    return
        if isinstance(st, ast.Return) and isinstance(st.value, ast.Name):
            k, t = self.env.get(st.value.id, (None, None))
            if k == "outdone":
                self.result = t
                return
        raise U(st, "unsupported statement in a read-out")

    def term(self):
        if self.result is None:
            raise Unsupported("read-out without a result")
        return "\n  ".join(self.lets + [self.result])


PARAM_BLOCK = ("params = {}",
               "if self.ns == 1:\n    params = deepcopy(self.solved_params)\nelse:\n"
               "    for (name, values) in self.solved_params.items():\n"
               "        if len(values) == 1:\n            params[name] = np.array([values[0] for i in range(self.ns)])\n"
               "        elif len(values) == self.ns:\n            params[name] = values\n"
               "        else:\n            raise Exception('Not able to convert to pandas')")


def take_param_block(body, fname):
    """removes the two statements building the parameter columns; they must be exactly the block translated below"""
    txt = [ast.unparse(x) for x in body]
    norm = [t.replace("for name, values in", "for (name, values) in") for t in txt]
    for k in range(len(body) - 1):
        if norm[k] == PARAM_BLOCK[0] and norm[k + 1] == PARAM_BLOCK[1]:
            return body[:k] + body[k + 2:]
    raise Unsupported(f"{fname}: the block building the parameter columns changed")


PARAM_SRC = r"""Definition param_columns_src (ns : nat) (sp : list (nat * list K)) : option (list (nat * list K)) :=
  if Nat.eqb ns 1 then Some sp else
  fold_left (fun acc nv => match acc with
     | None => None
     | Some ps =>
         if Nat.eqb (List.length (snd nv)) 1 then Some (dset Nat.eqb (fst nv) (map (fun _ => hd 0 (snd nv)) (seq 0 ns)) ps)
         else if Nat.eqb (List.length (snd nv)) ns then Some (dset Nat.eqb (fst nv) (snd nv) ps)
         else None end) sp (Some []).
"""


def tr_get_output(fn):
    a = [x.arg for x in fn.args.args]
    if a != ["self", "input_dic", "power"]:
        raise Unsupported(f"get_output arguments {a}")
    ex = Exec(Ctx(False))
    for st in strip_doc(fn.body):
        ex.stmt(st)
    return ("Definition get_output_src (m : smodel K) (input_dic : list (spin * K)) (power : bool) : list (spin * K) :=\n  "
            + ex.term() + ".\n")


def tr_get_full_output(fn):
    a = [x.arg for x in fn.args.args]
    if a != ["self", "input_dic", "power"]:
        raise Unsupported(f"get_full_output arguments {a}")
    body = take_param_block(strip_doc(fn.body), "get_full_output")
    t = [ast.unparse(x) for x in body[-2:]]
    if t != ["pan = pd.DataFrame.from_dict(params)", "return pan"]:
        raise Unsupported("get_full_output: the table is no longer built from the columns as they are")
    ex = Exec(Ctx(True))
    for st in body[:-2]:
        ex.stmt(st, params_var="params")
    return ("Definition get_full_output_src (pins : list spin) (idx : spin -> nat) (n : nat) (Ss : list (mx K))\n"
            "    (input_dic : list (spin * K)) (power : bool) : list (spin * list K) :=\n  " + ex.term() + ".\n")


def tr_get_data(fn):
    a = [x.arg for x in fn.args.args]
    if a != ["self", "pin1", "pin2"]:
        raise Unsupported(f"get_data arguments {a}")
    body = take_param_block(strip_doc(fn.body), "get_data")
    if not (len(body) == 7 and isinstance(body[0], ast.Assign) and ast.unparse(body[0].targets[0]) == "(i1, i2)"
            and isinstance(body[0].value, ast.Tuple) and len(body[0].value.elts) == 2):
        raise Unsupported("get_data: shape of the body changed")
    ctx = Ctx(True)
    i1 = pin_index(body[0].value.elts[0], ["pin1", "pin2"], ctx)
    i2 = pin_index(body[0].value.elts[1], ["pin1", "pin2"], ctx)
    cols = {}
    for st, (key, kind) in zip(body[1:5], [("T", "sq"), ("dB", "db"), ("Phase", "angle"), ("Amplitude", "amp")]):
        if not (isinstance(st, ast.Assign) and ast.unparse(st.targets[0]) == f"params['{key}']"):
            raise U(st, f"expected the column {key}")
        k, term = scalar_expr(st.value, [], ctx, want_point=":", ivars={"i1": "i1", "i2": "i2"}, S="S")
        if k != kind:
            raise U(st, f"column {key} holds a {k} read-out")
        cols[key] = f"map (fun S : mx K => {term}) Ss"
    t = [ast.unparse(x) for x in body[5:]]
    if t != ["pan = pd.DataFrame.from_dict(params)", "return pan"]:
        raise Unsupported("get_data: the table is no longer built from the columns as they are")
    return ("Definition get_data_src (pins : list spin) (idx : spin -> nat) (n : nat) (Ss : list (mx K))\n"
            "    (pin1 pin2 : spin) : list K * list K * list K * list K :=\n"
            f"  let i1 := {i1} in let i2 := {i2} in\n"
            f"  ({cols['T']}, {cols['dB']},\n   {cols['Phase']}, {cols['Amplitude']}).\n")


def tr_full_data(fn):
    """get_full_data: same parameter columns (built with update), then params[(p1, p2)] = self.S[:, i1, i2]"""
    t = [ast.unparse(x) for x in strip_doc(fn.body)]
    want_loop = ("for p1, i1 in self.pin_dic.items():\n    for p2, i2 in self.pin_dic.items():\n"
                 "        params[p1, p2] = self.S[:, i1, i2]")
    want_block = PARAM_BLOCK[1].replace("for (name, values) in", "for name, values in").replace(
        "    params = deepcopy(self.solved_params)", "    _copy = deepcopy(self.solved_params)\n    params.update(_copy)")
    norm = lambda x: x.replace("(p1, i1)", "p1, i1").replace("(p2, i2)", "p2, i2").replace("(name, values)", "name, values")
    if not (len(t) == 4 and t[0].startswith("params") and t[0].endswith("= {}") and norm(t[1]) == want_block
            and norm(t[2]) == want_loop and t[3] == "return pd.DataFrame(params)"):
        raise Unsupported("get_full_data changed: " + " ; ".join(t)[-300:])
    return ("Definition get_full_data_src (pins : list spin) (idx : spin -> nat) (Ss : list (mx K)) : list (spin * spin * list K) :=\n"
            "  flat_map (fun p1 => map (fun p2 => (p1, p2, map (fun S : mx K => S (idx p1) (idx p2)) Ss)) pins) pins.\n")


S2PD_BODY = ["a = [pin.name for pin in self.pin_dic]",
             "ind = list(self.pin_dic.values())",
             "indsort = np.argsort(a)",
             "a = [a[i] for i in indsort]",
             "indsort = np.array(ind)[indsort]",
             "S = self.create_S()",
             "I, J = np.meshgrid(indsort, indsort, indexing='ij')",
             "S = S[0, I, J] if len(np.shape(S)) == 3 else S[I, J]",
             "S = func(S) if func is not None else S",
             "data = pd.DataFrame(data=S, index=a, columns=a)",
             "return data"]


def tr_s2pd(fn):
    """S2PD: statement by statement (each line below is the reading of the source line of the same number); `order` is
    np.argsort of the names (positions in the pin dictionary), the labels stand for their pins"""
    t = [ast.unparse(x).replace("(I, J) =", "I, J =") for x in strip_doc(fn.body)]
    if t != S2PD_BODY:
        k = next((i for i, (x, y) in enumerate(zip(t, S2PD_BODY)) if x != y), min(len(t), len(S2PD_BODY)))
        raise Unsupported("Model.S2PD changed at statement %d: %s" % (k + 1, (t[k] if k < len(t) else "<missing>")[:200]))
    return ("Definition s2pd_src (m : smodel K) (order : list nat) : list spin * list (list K) :=\n"
            "  let a := sm_pins m in\n"
            "  let ind := map (sm_idx m) (sm_pins m) in\n"
            "  let indsort := order in\n"
            "  let a := map (fun i => nth i a dpin) indsort in\n"
            "  let indsort := map (fun i => nth i ind 0%nat) indsort in\n"
            "  let S := sm_S m in\n"
            "  let S := map (fun I => map (fun J => S I J) indsort) indsort in\n"
            "  (a, S).\n")


PRINT_S_BODY = ["func = (lambda x: x) if func is None else func",
                "a = [pin.name for pin in self.pin_dic]",
                "ind = list(self.pin_dic.values())",
                "indsort = np.argsort(a)",
                "a = [a[i] for i in indsort]",
                "indsort = np.array(ind)[indsort]",
                "for pin, i in self.pin_dic.items():\n    print(pin, i)",
                "S = self.create_S()",
                "I, J = np.meshgrid(indsort, indsort, indexing='ij')",
                "S = S[0, I, J] if len(np.shape(S)) == 3 else S[I, J]",
                "S = func(S) if func is not None else S",
                "st = '            '",
                "for p in a:\n    st += f' {p:8} '",
                "st += '\\n'",
                "for i, pi in enumerate(a):\n    st += f' {pi:8} '\n    for j, pj in enumerate(a):\n        pr = S[i, j]\n"
                "        st += f' {pr:8.4f} '\n    st += '\\n'",
                "print(st)"]


def tr_print_S(fn):
    """print_S: the table that is printed (labels in alphabetical order; row i, column j = func of the entry between the
    pins labelling row i and column j)"""
    t = [ast.unparse(x).replace("(I, J) =", "I, J =").replace("for (pin, i) in", "for pin, i in").replace(
        "for (i, pi) in", "for i, pi in").replace("for (j, pj) in", "for j, pj in") for x in strip_doc(fn.body)]
    if t != PRINT_S_BODY:
        k = next((i for i, (x, y) in enumerate(zip(t, PRINT_S_BODY)) if x != y), min(len(t), len(PRINT_S_BODY)))
        raise Unsupported("Model.print_S changed at statement %d: %s" % (k + 1, (t[k] if k < len(t) else "<missing>")[:200]))
    return ("Definition print_S_src (m : smodel K) (order : list nat) (func : K -> K) : list spin * list (list K) :=\n"
            "  let a := sm_pins m in\n"
            "  let ind := map (sm_idx m) (sm_pins m) in\n"
            "  let indsort := order in\n"
            "  let a := map (fun i => nth i a dpin) indsort in\n"
            "  let indsort := map (fun i => nth i ind 0%nat) indsort in\n"
            "  let S := sm_S m in\n"
            "  let S := map (fun I => map (fun J => func (S I J)) indsort) indsort in\n"
            "  (a, S).\n")


def translate(repo: str) -> str:
    p = os.path.join(repo, "lekkersim", "model.py")
    with open(p) as fh:
        src = fh.read()
    import warnings
    with warnings.catch_warnings():
        warnings.simplefilter("ignore", SyntaxWarning)     # escape sequences in model.py's docstrings
        tree = ast.parse(src)
    out = [f"(* GENERATED by harness/translate_readout.py from {p}",
           f"   sha256 {hashlib.sha256(src.encode()).hexdigest()} — do not edit *)", HEADER]
    # the name -> Pin conversion every read-out goes through, and the inheritance of the single-point read-outs
    t = [ast.unparse(x) for x in strip_doc(find_fn(tree, "Model", "_to_pin").body)]
    if t != ["return pin if isinstance(pin, Pin) else self.pin[pin]"]:      # self.pin: the name table tied by translate_names
        raise Unsupported("Model._to_pin changed: " + " ; ".join(t)[:200])
    no_override(tree, "SolvedModel", ["get_A", "get_T", "get_PH", "get_output", "_to_pin", "S2PD", "print_S"])
    # what `ns` and the solved parameters ARE in the emitted terms: the sweep length of the matrix, a private copy of the values
    init = [ast.unparse(x) for x in strip_doc(find_fn(tree, "SolvedModel", "__init__").body)]
    for want in ("self.solved_params = deepcopy(param_dic)", "self.ns = np.shape(Smatrix)[0]"):
        if init.count(want) != 1 or sum(x.startswith(want.split("=")[0]) for x in init) != 1:
            raise Unsupported("SolvedModel.__init__: expected exactly one `" + want + "`")
    out.append(tr_entry_fn(find_fn(tree, "Model", "get_A"), "get_A_src", "amp"))
    out.append(tr_entry_fn(find_fn(tree, "Model", "get_T"), "get_T_src", "sq"))
    out.append(tr_entry_fn(find_fn(tree, "Model", "get_PH"), "get_PH_arg_src", "angle"))
    out.append(tr_get_output(find_fn(tree, "Model", "get_output")))
    out.append(tr_get_full_output(find_fn(tree, "SolvedModel", "get_full_output")))
    out.append(tr_get_data(find_fn(tree, "SolvedModel", "get_data")))
    out.append(tr_full_data(find_fn(tree, "SolvedModel", "get_full_data")))
    out.append(tr_s2pd(find_fn(tree, "Model", "S2PD")))
    out.append(tr_print_S(find_fn(tree, "Model", "print_S")))
    out.append(PARAM_SRC)
    return "\n".join(out) + "\n"


if __name__ == "__main__":
    import sys
    print(translate(sys.argv[1] if len(sys.argv) > 1 else "/repo"))
