"""C08 — composition preserves losslessness, passivity and reciprocity."""
from __future__ import annotations

import json

import numpy as np

import copy

import netlib
from netlib import Pin
from common import Stream, cq, cvec, clist, main, rand_dyadic


def loop_back(rng, d, kind):
    """a matched two-port (no reflection, unit transmission: a waveguide) closing a feedback loop: both its pins go to
    two so-far exposed pins of ONE component, sometimes placed before that component in the structure list"""
    by = {}
    for e in d["expo"]:
        by.setdefault(e[0], []).append(e)
    cands = [c for c, es in by.items() if len(es) >= 2]
    if not cands or len(d["expo"]) < 3:
        return
    c = rng.choice(cands)
    e1, e2 = rng.sample(by[c], 2)
    ph = [("1", "0"), ("-1", "0"), ("0", "1"), ("0", "-1")]
    a = rng.choice(ph)
    b = a if kind in ("unitary_sym", "symmetric") else rng.choice(ph)
    if kind == "contractive" and rng.random() < 0.5:
        a, b = ("1/2", "0"), ("0", "-1/4")
    from fractions import Fraction as Fr
    Sf = [[["0", "0"], list(a)], [list(b), ["0", "0"]]]
    comp = {"n": 2, "perm": rng.choice([[0, 1], [1, 0]]), "Sfrac": Sf,
            "S": [[[float(Fr(z[0])), float(Fr(z[1]))] for z in row] for row in Sf]}
    d["expo"] = [e for e in d["expo"] if e is not e1 and e is not e2]
    w = len(d["comps"])
    d["comps"].append(comp)
    d["conns"].append([[w, 0], [e1[0], e1[1]]])
    d["conns"].append([[e2[0], e2[1]], [w, 1]])
    d["loop_back"] = True


class EnergyStream(Stream):
    name = "energy"
    imports = "Field Matrix Base Kernel Network Solve Corr"
    case_type = "en_case"
    verdict_fn = "en_verdict"
    shard_size = 20

    def generate(self, rng, tier):
        n = 200 if tier == "quick" else 3000
        out = []
        for i in range(n):
            kind = rng.choice(["unitary", "unitary_sym", "contractive", "symmetric", "unitary"])
            maxc = 4 if tier == "quick" else 6
            d = netlib.gen_netlist(rng, max_comps=maxc, max_pins=3 if i % 4 else 4, kind=kind, min_comps=1,
                                   expose_all=kind.startswith("unitary"))
            if rng.random() < 0.25:
                loop_back(rng, d, kind)
            kinds = {"unitary": ["ELossless", "EPassive"], "unitary_sym": ["ELossless", "EReciprocal", "EPassive"],
                     "contractive": ["EPassive"], "symmetric": ["EReciprocal", "EPassive"]}[kind]
            d["kinds"] = kinds
            ne = len(d["expo"])
            d["us"] = [[[z.real, z.imag] for z in (rand_dyadic(rng, 16, 8) for _ in range(ne))]
                       for _ in range(3)]
            # the same laws must hold when part of the circuit is declared as monitors (another path through solve):
            # a random non-empty proper subset, preferably of several structures
            d["two_step"] = rng.random() < 0.3
            d["nested"] = rng.random() < 0.3
            nc = len(d["comps"])
            if nc >= 2 and rng.random() < 0.3:
                d["mon"] = sorted(rng.sample(range(nc), rng.randint(1, nc - 1) if nc < 3 else rng.randint(2, nc - 1)))
            out.append(d)
        return out

    def run(self, d):
        names = [x[2] for x in d["expo"]]
        try:
            if d.get("two_step") and d["conns"]:
                # built in two steps: everything but the last link, a solve, then the last link (between structures
                # that the first solve has already joined) — the laws are about the final circuit
                d1 = copy.deepcopy(d)
                a, b = d1["conns"].pop()
                sol, sts = netlib.build(d1)
                try:
                    sol.solve()
                except Exception:
                    pass
                sol.connect(sts[a[0]], Pin(f"p{a[1]}"), sts[b[0]], Pin(f"p{b[1]}"))
            else:
                sol, sts = netlib.build(d)
            for i in d.get("mon", []):
                sol.monitor_structure(sts[i], name=f"M{i}")
            if d.get("nested"):
                # the (possibly monitored) circuit is itself placed in a parent with all its pins raised: the laws
                # are about what the parent reports
                with netlib.lk.Solver() as top:
                    sol.put()
                    netlib.lk.raise_pins()
                mod = top.solve()
            else:
                mod = sol.solve()
            got = sorted(p.name for p in mod.pin_dic)
            if got != sorted(names):
                raise ValueError("exposed pin set differs")
            obs = netlib.obs_matrix_lit(netlib.observe_expo(mod, names))
        except Exception:
            obs = "Raised"
        net = netlib.net_case_lit(d, obs)
        us = clist(cvec([complex(*z) for z in u]) for u in d["us"])
        return "{| en_net := %s; en_kinds := %s; en_us := %s |}" % (net, clist(d["kinds"]), us)

    def nontrivial(self, d):
        return len(d["comps"]) >= 2 and len(d["conns"]) >= 1 and len(d["expo"]) >= 1

    def classify(self, d):
        return "%s/c%d/l%d/e%d%s" % (d["kind"], len(d["comps"]), len(d["conns"]), len(d["expo"]),
                                     ("/mon%d" % len(d["mon"]) if d.get("mon") else "") + ("/loop" if d.get("loop_back") else ""))

    def shrink(self, d):
        out = []
        for e in netlib.shrink_netlist(d):
            if "ELossless" in e["kinds"] and len(e["expo"]) < len(d["expo"]) and len(e["comps"]) == len(d["comps"]):
                continue  # dropping an exposure would leave the lossless premise
            ne = len(e["expo"])
            e["us"] = [u[:ne] for u in e["us"]]
            if len(e["comps"]) != len(d["comps"]):
                e.pop("mon", None)
            out.append(e)
        return out

    def py_repro(self, d):
        return ("import sys; sys.path.insert(0,'/verif/harness'); import netlib, json, numpy as np\n"
                f"d=json.loads({json.dumps(d)!r})\n"
                "sol,sts=netlib.build(d); m=sol.solve(); T=netlib.observe_expo(m,[x[2] for x in d['expo']])\n"
                "print(abs(T.conj().T@T-np.eye(len(T))).max(), abs(T-T.T).max(), np.linalg.norm(T,2))\n")


TRUSTED = [
    "Coq 8.16.1 kernel + vm_compute (no native_compute)",
    "Bignums/Uint63 primitives for the executed instance BQCf (theorems are generic and closed)",
    "hand-written model tied to /repo by this correspondence run (sampled)",
    "harness: exact unitary (Cayley) / contractive / symmetric rational component generator, emitter, parser",
]

if __name__ == "__main__":
    main("C08", [EnergyStream()],
         level_text="props/C08.v: for every netlist and schedule with a defined result, all components passive => no "
                    "excitation of the exposed pins gains power (any exposure subset); all lossless => output power = input "
                    "power for every excitation; all reciprocal => the result is symmetric; S^H S = I => lossless. Proved at "
                    "network level (flux balance over connections) and transferred to the solved matrix by soundness + "
                    "existence. The tie runs /repo on circuits of exactly unitary (Cayley), contractive and symmetric "
                    "rational components; Coq checks agreement with the model and T^H T = I, T = T^T, |Tu|^2 <= |u|^2 on "
                    "the observed matrices in exact arithmetic.",
         trusted_base=TRUSTED,
         assumptions=["theorems conditional on the model returning Ok", "round-off abstracted by tolerance 1e-9",
                      "components given to /repo are the binary64 roundings of the exact rational matrices"])
