"""C19 — prune() removes exactly the dead branches and nothing else."""
from __future__ import annotations

import copy
import json

import hierlib
import netlib
from common import Stream, clist, cnat, main


def add_dead(rng, d):
    """insert empty models / all-dead solvers at random places of a hierarchy description"""
    d = copy.deepcopy(d)
    for df in d["defs"]:
        df.pop("mon", None)          # child indices are about to shift; monitors are not this property's subject
    # definitions that are dead solvers (only empties / dead solvers inside, nothing exposed)
    ndead = rng.choice([0, 1, 1, 2])
    dead_defs = []
    shift = ndead
    # prepend dead definitions: indices of existing definitions shift
    for df in d["defs"]:
        for ch in df["children"]:
            if "sub" in ch:
                ch["sub"] += shift
    new = []
    for k in range(ndead):
        ch = [{"empty": True, "ekind": rng.choice([0, 0, 1, 2])} for _ in range(rng.randint(0, 2))]
        if k > 0 and rng.random() < 0.5:
            ch.append({"sub": rng.randrange(k)})
        new.append({"children": ch, "conns": [], "expo": []})
    d["defs"] = new + d["defs"]
    d["top"] += shift
    for df in d["defs"][shift:]:
        pos = list(range(len(df["children"]) + 1))
        nins = rng.choice([0, 1, 1, 2, 3])
        for _ in range(nins):
            at = rng.randint(0, len(df["children"]))
            ch = {"empty": True, "ekind": rng.choice([0, 0, 1, 2])} if (ndead == 0 or rng.random() < 0.5) else {"sub": rng.randrange(ndead)}
            df["children"].insert(at, ch)
            for c in df["conns"]:
                for e in c:
                    if e[0] >= at:
                        e[0] += 1
            for e in df["expo"]:
                if e[0] >= at:
                    e[0] += 1
    # a wired dead branch: a two-port sub-solver linked to free (unexposed) ports of live children, emptied before prune()
    for df in d["defs"][shift:]:
        if rng.random() < 0.35:
            used = {tuple(e) for c in df["conns"] for e in c} | {(e[0], e[1]) for e in df["expo"]}
            free = [(c, q) for c, ch in enumerate(df["children"]) if not is_dead(d, ch)
                    for q in range(hierlib.nports(d, ch)) if (c, q) not in used]
            if free:
                z = len(df["children"])
                df["children"].append({"zombie": hierlib.gen_comp(rng, 2) if False else
                                       {"n": 2, "S": [[[0.0, 0.0], [0.5, 0.0]], [[0.5, 0.0], [0.0, 0.0]]], "perm": [0, 1]}})
                rng.shuffle(free)
                df["conns"].append([list(free[0]), [z, 0]])
                if len(free) > 1 and free[1][0] != free[0][0] and rng.random() < 0.5:
                    df["conns"].append([[z, 1], list(free[1])])
    return d


def is_dead(d, ch):
    if "empty" in ch or "zombie" in ch:
        return True
    if "leaf" in ch:
        return False
    return all(is_dead(d, c) for c in d["defs"][ch["sub"]]["children"])


def reachable_defs(d, k, acc):
    if k in acc:
        return acc
    acc.add(k)
    for ch in d["defs"][k]["children"]:
        if "sub" in ch and not is_dead(d, ch):
            reachable_defs(d, ch["sub"], acc)
    return acc


def check_free_pins(d, built):
    """after prune(): at every surviving level the solver's free pins are exactly the unconnected ports of the
    surviving components (a harness-level expectation computed from the description)"""
    for k in sorted(reachable_defs(d, d["top"], set())):
        df = d["defs"][k]
        sol, sts = built[k]
        used = {tuple(e) for c in df["conns"] for e in c}
        want = sorted((c, hierlib.port_name(d, ch, q)) for c, ch in enumerate(df["children"]) if not is_dead(d, ch)
                      for q in range(hierlib.nports(d, ch)) if (c, q) not in used)
        idx = {id(st): c for c, st in enumerate(sts)}
        got = sorted((idx[id(st)], pin.name) for st, pin in sol.free_pins)
        if got != want:
            raise ValueError("free pins after prune differ at level %d: %s vs %s" % (k, got, want))


def shape(sol):
    out = []
    for st in sol.structures:
        if st.model is not None:
            out.append(f"SLeaf {cnat(len(st.model.pin_dic))}")
        elif st.solver is not None:
            out.append("(" + shape(st.solver) + ")")
        else:
            out.append("SLeaf 99%nat")
    return "SSub " + clist(out)


class PruneStream(Stream):
    name = "prune"
    imports = "Field Matrix Base Kernel Network Solve Hier Prune Corr"
    case_type = "prune_case"
    verdict_fn = "prune_verdict"
    shard_size = 20

    def generate(self, rng, tier):
        n = 160 if tier == "quick" else 2500
        out = []
        while len(out) < n:
            d = hierlib.gen_hier(rng, ndefs=rng.choice([1, 2, 2, 3, 4]))
            if not d["defs"][d["top"]]["expo"]:
                continue
            out.append(add_dead(rng, d))
        # a few hierarchies that are dead altogether
        for k in range(6):
            out.append({"defs": [{"children": [{"empty": True}] * (k % 3), "conns": [], "expo": []},
                                 {"children": [{"sub": 0}, {"empty": True}] if k % 2 else [{"sub": 0}],
                                  "conns": [], "expo": []}], "top": 1})
        return out

    def run(self, d):
        term, ex, nl = hierlib.instantiate(d)
        names = [x[2] for x in d["defs"][d["top"]]["expo"]]
        built = hierlib.build_all(d)
        top = built[d["top"]][0]
        for zs, inner in built.get("zombies", []):
            zs.remove_structure(inner)          # the wired branch dies
        crashed = False
        # the leaf case of the protocol: a placed model reports itself empty iff it has no pins
        def leaves(sol, seen):
            for st in sol.structures:
                if st.model is not None:
                    yield st.model
                elif st.solver is not None and id(st.solver) not in seen:
                    seen.add(id(st.solver))
                    yield from leaves(st.solver, seen)
        leaf_ok = all(bool(m.prune()) == (len(m.pin_dic) == 0) for m in leaves(top, set()))
        try:
            ret = top.prune()
        except Exception:
            ret, crashed = False, True           # prune() itself failed on a legal hierarchy
        shp = shape(top)
        try:
            if crashed:
                raise ValueError("prune() raised")
            if not leaf_ok:
                raise ValueError("Model.prune() of a leaf disagrees with 'has no pins'")
            check_free_pins(d, built)
            mod = top.solve()
            got = sorted(p.name for p in mod.pin_dic)
            if got != sorted(names):
                raise ValueError("exposed pin set differs")
            obs = netlib.obs_matrix_lit(netlib.observe_expo(mod, names))
        except Exception:
            obs = "Raised"
        return "{| pr_circ := %s; pr_ret := %s; pr_shape := %s; pr_obs := %s |}" % (
            term, "true" if ret else "false", shp, obs)

    def nontrivial(self, d):
        s = json.dumps(d)
        return '"empty"' in s and hierlib.depth(d) >= 2

    def classify(self, d):
        s = json.dumps(d)
        return "depth%d/empties%d" % (hierlib.depth(d), min(s.count('"empty"'), 6))

    def py_repro(self, d):
        return ("import sys; sys.path.insert(0,'/verif/harness'); import hierlib, c19, json\n"
                f"d=json.loads({json.dumps(d)!r})\n"
                "b=hierlib.build_all(d); top=b[d['top']][0]; print(top.prune()); print(c19.shape(top))\n")


TRUSTED = [
    "Coq 8.16.1 kernel + vm_compute",
    "Bignums/Uint63 primitives for the executed instance BQCf",
    "hand-written model Prune.v/Hier.v tied to /repo by this correspondence run (sampled)",
    "harness: hierarchy generator with empty models and dead solvers inserted at random places and depths",
]

if __name__ == "__main__":
    import translate_prune
    from common import source_obligation
    main("C19", [PruneStream()],
         source_obligations=[source_obligation("PruneSrc_C19", translate_prune.translate, "PruneSrcProof.v", ["prune_src_is_prune", "model_prune_src_is_dead"])],
         level_text="props/C19.v (all hierarchies): after prune no dead branch is left at any level; a hierarchy without dead "
                    "branches is unchanged (so prune is idempotent and removes nothing else: structures, connections, exposures "
                    "stay); the returned flag is 'the solver is empty'; the surviving leaves are exactly the non-empty ones in "
                    "order; the pruned solver reports the network equations of the original circuit. The tie inserts empty "
                    "models and dead solvers (nested, shared) at random places, calls prune() on /repo and compares the returned "
                    "flag, the tree of remaining structures at every level, and the solve after prune with the model of the "
                    "pruned and of the unpruned hierarchy.",
         trusted_base=TRUSTED, assumptions=["theorems on the matrix conditional on the model returning Ok"])
