"""C09 — library blocks implement their documented physics for all parameter values.
Physics: theorems over the reals in Blocks.v; every sampled entry of the implementation is tied to
the real-analytic model by a lemma proved with the `interval` tactic (one lemma per sample).
Interface: finite enumeration block x numeric kind."""
from __future__ import annotations

import contextlib
import io
import json
import os
import re
from fractions import Fraction as Fr

import numpy as np

import common
from common import Stream, clist, cnat, main, setup_repo_import

lk = setup_repo_import()
from lekkersim.pin import Pin  # noqa: E402

TOL = "1e-9"


def rlit(x) -> str:
    fr = Fr(x)
    s = f"{abs(fr.numerator)} / {fr.denominator}" if fr.denominator != 1 else f"{abs(fr.numerator)}"
    return f"(- ({s}))" if fr.numerator < 0 else f"({s})"


def neff_const(n):
    return lambda **kw: n


BLOCKS = {
    # name: (constructor from args dict, solve kwargs from args, Coq term from args, size)
    "Waveguide": dict(
        gen=lambda r, ints: {"L": r.randint(1, 300) if ints else r.randint(1, 30000) / 64.0,
                             "nr": r.choice([1, 2, 3]) if ints else 1 + r.randint(0, 128) / 64.0,
                             "ni": 0.0 if r.random() < 0.6 else r.randint(0, 64) / 65536.0,
                             "wl": r.randint(32, 128) / 64.0},
        make=lambda a: lk.Waveguide(a["L"], n=(a["nr"] if a["ni"] == 0 else complex(a["nr"], a["ni"]))),
        kw=lambda a: {"wl": a["wl"]},
        term=lambda a: "Waveguide %s %s %s %s" % (rlit(a["L"]), rlit(a["nr"]), rlit(a["ni"]), rlit(a["wl"])), n=2),
    "PhaseShifter": dict(
        gen=lambda r, ints: {"PS": r.choice([-3, -1, -1, 0, 1, 2, -2, 3]) if ints else r.choice([-1.0, -3.0, r.randint(-128, 128) / 64.0])},
        make=lambda a: lk.PhaseShifter(), kw=lambda a: {"PS": a["PS"]},
        term=lambda a: "PhaseShifter %s" % rlit(a["PS"]), n=2),
    # the shift given ONLY through the constructor default (renamed parameter, nothing passed at solve time)
    "PhaseShifter_default": dict(
        gen=lambda r, ints: {"PS": r.randint(-2, 2) if ints else r.randint(-128, 128) / 64.0},
        make=lambda a: lk.PhaseShifter(param_name="PH", param_default=a["PS"]), kw=lambda a: {},
        term=lambda a: "PhaseShifter %s" % rlit(a["PS"]), n=2),
    "PushPullPhaseShifter": dict(
        gen=lambda r, ints: {"PS": r.randint(-2, 2) if ints else r.randint(-128, 128) / 64.0},
        make=lambda a: lk.PushPullPhaseShifter(), kw=lambda a: {"PS": a["PS"]},
        term=lambda a: "PushPull %s" % rlit(a["PS"]), n=4),
    "TH_PhaseShifter": dict(
        gen=lambda r, ints: {"L": r.randint(1, 100) if ints else r.randint(1, 6400) / 64.0,
                             "n": r.choice([1, 2]) if ints else 1 + r.randint(0, 128) / 64.0,
                             "wl": r.randint(32, 128) / 64.0, "PS": r.randint(-64, 64) / 64.0},
        make=lambda a: lk.TH_PhaseShifter(a["L"], neff_const(a["n"]), wl=1.0),
        kw=lambda a: {"wl": a["wl"], "PS": a["PS"]},
        term=lambda a: "TH_PhaseShifter %s %s %s %s" % (rlit(a["L"]), rlit(a["n"]), rlit(a["wl"]), rlit(a["PS"])), n=2),
    "Attenuator": dict(
        gen=lambda r, ints: {"loss": r.randint(0, 40) if ints else r.randint(0, 2560) / 64.0},
        make=lambda a: lk.Attenuator(a["loss"]), kw=lambda a: {},
        term=lambda a: "Attenuator %s" % rlit(a["loss"]), n=2),
    "LinearAttenuator": dict(
        gen=lambda r, ints: {"c": r.choice([0, 1]) if ints else r.randint(0, 64) / 64.0},
        make=lambda a: lk.LinearAttenuator(a["c"]), kw=lambda a: {},
        term=lambda a: "LinearAttenuator %s" % rlit(a["c"]), n=2),
    "PerfectMirror": dict(
        gen=lambda r, ints: {"ph": r.randint(-1, 1) if ints else r.randint(-64, 64) / 64.0},
        make=lambda a: lk.PerfectMirror(a["ph"]), kw=lambda a: {},
        term=lambda a: "PerfectMirror %s" % rlit(a["ph"]), n=1),
    "Mirror": dict(
        gen=lambda r, ints: {"ref": r.choice([0, 1]) if ints else r.randint(0, 64) / 64.0,
                             "ph": r.randint(-1, 1) if ints else r.randint(-64, 64) / 64.0},
        make=lambda a: lk.Mirror(a["ref"], a["ph"]), kw=lambda a: {},
        term=lambda a: "Mirror %s %s" % (rlit(a["ref"]), rlit(a["ph"])), n=2),
    "BeamSplitter": dict(
        gen=lambda r, ints: {"ratio": r.choice([0, 1]) if ints else r.randint(0, 64) / 64.0,
                             "ph": r.randint(-1, 1) if ints else r.randint(-64, 64) / 64.0},
        make=lambda a: lk.BeamSplitter(a["ratio"], phase=a["ph"]), kw=lambda a: {},
        term=lambda a: "BeamSplitter %s %s" % (rlit(a["ratio"]), rlit(a["ph"])), n=4),
    "BeamSplitterT": dict(     # explicit power transmission t, boundary values included
        gen=lambda r, ints: {"ratio": r.choice([0, 1]) if ints else r.randint(0, 64) / 64.0,
                             "t": r.choice([0, 1, 0.0]) if (ints or r.random() < 0.3) else r.randint(0, 64) / 64.0,
                             "ph": r.randint(-1, 1) if ints else r.randint(-64, 64) / 64.0},
        make=lambda a: lk.BeamSplitter(a["ratio"], t=a["t"], phase=a["ph"]), kw=lambda a: {},
        term=lambda a: "BeamSplitterT %s %s %s" % (rlit(a["ratio"]), rlit(a["t"]), rlit(a["ph"])), n=4),
    "UserWaveguide": dict(     # two modes whose settings differ (also in their KEY SETS); index = base + pol / 4
        gen=lambda r, ints: {"L": r.randint(1, 100) if ints else r.randint(1, 6400) / 64.0,
                             "base": r.choice([1, 2]) if ints else 1 + r.randint(0, 128) / 64.0,
                             "wl": r.randint(32, 128) / 64.0,
                             "extras": r.choice([[{"pol": 1}, {}], [{}, {"pol": 1}], [{"pol": 0}, {"pol": 1}],
                                                 [{"pol": 2}, {"pol": 1}], [{"pol": 1, "x": 3}, {"x": 1}]])},
        make=lambda a: lk.UserWaveguide(a["L"], (lambda wl, base, pol=0, **kw: base + pol / 4.0),
                                        param_dic={"base": a["base"]},
                                        allowedmodes={"tm": dict(a["extras"][0]), "te": dict(a["extras"][1])}),   # declared in non-alphabetical order
        kw=lambda a: {"wl": a["wl"]},
        term=lambda a: "UserWaveguide2 %s %s %s %s" % (rlit(a["L"]), rlit(a["base"] + a["extras"][0].get("pol", 0) / 4.0),
                                                      rlit(a["base"] + a["extras"][1].get("pol", 0) / 4.0), rlit(a["wl"])), n=4),
    "Splitter1x2": dict(
        gen=lambda r, ints: {}, make=lambda a: lk.Splitter1x2(), kw=lambda a: {},
        term=lambda a: "Splitter1x2", n=3),
    "PolRot": dict(
        gen=lambda r, ints: {"ang": r.randint(-2, 2) if ints else r.randint(-128, 128) / 64.0, "fixed": r.random() < 0.5},
        make=lambda a: lk.PolRot(a["ang"]) if a["fixed"] else lk.PolRot(),
        kw=lambda a: {} if a["fixed"] else {"angle": a["ang"]},
        term=lambda a: "PolRot %s" % rlit(a["ang"]), n=4),
}

PINS = {'Waveguide': ['a0', 'b0'], 'PhaseShifter': ['a0', 'b0'], 'PhaseShifter_default': ['a0', 'b0'], 'PushPullPhaseShifter': ['a0', 'b0', 'a1', 'b1'], 'TH_PhaseShifter': ['a0', 'b0'], 'Attenuator': ['a0', 'b0'], 'LinearAttenuator': ['a0', 'b0'], 'PerfectMirror': ['a0'], 'Mirror': ['a0', 'b0'], 'BeamSplitter': ['a0', 'a1', 'b0', 'b1'], 'BeamSplitterT': ['a0', 'a1', 'b0', 'b1'], 'UserWaveguide': ['a0_tm', 'b0_tm', 'a0_te', 'b0_te'], 'Splitter1x2': ['a0', 'b0', 'b1'], 'PolRot': ['a0_pol0', 'a0_pol1', 'b0_pol0', 'b0_pol1']}


UNFOLD = ("cbv [Waveguide PhaseShifter TH_PhaseShifter Attenuator LinearAttenuator PerfectMirror PushPull "
          "Mirror BeamSplitter BeamSplitterT UserWaveguide2 Splitter1x2 PolRot twoport wg_t att_amp bs_t bs_tt bs_c cscale cmulc cis C0 fst snd]")

SAMPLE_ASSUMPTIONS = {}

LEMMA_HEADER = """From Coq Require Import Reals.
From Interval Require Import Tactic.
From Lekkersim Require Import Blocks.
Open Scope R_scope.
"""


def sample_lemma(name, d, S):
    info = BLOCKS[d["block"]]
    n = info["n"]
    goals = []
    for i in range(n):
        for j in range(n):
            z = complex(S[i, j])
            goals.append("(let z := %s %d%%nat %d%%nat in Rabs (fst z - %s) <= %s /\\ Rabs (snd z - %s) <= %s)"
                         % (info["term"](d["args"]), i, j, rlit(z.real), TOL, rlit(z.imag), TOL))
    return ("Lemma %s :\n  %s.\nProof. %s; repeat split; interval with (i_prec 70). Qed.\n"
            % (name, " /\\\n  ".join(goals), UNFOLD))


class PhysicsStream(Stream):
    """every entry of the implementation's matrix against the real-analytic model, by interval arithmetic"""
    name = "physics"
    shard_size = 12

    def generate(self, rng, tier):
        out = []
        per = 8 if tier == "quick" else 120
        for b, info in BLOCKS.items():
            for k in range(per):
                ints = (k % 4 == 3)
                out.append({"block": b, "args": info["gen"](rng, ints), "ints": ints,
                            "in_solver": k % 5 == 4})
                if k % 2 == 1:
                    # a SECOND instance of the block, with other arguments, is built (and solved) before this one is
                    # read: instances must not share anything
                    out[-1]["other"] = info["gen"](rng, False)
        return out

    def run(self, d):       # not used (custom_eval)
        raise NotImplementedError

    def observe(self, d):
        info = BLOCKS[d["block"]]
        m = info["make"](d["args"])
        if d.get("other") is not None:
            try:
                o = info["make"](d["other"])
                o.solve(**info["kw"](d["other"]))
            except Exception:
                pass
        if d.get("in_solver"):
            with lk.Solver() as S:
                m.put()
                lk.raise_pins()
            mod = S.solve(**info["kw"](d["args"]))
        else:
            mod = m.solve(**info["kw"](d["args"]))
        # the coefficient between two pins is looked up BY NAME, in the documented pin order of the block
        table = {p.name: i for p, i in mod.pin_dic.items()}
        if sorted(table) != sorted(PINS[d["block"]]):
            raise ValueError("pins of the block: %s" % sorted(table))
        idx = [table[n] for n in PINS[d["block"]]]
        return np.asarray(mod.S)[0][np.ix_(idx, idx)]

    header = None

    def make_lemma(self, name, d):
        return sample_lemma(name, d, self.observe(d))

    def custom_eval(self, descs, prefix):
        LEMMA_HEADER = self.header or globals()["LEMMA_HEADER"]
        verdicts = [None] * len(descs)
        lemmas = {}
        for i, d in enumerate(descs):
            try:
                lemmas[i] = self.make_lemma(f"sample_{i}", d)
            except Exception as ex:
                verdicts[i] = "ImplError"
        pending = sorted(lemmas)
        rounds = 0
        while pending and rounds < 6:
            rounds += 1
            shards, spans = [], []
            for k in range(0, len(pending), self.shard_size):
                span = pending[k:k + self.shard_size]
                shards.append(LEMMA_HEADER + "\n".join(lemmas[i] for i in span))
                spans.append(span)
            if rounds == 1 and shards:
                shards[0] += f"\nPrint Assumptions sample_{spans[0][-1]}.\n"
            res, paths = common.eval_shards(prefix + f"_r{rounds}", shards)
            if rounds == 1 and res and res[0][0] == 0:
                i0 = res[0][1].find("Axioms:")
                SAMPLE_ASSUMPTIONS["interval_sample_lemma"] = res[0][1][i0:i0 + 6000] if i0 >= 0 else res[0][1][-500:]
            nxt = []
            for (rc, out), span in zip(res, spans):
                if rc == 0:
                    for i in span:
                        verdicts[i] = "Agree"
                    continue
                # the first lemma that does not check: everything before it is proved
                m = re.search(r"line (\d+)", out)
                bad = None
                if m:
                    line = int(m.group(1))
                    src_lines = (LEMMA_HEADER + "\n".join(lemmas[i] for i in span)).split("\n")
                    upto = "\n".join(src_lines[:line])
                    names = re.findall(r"Lemma sample_(\d+)", upto)
                    if names:
                        bad = int(names[-1])
                if bad is None or bad not in span:
                    for i in span:
                        verdicts[i] = "CoqError:" + out[-300:].replace("\n", " | ")
                    continue
                k = span.index(bad)
                for i in span[:k]:
                    verdicts[i] = "Agree"
                verdicts[bad] = "Differ"
                nxt += span[k + 1:]
            pending = nxt
        for i in pending:
            verdicts[i] = "CoqError:too many failing samples in one run"
        return verdicts

    def nontrivial(self, d):
        return True

    def classify(self, d):
        return d["block"] + ("/int" if d["ints"] else "") + ("/solver" if d.get("in_solver") else "")

    def py_repro(self, d):
        return ("import sys; sys.path.insert(0,'/verif/harness'); import c09\n"
                f"d={d!r}\nprint(c09.PhysicsStream().observe(d))\n")


def quiet(f):
    with contextlib.redirect_stdout(io.StringIO()):
        return f()


CHECKS = ["construct", "put_and_name_every_pin", "wire_by_name", "solve", "str", "print_S", "show_free_pins",
          "inspect", "solve_in_solver"]


class IfaceStream(Stream):
    """every block x numeric kind supports the common model interface"""
    name = "interface"
    imports = "Field Matrix Base Kernel Network Solve Corr"
    case_type = "val_case"
    verdict_fn = "val_verdict"
    shard_size = 50

    def generate(self, rng, tier):
        out = []
        for b, info in BLOCKS.items():
            for ints in (False, True):
                for _ in range(2 if tier == "quick" else 6):
                    out.append({"block": b, "args": info["gen"](rng, ints), "ints": ints})
        return out

    def checks(self, d):
        info = BLOCKS[d["block"]]
        res = []

        def attempt(f):
            try:
                quiet(f)
                res.append(True)
            except Exception:
                res.append(False)
        m = None
        try:
            m = info["make"](d["args"])
            res.append(True)
        except Exception:
            return [False] * len(CHECKS)
        kw = info["kw"](d["args"])

        def put_all():
            with lk.Solver():
                st = m.put()
                names = [p.name for p in m.pin_dic]
                assert len(names) == info["n"]
                for nm in names:
                    assert st.pin[nm][1].name == nm
        attempt(put_all)

        def wire():
            with lk.Solver():
                a = m.put()
                first = [p.name for p in m.pin_dic][0]
                info["make"](d["args"]).put(first, a.pin[first])
        attempt(wire)
        attempt(lambda: info["make"](d["args"]).solve(**kw))
        attempt(lambda: str(m))
        def printed():
            """print_S prints the matrix 'in agreement with pins': row p, column q of the table (pins in alphabetical
            order) is func(S[p, q]) — checked for the real and the imaginary part and for the default |.|"""
            sm = m.solve(**kw)
            names = sorted(p.name for p in sm.pin_dic)
            idx = {p.name: i for p, i in sm.pin_dic.items()}
            S = np.asarray(sm.S)[0]
            for func in (np.real, np.imag, None):
                buf = io.StringIO()
                with contextlib.redirect_stdout(buf):
                    if func is None:
                        sm.print_S()
                    else:
                        sm.print_S(func=func)
                rows = [ln.split() for ln in buf.getvalue().splitlines() if ln.strip()]
                table = [r for r in rows if len(r) == len(names) + 1 and r[0] in names]
                assert [r[0] for r in table[-len(names):]] == names, "row labels of print_S"
                for r in table[-len(names):]:
                    for q, txt in zip(names, r[1:]):
                        want = (np.abs if func is None else func)(S[idx[r[0]], idx[q]])
                        assert abs(float(txt) - float(want)) < 6e-5, f"print_S entry ({r[0]}, {q})"
            m.solve(**kw)
            m.print_S()
        attempt(printed)
        attempt(lambda: m.show_free_pins())
        attempt(lambda: m.inspect())

        def in_solver():
            with lk.Solver() as S:
                info["make"](d["args"]).put()
                lk.raise_pins()
            S.solve(**kw)
            S.show_free_pins()
            S.inspect()
        attempt(in_solver)
        return res

    def run(self, d):
        res = self.checks(d)
        ones = clist("(cq 1 0 1)" for _ in CHECKS)
        obs = clist("(cq %d 0 1)" % (1 if r else 0) for r in res)
        return "{| vc_expected := %s; vc_obs := Obs %s |}" % (ones, obs)

    def classify(self, d):
        return d["block"] + ("/int" if d["ints"] else "/float")

    def py_repro(self, d):
        return ("import sys; sys.path.insert(0,'/verif/harness'); import c09\n"
                f"d={d!r}\nprint(list(zip(c09.CHECKS, c09.IfaceStream().checks(d))))\n")


TRUSTED = [
    "Coq 8.16.1 kernel; the Interval tactic (proof terms checked by the kernel; its evaluator runs by vm_compute)",
    "Coq.Reals axioms (ClassicalDedekindReals.sig_forall_dec, sig_not_dec, functional_extensionality_dep) and what "
    "Interval/Flocq/Coquelicot add, as listed under Print Assumptions in props/C09.v",
    "hand-written model Blocks.v tied to /repo by one interval-checked lemma per sampled matrix",
    "harness: parameter sampling in the physical range (incl. integer-typed arguments), exact transport of floats as rationals",
]

if __name__ == "__main__":
    import translate_blocks
    from common import source_obligation, REAL_AXIOMS
    main("C09", [PhysicsStream(), IfaceStream()],
         source_obligations=[
             source_obligation("BlocksSrc_C09", translate_blocks.translate, "BlocksSrcProof.v",
                               ["Waveguide_src_ok", "UserWaveguide2_src_ok", "PhaseShifter_src_ok", "PushPull_src_ok", "TH_PhaseShifter_src_ok",
                                "Attenuator_src_ok", "LinearAttenuator_src_ok", "Mirror_src_ok", "PerfectMirror_src_ok",
                                "BeamSplitter_src_ok", "BeamSplitterT_src_ok", "Splitter1x2_src_ok", "PolRot_fixed_src_ok",
                                "PolRot_var_src_ok"], allowed_axioms=REAL_AXIOMS)],
         level_text="props/C09.v: for all real parameter values in the stated range every documented block realises its "
                    "transfer function / power ratios, lossless blocks are unitary, lossy ones passive, and |S_ij| = |S_ji|. The "
                    "tie samples each block (also inside a solver, also with integer-typed arguments), and for every sample "
                    "proves with interval arithmetic that EVERY entry of the implementation's matrix is within 1e-9 of the "
                    "real-analytic model. The interface half (place and wire by pin name, solve, str, print_S, show_free_pins, "
                    "inspect, for int and float arguments) is a finite enumeration over the documented block list, labelled so.",
         trusted_base=TRUSTED,
         extra=lambda: {"print_assumptions_generated": SAMPLE_ASSUMPTIONS},
         assumptions=["the interface half is finite checking, not an unbounded proof",
                      "user-supplied index functions (TH_PhaseShifter Neff) enter as their value n"])
