"""C05 — parameter values reach each component by precedence and renaming rules."""
from __future__ import annotations

import copy
import itertools
import json

import numpy as np

import paramlib
from common import Stream, cf, clist, cvec, main
from paramlib import lk


class ParamStream(Stream):
    name = "deliver"
    twins = False
    imports = "Field Matrix Base Kernel Network Solve Params Corr"
    case_type = "par_case"
    verdict_fn = "par_verdict"
    shard_size = 50

    def generate(self, rng, tier):
        n = 300 if tier == "quick" else 5000
        out = []
        while len(out) < n:
            t = paramlib.gen_tree(rng, rng.choice([1, 2, 2, 3]), twins=self.twins, replace=self.twins)
            if "leaf" in t:
                continue
            paramlib.sanitize(t)
            kw = {}
            for _ in range(rng.choice([0, 1, 2, 3])):
                kw[rng.choice(paramlib.POOL + [6, 7])] = paramlib.rq(rng)
            out.append({"tree": t, "kw": [[k, v] for k, v in kw.items()]})
            # every listing order of the renaming pairs of the top-level placements (<= 3 pairs)
            ch0 = t["children"][0]
            if 2 <= len(ch0["rmap"]) <= 3 and len(out) < n:
                for perm in itertools.permutations(ch0["rmap"]):
                    t2 = copy.deepcopy(t)
                    t2["children"][0]["rmap"] = [list(p) for p in perm]
                    out.append({"tree": t2, "kw": [[k, v] for k, v in kw.items()]})
        return out[:n]

    def run(self, d):
        try:
            S, pairs = paramlib.build(copy.deepcopy(d["tree"]), [0])
            if (len(d["kw"]) + len(d["tree"].get("children", []))) % 3 == 0:
                S = S.shallow_copy()          # the copy (its placements carry the renamings over) must deliver alike
            mod = S.solve(**{paramlib.pn(k): v for k, v in d["kw"]})
            vals = [mod.get_A(b, a) for a, b in pairs]
            obs = "Obs " + cvec(vals, cf)
        except Exception as ex:
            obs = "Raised"
        return "{| pa_tree := %s; pa_kw := %s; pa_obs := %s |}" % (
            paramlib.tree_lit(copy.deepcopy(d["tree"])), paramlib.dict_lit(d["kw"]), obs)

    def nontrivial(self, d):
        s = json.dumps(d["tree"])
        return '"rmap": [[' in s

    def classify(self, d):
        s = json.dumps(d["tree"])
        return "%s%s" % ("ren" if '"rmap": [[' in s else "plain", "/addp" if '"fun"' in s else "")

    def shrink(self, d):
        out = []
        t = d["tree"]
        for i in range(len(d["kw"])):
            e = copy.deepcopy(d)
            del e["kw"][i]
            out.append(e)
        if "children" in t:
            for i, ch in enumerate(t["children"]):
                if len(t["children"]) > 1:
                    e = copy.deepcopy(d)
                    paramlib.drop_child(e["tree"], i)
                    paramlib.sanitize(e["tree"])
                    out.append(e)
                if "children" in ch["node"] and not ch["rmap"]:
                    e = copy.deepcopy(d)
                    e["tree"] = copy.deepcopy(ch["node"])
                    out.append(e)
                for j in range(len(ch["rmap"])):
                    e = copy.deepcopy(d)
                    del e["tree"]["children"][i]["rmap"][j]
                    out.append(e)
            if t["adds"]:
                e = copy.deepcopy(d)
                e["tree"]["adds"] = []
                out.append(e)
            if "replaced" in t:
                e = copy.deepcopy(d)
                del e["tree"]["replaced"]
                out.append(e)
            for j in range(len(t["sdef"])):
                e = copy.deepcopy(d)
                del e["tree"]["sdef"][j]
                paramlib.sanitize(e["tree"])
                out.append(e)
        return out

    def py_repro(self, d):
        return ("import sys, copy; sys.path.insert(0,'/verif/harness'); import paramlib, json\n"
                f"d=json.loads({json.dumps(d)!r})\n"
                "S,pairs=paramlib.build(copy.deepcopy(d['tree']),[0]); m=S.solve(**{paramlib.pn(k):v for k,v in d['kw']})\n"
                "print([m.get_A(b,a) for a,b in pairs])\n")


class SharedStream(ParamStream):
    """the same model / solver object placed twice under different renamings; set_default_params replacing
    the defaults after add_param (the definition defaults of the arguments become reachable)"""
    name = "shared"
    twins = True

    def generate(self, rng, tier):
        out = [d for d in super().generate(rng, tier)
               if '"twin_of"' in json.dumps(d) or '"replaced"' in json.dumps(d)][:150 if tier == "quick" else 2000]
        # directed: a solver defining a parameter through add_param whose argument has no solver default
        # (defaults replaced), placed twice under different names of that argument; only one is given
        for _ in range(40 if tier == "quick" else 400):
            k, a = rng.sample(paramlib.POOL, 2)
            n1, n2 = rng.sample([p for p in paramlib.POOL + [6, 7] if p not in (k, a)], 2)
            fid = rng.choice([0, 2])
            X = {"children": [{"rmap": [], "node": {"leaf": k, "default": paramlib.rq(rng)}}], "sdef": [],
                 "adds": [{"name": k, "fun": fid, "args": [[a, paramlib.rq(rng)]]}], "set_after": False,
                 "replaced": [] if rng.random() < 0.7 else [[a, paramlib.rq(rng)]]}
            top = {"children": [{"rmap": [[a, n1]], "node": X},
                                {"rmap": [[a, n2]], "node": copy.deepcopy(X), "twin_of": 0}],
                   "sdef": [], "adds": [], "set_after": False}
            if rng.random() < 0.3:
                top["replaced"] = []
            kw = {rng.choice([n1, n2]): paramlib.rq(rng)}
            out.append({"tree": top, "kw": [[kk, v] for kk, v in kw.items()]})
        return out

    def classify(self, d):
        s = json.dumps(d["tree"])
        return "%s%s%s" % ("twin" if '"twin_of"' in s else "single", "/replaced" if '"replaced"' in s else "",
                           "/addp" if '"fun"' in s else "")


TRUSTED = [
    "Coq 8.16.1 kernel + vm_compute",
    "hand-written model Params.v tied to /repo (a) for ALL dictionaries by the translation obligation: harness/translate_params.py "
    "(trusted, fail-closed symbolic executor over Python's ast, ~450 lines) turns the current source of Structure.update_params, "
    "Model.update_params, Solver.update_params, Solver.add_param and the default collection of Solver.add_structure into Gallina and "
    "coq/templates/ParamsSrcProof.v proves each equal (as finite maps) to rename_shield / model_update / solver_update / the "
    "node_defaults step / collect_defaults of Params.v; (b) by this correspondence run (sampled), which also covers the glue "
    "(who calls these routines with what)",
    "translator's reading of Python dicts: deepcopy/copy/update/pop/clear/items/`in`/item assignment per the language reference; "
    "dictionaries are association lists with distinct keys (hypothesis NoDup keys in the theorems)",
    "harness: probe model (transmission = parameter value), hierarchy/renaming/default generator",
]

if __name__ == "__main__":
    import translate_params
    from common import source_obligation
    main("C05", [ParamStream(), SharedStream()],
         source_obligations=[source_obligation(
             "ParamsSrc_C05", translate_params.translate, "ParamsSrcProof.v",
             ["structure_update_src_is_rename_shield", "model_update_src_is_model_update",
              "solver_update_src_is_solver_update", "add_param_src_spec", "collect_defaults_src_is_collect_defaults"])],
         level_text="props/C05.v; the tie builds hierarchies of solvers whose leaves are probes (transmission = the value of "
                    "their parameter) with random injective renamings incl. swaps and chains in every listing order, defaults at "
                    "model / solver level (before and after add_param), add_param definitions and explicit values, and compares "
                    "the value every leaf actually used with the model. In addition the CURRENT source of the five dictionary routines "
                    "that deliver parameters is translated to Gallina on every run and proved equal to the model for all "
                    "dictionaries (ParamsSrcProof.v).",
         trusted_base=TRUSTED, assumptions=["add_param functions are the four of the harness library"])
