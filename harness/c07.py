"""C07 — after any edit history the solver equals a freshly built one."""
from __future__ import annotations

import json

import wirelib
from common import Stream, main


class HistStream(Stream):
    name = "history"
    imports = "Field Matrix Base Kernel Network Solve Wiring Corr"
    case_type = "wir_case"
    verdict_fn = "wir_verdict"
    shard_size = 15
    invalid_p = 0.0

    def generate(self, rng, tier):
        n = 220 if tier == "quick" else 3000
        out = []
        for i in range(n):
            length = rng.randint(6, 14) if tier == "quick" else rng.randint(8, 40)
            out.append(wirelib.gen_history(rng, nstruct=rng.randint(2, 5), length=length,
                                           invalid_p=self.invalid_p))
        return out

    def run(self, d):
        return wirelib.run_history(d)

    def nontrivial(self, d):
        kinds = {o[0] for o in d["ops"]}
        return "connect" in kinds and ("cut" in kinds or "remove" in kinds) and "solve" in kinds

    def classify(self, d):
        kinds = sorted({o[0] for o in d["ops"]})
        return "+".join(k[:3] for k in kinds)

    def shrink(self, d):
        return wirelib.shrink_history(d)

    def py_repro(self, d):
        return ("import sys; sys.path.insert(0,'/verif/harness'); import wirelib, json\n"
                f"d=json.loads({json.dumps(d)!r})\n"
                "drv=wirelib.Driver(d)\n"
                "for op in d['ops']:\n    ok,m=drv.apply(op); print(op, ok, drv.observe(ok,None)['free'])\n")


class HubStream(HistStream):
    """a structure linked to >= 2 distinct neighbours is cut or removed; the history continues around the freed
    pins (bypass connections, re-adding the structure, exposing, solving)"""
    name = "hub"

    def generate(self, rng, tier):
        return [wirelib.gen_history(rng, nstruct=rng.randint(3, 5), scenario="hub")
                for _ in range(120 if tier == "quick" else 1500)]


class MultiLinkStream(HistStream):
    """a structure linked TWICE to the same neighbour, with a link to a third structure declared in between; the
    neighbour is removed or cut, then the structure itself is cut / removed / re-added, and the circuit solved"""
    name = "multilink"

    def generate(self, rng, tier):
        return [wirelib.gen_history(rng, nstruct=rng.randint(3, 4), scenario="multilink")
                for _ in range(80 if tier == "quick" else 1000)]


class ExposeWireStream(HistStream):
    """a pin is exposed while free, then wired, then the partner is cut: the exposure stays"""
    name = "expose_wire"

    def generate(self, rng, tier):
        return [wirelib.gen_history(rng, nstruct=rng.randint(2, 4), scenario="expose_wire")
                for _ in range(60 if tier == "quick" else 800)]


def m_readd_after_cut(st, d, v):
    return False


TRUSTED = [
    "Coq 8.16.1 kernel + vm_compute (no native_compute)",
    "Bignums/Uint63 primitives for the executed instance BQCf",
    "hand-written model Wiring.v tied to /repo (a) by translation obligations: harness/translate_edit.py executes the current "
    "source of Solver.cut_structure / remove_structure symbolically (loops over copies of the tables become folds) and "
    "coq/templates/EditSrcProof.v proves them equal to Wiring.cut_op / remove_op for every state whose link and exposure "
    "tables have distinct keys (Python dicts; for the link table this is part of the proved invariant Rep); "
    "harness/translate_wiring.py + WiringSrcProof.v do the same for Solver.connect; (b) by this correspondence run (sampled), "
    "harness/translate_struct.py + StructSrcProof.v for Structure.add_conn, Structure.cut_connections and the registration half "
    "of Solver.add_structure; (b) by this correspondence run (sampled), which also covers prune, map_pins, raise_pins, "
    "remove_connections / remove_pin",
    "harness: history generator (its tracker only chooses operations), canonical observation of every table after every call",
]

if __name__ == "__main__":
    import translate_edit
    import translate_wiring
    import translate_struct
    from common import source_obligation
    main("C07", [HistStream(), HubStream(), MultiLinkStream(), ExposeWireStream()],
         source_obligations=[
             source_obligation("EditSrc_C07", translate_edit.translate, "EditSrcProof.v",
                               ["cut_src_is_cut_op", "remove_src_is_remove_op"]),
             source_obligation("WiringSrc_C07", translate_wiring.translate, "WiringSrcProof.v", ["connect_src_is_step"]),
             source_obligation("StructSrc_C07", translate_struct.translate, "StructSrcProof.v",
                               ["add_conn_src_is_add_conn", "cut_connections_src_is_model", "add_structure_src_is_step_add",
                                "maps_all_pins_src_is_step_raise", "remove_connections_src_is_model"])],
         level_text="props/C07.v: the invariant relating the solver's tables (connections, connections_list, free_pins) to the "
                    "present structures is preserved by every operation, hence holds after every history; free pins are exactly "
                    "the unconnected pins of the remaining components. The tie replays random add/connect/cut/remove/re-add/"
                    "map/raise/solve histories on /repo, compares EVERY table (solver and per-structure) after every call with "
                    "the model, and at each solve compares the matrix with the model's exact solve of the remaining circuit.",
         trusted_base=TRUSTED,
         assumptions=["theorems about the solver-level tables; per-structure tables are tied by correspondence",
                      "exposed pins are free pins whenever the history solves (the property's quantifier)"])
