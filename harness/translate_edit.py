"""Translator: Solver.cut_structure and Solver.remove_structure (sol.py) -> Gallina over Wiring.wstate (C07).

Both routines take a structure out of a solver: a presence test, the removal from `structures`, a loop that lets every
neighbour forget (cut) or drop (remove) its links, the reset of the structure's own tables, and three clean-up loops
over COPIES of the solver's tables (links, free pins, exposures) that pop / append / remove entries of the live
tables.  The current source is executed symbolically: tables are the fields of `wstate`, the structure is its number
`id`, a clean-up loop becomes a `fold_left` over the table as it is when the copy is taken, with the tuple of the tables
the body touches as its state.  coq/templates/EditSrcProof.v proves, for every state whose link table and exposure
table have distinct keys (they are Python dicts), that the result is `Wiring.cut_op s id` / `Wiring.remove_op s id` —
the functions the C07 invariants and the C16 atomicity theorems are proved about.

Grammar (fail-closed):
  if structure not in self.structures: raise ...            self.structures.remove(structure)
  for st in structure.connected_to: st.<cut_connections|remove_connections>(structure)
  structure.conn_dict = {} ; structure.connected_to = []
  copy_dic = copy(self.<table>) ; for <pattern> in copy_dic[.items()]: if <test on st/st1/st2 is structure>: <ops>
     ops: self.connections.pop(<key>), self.pin_mapping.pop(<name>), self.free_pins.append(<pin>),
          self.free_pins.remove(<pin>), self.connections_list.remove(<pin>)
  self.monitor_st.pop(structure, None)                      (monitors are outside the modelled state)
"""
from __future__ import annotations

import ast
import hashlib
import os

from translate_params import Unsupported, U, find_fn, strip_doc

FIELDS = ["w_structs", "w_store", "w_conns", "w_clist", "w_free", "w_map"]
TABLE = {"self.connections": "w_conns", "self.free_pins": "w_free", "self.connections_list": "w_clist",
         "self.pin_mapping": "w_map"}


def tr_detach(fn, name, neighbour_method):
    a = [x.arg for x in fn.args.args]
    if a != ["self", "structure"]:
        raise Unsupported(f"{fn.name} arguments {a}")
    body = strip_doc(fn.body)
    t = [ast.unparse(x) for x in body]
    # fixed prefix
    want0 = "if structure not in self.structures:\n    raise "
    if not t[0].startswith(want0) or t[1] != "self.structures.remove(structure)":
        raise Unsupported(f"{fn.name}: presence test / removal from the structure list changed")
    if t[2] != f"for st in structure.connected_to:\n    st.{neighbour_method}(structure)":
        raise Unsupported(f"{fn.name}: the loop over the neighbours changed: {t[2][:120]}")
    if t[3:5] != ["structure.conn_dict = {}", "structure.connected_to = []"]:
        raise Unsupported(f"{fn.name}: the reset of the structure's own tables changed")
    rest = body[5:]
    lets = []
    cur = {k: f"({k} s2)" for k in FIELDS}          # after the neighbour loop and the reset: state s2
    k = 0
    n = 0
    while k < len(rest):
        st = rest[k]
        txt = ast.unparse(st)
        if txt == "self.monitor_st.pop(structure, None)":
            k += 1
            continue
        # copy_dic = copy(self.X)
        if not (isinstance(st, ast.Assign) and isinstance(st.value, ast.Call) and ast.unparse(st.value.func) == "copy"
                and len(st.value.args) == 1 and ast.unparse(st.value.args[0]) in TABLE and k + 1 < len(rest)
                and isinstance(rest[k + 1], ast.For)):
            raise U(st, f"{fn.name}: unsupported statement")
        cp = ast.unparse(st.targets[0])
        src_tab = TABLE[ast.unparse(st.value.args[0])]
        loop = rest[k + 1]
        it = ast.unparse(loop.iter)
        is_dict = src_tab in ("w_conns", "w_map")
        if it != (cp + ".items()" if is_dict else cp) or loop.orelse or len(loop.body) != 1 or not isinstance(loop.body[0], ast.If) \
                or loop.body[0].orelse:
            raise U(loop, f"{fn.name}: clean-up loop shape")
        tg = ast.unparse(loop.target)
        n += 1
        itv = f"it{n}"
        # bind the pattern
        if src_tab == "w_conns":
            if tg != "((st1, pin1), (st2, pin2))":
                raise U(loop, "pattern of the link loop")
            env = {"(st1, pin1)": f"(fst {itv})", "(st2, pin2)": f"(snd {itv})"}
            tests = {"st1 is structure or st2 is structure": f"(conn_touches id {itv})",
                     "st2 is structure or st1 is structure": f"(conn_touches id {itv})"}
        elif src_tab == "w_free":
            if tg != "(st, pin)":
                raise U(loop, "pattern of the free-pin loop")
            env = {"(st, pin)": itv}
            tests = {"st is structure": f"(Nat.eqb (fst {itv}) id)"}
        else:
            if tg != "(pinname, (st, pin))":
                raise U(loop, "pattern of the exposure loop")
            env = {"pinname": f"(fst {itv})", "(st, pin)": f"(snd {itv})"}
            tests = {"st is structure": f"(Nat.eqb (fst (snd {itv})) id)"}
        test = ast.unparse(loop.body[0].test)
        if test not in tests:
            raise U(loop.body[0], f"{fn.name}: test of the clean-up loop")
        cond = tests[test]
        # symbolic ops on the touched tables
        touched = []
        state = {}
        for op in loop.body[0].body:
            if not (isinstance(op, ast.Expr) and isinstance(op.value, ast.Call) and isinstance(op.value.func, ast.Attribute)
                    and ast.unparse(op.value.func.value) in TABLE and len(op.value.args) == 1 and not op.value.keywords):
                raise U(op, f"{fn.name}: unsupported operation in a clean-up loop")
            tab = TABLE[ast.unparse(op.value.func.value)]
            meth = op.value.func.attr
            arg = ast.unparse(op.value.args[0])
            if arg not in env:
                raise U(op, "argument is not part of the loop pattern")
            if tab not in touched:
                touched.append(tab)
                state[tab] = f"v_{tab}"
            v = state[tab]
            if meth == "pop" and tab == "w_conns":
                state[tab] = f"(dpop spin_eqb {env[arg]} {v})"
            elif meth == "pop" and tab == "w_map":
                state[tab] = f"(dpop Nat.eqb {env[arg]} {v})"
            elif meth == "append" and tab in ("w_free", "w_clist"):
                state[tab] = f"({v} ++ [{env[arg]}])"
            elif meth == "remove" and tab in ("w_free", "w_clist"):
                state[tab] = f"(remove1 {env[arg]} {v})"
            else:
                raise U(op, f"{fn.name}: {meth} on {tab}")
        pat = "'(" + ", ".join(f"v_{tb}" for tb in touched) + ")" if len(touched) > 1 else f"v_{touched[0]}"
        outs = "(" + ", ".join(state[tb] for tb in touched) + ")" if len(touched) > 1 else state[touched[0]]
        keep = "(" + ", ".join(f"v_{tb}" for tb in touched) + ")" if len(touched) > 1 else f"v_{touched[0]}"
        init = "(" + ", ".join(cur[tb] for tb in touched) + ")" if len(touched) > 1 else cur[touched[0]]
        fold = f"(fold_left (fun {pat} {itv} => if {cond} then {outs} else {keep}) {cur[src_tab]} {init})"
        names = [f"r{n}_{tb}" for tb in touched]
        if len(touched) > 1:
            lets.append(f"let '({', '.join(names)}) := {fold} in")
        else:
            lets.append(f"let {names[0]} := {fold} in")
        for tb, nm in zip(touched, names):
            cur[tb] = nm
        k += 2
    final = "{| " + "; ".join(f"{f} := {cur[f]}" for f in FIELDS) + " |}"
    f_model = "cut_connections" if neighbour_method == "cut_connections" else "remove_connections"
    return (f"Definition {name} (s : wstate) (id : nat) : wstate * option err :=\n"
            "  if negb (nmem id (w_structs s)) then (s, Some ENotPresent) else\n"
            "  let s0 := {| w_structs := nremove1 id (w_structs s); w_store := w_store s; w_conns := w_conns s;\n"
            "               w_clist := w_clist s; w_free := w_free s; w_map := w_map s |} in\n"
            f"  match for_neighbours {f_model} id (s_to (getst s0 id)) s0 with\n"
            "  | (s1, Some e) => (s1, Some e)\n"
            "  | (s1, None) =>\n"
            "      let me := getst s1 id in\n"
            "      let s2 := setst s1 id {| s_pins := s_pins me; s_conn := []; s_to := [] |} in\n      "
            + "\n      ".join(lets) + f"\n      ({final}, None)\n  end.\n")


def translate(repo: str) -> str:
    p = os.path.join(repo, "lekkersim", "sol.py")
    with open(p) as fh:
        src = fh.read()
    tree = ast.parse(src)
    out = [f"(* GENERATED by harness/translate_edit.py from {p}",
           f"   sha256 {hashlib.sha256(src.encode()).hexdigest()} — do not edit *)",
           "From Coq Require Import List Arith Bool Lia.",
           "From Lekkersim Require Import Field Matrix Base Kernel Network Solve Wiring.",
           "Import ListNotations.", ""]
    out.append(tr_detach(find_fn(tree, "Solver", "cut_structure"), "cut_src", "cut_connections"))
    out.append(tr_detach(find_fn(tree, "Solver", "remove_structure"), "remove_src", "remove_connections"))
    return "\n".join(out) + "\n"


if __name__ == "__main__":
    import sys
    print(translate(sys.argv[1] if len(sys.argv) > 1 else "/repo"))
