"""Translator: the sweep bookkeeping of Solver.solve and Model.solve (C04) -> Gallina.

    Solver.solve  (sol.py)    the two loops that find the common sweep length and broadcast length-1 values
                              (from `ns = 1` to the loop that rewrites self.param_dic)
    Model.solve   (model.py)  the loop that finds the common length and the per-point loop that assembles the
                              parameter dictionary create_S() sees at each sweep point

The current source is read with `ast` and executed symbolically (same scheme as translate_params.py): loops become
`fold_left` over the items / over `seq 0 ns` with the assigned variables as state, `raise` sets a sticky error flag that
turns the result into `Err EShape`, `continue` skips the rest of the body.  A parameter value is a list of rationals
(np.reshape(v, -1) of a scalar is the one-element list; the harness ships exactly that).  The emitted definitions

    solver_normalise_src : sdict -> result (nat * sdict)
    model_sweep_src f    : dict -> sdict -> result (list A)          (f = create_S as a function of the working dictionary)

are followed by coq/templates/SweepSrcProof.v, which proves them equal to Sweep.normalise / Sweep.sweep_solve for all
assignments with distinct names.  Fail-closed: anything outside the grammar raises `Unsupported`.
"""
from __future__ import annotations

import ast
import hashlib
import os

from translate_params import Unsupported, U, find_fn, strip_doc


class S:
    counter = 0

    def __init__(self, env, dicts):
        self.env = dict(env)          # python lvalue text -> (term, type); types: nat, sdict, dict, list, val, key, pts
        self.err = "false"
        self.fwd = {}                 # (dict text, key term) -> list term   (value just stored under that key)
        self.lets = []                # let-bindings of this scope (results of loops); None inside a branch

    def fork(self):
        o = S(self.env, None)
        o.err = self.err
        o.fwd = dict(self.fwd)
        o.lets = None
        o.cur = dict(getattr(self, "cur", {}))
        return o

    # ----- expressions
    def nat(self, n):
        if isinstance(n, ast.Constant) and isinstance(n.value, int):
            return f"{n.value}%nat"
        if isinstance(n, ast.Name) and n.id in self.env and self.env[n.id][1] == "nat":
            return self.env[n.id][0]
        if isinstance(n, ast.Call) and isinstance(n.func, ast.Name) and n.func.id == "len" and len(n.args) == 1:
            return f"(List.length {self.lst(n.args[0])})"
        raise U(n, "not a natural number")

    def lst(self, n):
        if isinstance(n, ast.Name) and n.id in self.env and self.env[n.id][1] == "list":
            return self.env[n.id][0]
        if isinstance(n, ast.Subscript):
            d = ast.unparse(n.value)
            if d in self.env and self.env[d][1] == "sdict":
                k = self.key(n.slice)
                if (d, k) in self.fwd:
                    return self.fwd[(d, k)]
                if (d, k) in getattr(self, "cur", {}):
                    return self.cur[(d, k)]
            raise U(n, "read of a list that is not the current item")
        if isinstance(n, ast.Call) and ast.unparse(n.func) == "np.reshape" and len(n.args) == 2 and ast.unparse(n.args[1]) == "-1":
            return self.lst(n.args[0])
        if isinstance(n, ast.Call) and ast.unparse(n.func) == "np.array" and len(n.args) == 1 \
                and isinstance(n.args[0], ast.ListComp):
            lc = n.args[0]
            g = lc.generators[0]
            if len(lc.generators) != 1 or g.ifs or not (isinstance(g.iter, ast.Call) and ast.unparse(g.iter.func) == "range"
                                                        and len(g.iter.args) == 1):
                raise U(n, "list comprehension")
            e = lc.elt
            if not (isinstance(e, ast.Subscript) and ast.unparse(e.slice) == "0"):
                raise U(n, "broadcast must repeat element 0")
            return f"(repeat (hd 0%Q {self.lst(e.value)}) {self.nat(g.iter.args[0])})"
        if isinstance(n, ast.IfExp):
            return f"(if {self.cond(n.test)} then {self.lst(n.body)} else {self.lst(n.orelse)})"
        raise U(n, "not a list of values")

    def val(self, n):
        if isinstance(n, ast.Subscript):
            l = self.lst(n.value)
            i = n.slice
            if isinstance(i, ast.Constant) and i.value == 0:
                return f"(hd 0%Q {l})"
            return f"(nth {self.nat(i)} {l} 0%Q)"
        if isinstance(n, ast.IfExp):
            return f"(if {self.cond(n.test)} then {self.val(n.body)} else {self.val(n.orelse)})"
        raise U(n, "not a value")

    def key(self, n):
        if isinstance(n, ast.Name) and n.id in self.env and self.env[n.id][1] == "key":
            return self.env[n.id][0]
        raise U(n, "not a parameter name")

    def cond(self, n):
        if isinstance(n, ast.Compare) and len(n.ops) == 1 and isinstance(n.ops[0], (ast.Eq, ast.NotEq)):
            b = f"(Nat.eqb {self.nat(n.left)} {self.nat(n.comparators[0])})"
            return b if isinstance(n.ops[0], ast.Eq) else f"(negb {b})"
        raise U(n, "unsupported condition")

    # ----- statements
    def assigned(self, stmts):
        out = []
        for st in stmts:
            for n in ast.walk(st):
                t = None
                if isinstance(n, ast.Assign):
                    tg = n.targets[0]
                    t = ast.unparse(tg.value) if isinstance(tg, ast.Subscript) else ast.unparse(tg)
                elif isinstance(n, ast.Call) and isinstance(n.func, ast.Attribute) and n.func.attr in ("update", "append"):
                    t = ast.unparse(n.func.value)
                elif isinstance(n, ast.AugAssign):
                    raise U(n, "augmented assignment")
                if t is not None and t not in out:
                    out.append(t)
        return out

    def merge(self, c, a, b):
        for k in list(dict.fromkeys(list(a.env) + list(b.env))):
            ta, tb = a.env.get(k, self.env.get(k)), b.env.get(k, self.env.get(k))
            if ta is None or tb is None:
                continue
            self.env[k] = ta if ta == tb else (f"(if {c} then {ta[0]} else {tb[0]})", ta[1])
        self.err = a.err if a.err == b.err else f"(if {c} then {a.err} else {b.err})"
        self.fwd = {k: v for k, v in a.fwd.items() if b.fwd.get(k) == v}

    def run(self, stmts):
        for i, st in enumerate(stmts):
            if isinstance(st, ast.If):
                c = self.cond(st.test)
                if any(isinstance(x, ast.Continue) for x in st.body):
                    if len(st.body) != 1 or st.orelse:
                        raise U(st, "continue must be alone in its branch")
                    a, b = self.fork(), self.fork()
                    b.run(stmts[i + 1:])
                    self.merge(c, a, b)
                    return
                a, b = self.fork(), self.fork()
                a.run(st.body)
                b.run(st.orelse)
                self.merge(c, a, b)
                continue
            if isinstance(st, ast.Raise):
                self.err = "true"
                continue
            if isinstance(st, ast.For):
                self.loop(st)
                continue
            if isinstance(st, ast.Assign) and len(st.targets) == 1:
                tg = st.targets[0]
                if isinstance(tg, ast.Subscript):
                    d = ast.unparse(tg.value)
                    if d not in self.env:
                        raise U(st, "unknown dictionary")
                    dt, ty = self.env[d]
                    k = self.key(tg.slice)
                    if ty == "sdict":
                        v = self.lst(st.value)
                        self.env[d] = (f"(sset {k} {v} {dt})", "sdict")
                        self.fwd[(d, k)] = v
                    elif ty == "dict":
                        self.env[d] = (f"(pset {k} {self.val(st.value)} {dt})", "dict")
                    else:
                        raise U(st, "item assignment")
                    continue
                name = ast.unparse(tg)
                v = st.value
                if isinstance(v, ast.Dict) and not v.keys:
                    self.env[name] = ("dnil", "dict")
                elif isinstance(v, ast.List) and not v.elts:
                    self.env[name] = ("[]", "pts")
                else:
                    self.env[name] = (self.nat(v), "nat")
                continue
            if isinstance(st, ast.Expr) and isinstance(st.value, ast.Call) and isinstance(st.value.func, ast.Attribute):
                c = st.value
                d = ast.unparse(c.func.value)
                if c.func.attr == "update" and d in self.env and self.env[d][1] == "dict" and len(c.args) == 1:
                    a = ast.unparse(c.args[0])
                    if a in self.env and self.env[a][1] == "dict":
                        self.env[d] = (f"(pupdate {self.env[d][0]} {self.env[a][0]})", "dict")
                        continue
                if c.func.attr == "append" and d in self.env and self.env[d][1] == "pts" and len(c.args) == 1:
                    # S_list.append(np.array(self.create_S())): the matrix of this point, a function of the working dictionary
                    if ast.unparse(c.args[0]) != "np.array(self.create_S())":
                        raise U(st, "only the matrix of the current point may be collected")
                    self.env[d] = (f"({self.env[d][0]} ++ [f {self.env['self.param_dic'][0]}])", "pts")
                    continue
            raise U(st, "unsupported statement")

    def loop(self, st):
        if st.orelse:
            raise U(st, "for-else")
        S.counter += 1
        n = S.counter
        it = st.iter
        if self.lets is None:
            raise U(st, "loop inside a branch")
        body = self.fork()
        body.err = "false"
        body.fwd = {}
        body.cur = {}
        body.lets = []
        if isinstance(it, ast.Call) and ast.unparse(it.func) == "range" and len(it.args) == 1:
            coll = f"(seq 0 {self.nat(it.args[0])})"
            body.env[ast.unparse(st.target)] = (f"it{n}", "nat")
        elif isinstance(it, ast.Call) and isinstance(it.func, ast.Attribute) and it.func.attr == "items" \
                and ast.unparse(it.func.value) in self.env and self.env[ast.unparse(it.func.value)][1] == "sdict":
            coll = self.env[ast.unparse(it.func.value)][0]
            if not (isinstance(st.target, ast.Tuple) and len(st.target.elts) == 2):
                raise U(st, "loop target")
            k, v = [ast.unparse(e) for e in st.target.elts]
            body.env[k] = (f"(fst it{n})", "key")
            body.env[v] = (f"(snd it{n})", "list")
        elif isinstance(it, ast.Name) and it.id in self.env and self.env[it.id][1] == "sdict":
            # for name in kargs: kargs[name] is the item's value (until it is re-assigned)
            coll = self.env[it.id][0]
            body.env[ast.unparse(st.target)] = (f"(fst it{n})", "key")
            body.cur[(it.id, f"(fst it{n})")] = f"(snd it{n})"
        else:
            raise U(st, "iteration")
        state = [v for v in self.assigned(st.body) if v in self.env]
        if not state:
            raise U(st, "loop without effect")
        names = []
        for k, v in enumerate(state):
            nm = f"s{n}_{k}"
            names.append(nm)
            body.env[v] = (nm, self.env[v][1])
        body.run(st.body)
        outs = [body.env[v][0] for v in state] + [f"(e{n} || {body.err})"]
        init = [self.env[v][0] for v in state] + [self.err]
        pat = "'(" + ", ".join(names + [f"e{n}"]) + ")"
        inner = " ".join(body.lets)
        fold = f"(fold_left (fun {pat} it{n} => {inner} ({', '.join(outs)})) {coll} ({', '.join(init)}))"
        rn = [f"r{n}_{k}" for k in range(len(state))]
        self.lets.append(f"let '({', '.join(rn + [f're{n}'])}) := {fold} in")
        for v, r in zip(state, rn):
            self.env[v] = (r, self.env[v][1])
        self.err = f"re{n}"
        self.fwd = {}


def fragment(body, start_pred, end_pred):
    i = next((k for k, st in enumerate(body) if start_pred(st)), None)
    if i is None:
        raise Unsupported("start of the sweep bookkeeping not found")
    j = next((k for k in range(len(body) - 1, i, -1) if end_pred(body[k])), None)
    if j is None:
        raise Unsupported("end of the sweep bookkeeping not found")
    return body[i:j + 1]


def is_ns1(st):
    return isinstance(st, ast.Assign) and ast.unparse(st) == "ns = 1"


def tr_solver(fn):
    body = strip_doc(fn.body)
    # the fragment: `ns = 1` ... the last loop over self.param_dic.items() before the structures are updated
    frag = fragment(body, is_ns1,
                    lambda st: isinstance(st, ast.For) and ast.unparse(st.iter) == "self.param_dic.items()")
    # what follows must hand self.param_dic to the structures
    k = body.index(frag[-1])
    nxt = ast.unparse(body[k + 1]) if k + 1 < len(body) else ""
    if nxt != "for st in self.structures:\n    st.update_params(self.param_dic)":
        raise Unsupported("Solver.solve: the normalised dictionary is not handed to the structures right after the loops")
    s = S({"self.param_dic": ("d", "sdict")}, None)
    s.run(frag)
    return ("Definition solver_normalise_src (d : sdict) : result (nat * sdict) :=\n  %s\n"
            "  if %s then Err EShape else Ok (%s, %s).\n"
            % ("\n  ".join(s.lets), s.err, s.env["ns"][0], s.env["self.param_dic"][0]))


def tr_model(fn):
    body = strip_doc(fn.body)
    frag = fragment(body, is_ns1, lambda st: isinstance(st, ast.For) and ast.unparse(st.iter) == "range(ns)")
    k = body.index(frag[0])
    pre = [ast.unparse(x) for x in body[:k] if not (isinstance(x, ast.Expr) and ast.unparse(x).startswith("logger."))]
    if pre != ["self.param_dic.clear()", "self.param_dic.update(self.default_params)"]:
        raise Unsupported("Model.solve: the working dictionary is not reset to the defaults first: " + "; ".join(pre))
    if not fn.args.kwarg or fn.args.kwarg.arg != "kargs":
        raise Unsupported("Model.solve signature")
    s = S({"kargs": ("kargs", "sdict"), "self.param_dic": ("(pupdate dnil defaults)", "dict")}, None)
    s.run(frag)
    return ("Definition model_sweep_src (defaults : dict) (kargs : sdict) : result (list A) :=\n  %s\n"
            "  if %s then Err EShape else Ok %s.\n" % ("\n  ".join(s.lets), s.err, s.env["S_list"][0]))


def translate(repo: str) -> str:
    S.counter = 0
    srcs = {}
    for f in ("sol.py", "model.py"):
        with open(os.path.join(repo, "lekkersim", f)) as fh:
            srcs[f] = fh.read()
    h = hashlib.sha256((srcs["model.py"] + srcs["sol.py"]).encode()).hexdigest()
    out = [f"(* GENERATED by harness/translate_sweep.py from {repo}/lekkersim/{{sol,model}}.py",
           f"   sha256 {h} — do not edit *)",
           "From Coq Require Import List Arith Lia Bool QArith.",
           "From Lekkersim Require Import Base Params Sweep.",
           "Import ListNotations.",
           "(* item assignment in a dictionary of lists *)",
           "Fixpoint sset (k : nat) (v : list val) (d : sdict) : sdict :=",
           "  match d with",
           "  | [] => [(k, v)]",
           "  | (k', v') :: r => if Nat.eqb k' k then (k, v) :: r else (k', v') :: sset k v r",
           "  end.",
           "Definition dnil : dict := nil.",
           "Section SweepSrc.",
           "Context {A : Type}.",
           "Variable f : dict -> A.", ""]
    out.append(tr_solver(find_fn(ast.parse(srcs["sol.py"]), "Solver", "solve")))
    out.append(tr_model(find_fn(ast.parse(srcs["model.py"]), "Model", "solve")))
    out.append("End SweepSrc.")
    return "\n".join(out) + "\n"


if __name__ == "__main__":
    import sys
    print(translate(sys.argv[1] if len(sys.argv) > 1 else "/repo"))
