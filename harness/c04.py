"""C04 — a parameter sweep equals the stack of the individual scalar solves."""
from __future__ import annotations

import copy
import json
import math

import numpy as np

import netlib
import paramlib
from common import Stream, cf, clist, cmat, cnat, cvec, main
from paramlib import lk, Pin


def sdict_lit(kw):
    return clist("(%s, %s)" % (cnat(k), clist(paramlib.qlit(v) for v in vs)) for k, vs in kw)


class SweepStream(Stream):
    """solver hierarchies with probe leaves, scalar / length-1 / length-n values"""
    name = "hier_sweep"
    imports = "Field Matrix Base Kernel Network Solve Params Sweep Corr"
    case_type = "swp_case"
    verdict_fn = "swp_verdict"
    shard_size = 40

    def generate(self, rng, tier):
        n = 200 if tier == "quick" else 3000
        out = []
        while len(out) < n:
            t = paramlib.gen_tree(rng, rng.choice([1, 2, 2, 3]), spy_p=0.3, twins=True, replace=True)
            if "children" not in t:
                continue
            paramlib.sanitize(t)
            ns = rng.randint(2, 5)
            kw = []
            # a name re-defined by add_param at the top level is no longer a parameter of the solver
            # (its value is computed): such names are not swept
            hidden = {a["name"] for a in t["adds"]}
            for k in rng.sample([x for x in paramlib.POOL + [6, 7] if x not in hidden], rng.randint(1, 4)):
                r = rng.random()
                if r < 0.25:
                    kw.append([k, [paramlib.rq(rng)], "scalar"])
                elif r < 0.45:
                    kw.append([k, [paramlib.rq(rng)], "len1"])
                else:
                    vs = [paramlib.rq(rng) for _ in range(ns)]
                    if ns >= 3 and rng.random() < 0.35:
                        vs[-1] = vs[0]        # a closed ramp: the sweep ends where it started, the interior differs
                        if vs[1] == vs[0]:
                            vs[1] = vs[0] + 0.25
                    kw.append([k, vs, "array"])
            if rng.random() < 0.12:     # malformed: a second, different length > 1
                kw.append([8, [paramlib.rq(rng) for _ in range(ns + 1)], "array"])
            out.append({"tree": t, "kw": kw})
        return out

    def run(self, d):
        try:
            S, pairs = paramlib.build(copy.deepcopy(d["tree"]), [0])
            kwargs = {}
            # arguments of a top-level add_param definition with several arguments reach the USER's function as given
            # (before the solver flattens them): that function is only asked to combine arrays of one shape
            multi = {a for ad in d["tree"].get("adds", []) if len(ad["args"]) >= 2 for a, _ in ad["args"]}
            for k, vs, kind in d["kw"]:
                kwargs[paramlib.pn(k)] = vs[0] if kind == "scalar" else np.array(vs)
                if kind == "array" and len(vs) % 2 == 0 and len(vs) >= 4 and k % 2 == 0 and k not in multi:
                    # a 2-D grid held in column-major memory order: sweep index k is still the k-th value in row-major
                    # (logical) order, as for np.reshape(v, -1)
                    kwargs[paramlib.pn(k)] = np.asfortranarray(np.array(vs).reshape(2, len(vs) // 2))
            mod = S.solve(**kwargs)
            Sm = np.asarray(mod.S)
            pts = []
            for i in range(Sm.shape[0]):
                pts.append(cvec([Sm[i, mod.pin_dic[Pin(b)], mod.pin_dic[Pin(a)]] for a, b in pairs], cf))
            obs = "Obs " + clist(pts)
        except Exception:
            obs = "Raised"
        return "{| sw_tree := %s; sw_kw := %s; sw_obs := %s |}" % (
            paramlib.tree_lit(copy.deepcopy(d["tree"])), sdict_lit([(k, vs) for k, vs, _ in d["kw"]]), obs)

    def nontrivial(self, d):
        return any(kind == "array" for _, _, kind in d["kw"])

    def classify(self, d):
        kinds = sorted({kind for _, _, kind in d["kw"]})
        return "+".join(kinds) + ("/bad" if any(k == 8 for k, _, _ in d["kw"]) else "")

    def shrink(self, d):
        out = []
        for i in range(len(d["kw"])):
            e = copy.deepcopy(d)
            del e["kw"][i]
            out.append(e)
        return out


def neff(wl=1.0, R=None, w=None, pol=None, PS=0.0, **kw):
    # depends on EVERY documented argument (wl, R, w, pol)
    return 1.5 + 0.1 * wl + 0.03 * (R or 0.0) + 0.02 * (w or 0.0) + 0.01 * (pol or 0.0)


def uw_index(wl=1.0, T=0.0, **kw):
    return 2.0 + 0.05 * wl + 0.01 * T


BLOCKS = {
    "Waveguide": (lambda: lk.Waveguide(3.25, n=1.5), ["wl"]),
    "Waveguide_lossy": (lambda: lk.Waveguide(2.0, n=1.5 + 0.01j), ["wl"]),
    "UserWaveguide": (lambda: lk.UserWaveguide(2.5, uw_index, {"wl": 1.0, "T": 1.0}), ["wl", "T"]),
    "UserWaveguide_modes": (lambda: lk.UserWaveguide(2.5, uw_index, {"wl": 1.0, "T": 1.0},
                                                     {"te": {}, "tm": {"T": 3.0}}), ["wl", "T"]),
    "UserWaveguide_modes_rev": (lambda: lk.UserWaveguide(2.5, uw_index, {"wl": 1.0, "T": 1.0},
                                                         {"tm": {"T": 3.0}, "te": {}}), ["wl", "T"]),
    "UserWaveguide_modes_keys": (lambda: lk.UserWaveguide(2.5, uw_index, {"wl": 1.0},
                                                          {"a": {"T": 2.0}, "b": {"q": 1.0}, "c": {}}), ["wl"]),
    "BeamSplitter": (lambda: lk.BeamSplitter(0.3), ["wl"]),
    "Splitter1x2": (lambda: lk.Splitter1x2(), ["wl"]),
    "Splitter1x2Gen": (lambda: lk.Splitter1x2Gen(0.1, 0.25), ["wl"]),
    "PhaseShifter": (lambda: lk.PhaseShifter(), ["PS"]),
    "PushPullPhaseShifter": (lambda: lk.PushPullPhaseShifter(), ["PS"]),
    "PolRot": (lambda: lk.PolRot(), ["angle"]),
    "PolRot_fixed": (lambda: lk.PolRot(0.25), ["wl"]),
    "Attenuator": (lambda: lk.Attenuator(3.0), ["wl"]),
    "LinearAttenuator": (lambda: lk.LinearAttenuator(0.5), ["wl"]),
    "Mirror": (lambda: lk.Mirror(0.3, 0.1), ["wl"]),
    "PerfectMirror": (lambda: lk.PerfectMirror(0.2), ["wl"]),
    "FPR_NxM": (lambda: lk.FPR_NxM(2, 3), ["wl"]),
    "Ring": (lambda: lk.Ring(10.0, 1.5, 0.9, 0.8), ["wl"]),
    "TH_PhaseShifter": (lambda: lk.TH_PhaseShifter(3.0, neff, wl=1.0), ["wl", "PS", "pol", "w", "R"]),
    "FPR": (lambda: lk.FPR(2, 3, 50.0, 2.0, 2.0), ["wl"]),
    "CWA": (lambda: lk.CWA(3, 10.0), ["wl"]),
    "FPRGaussian": (lambda: lk.FPRGaussian(2, 2, 30.0, 2.0, 2.0, 1.0, 1.0, 2.0), ["wl"]),
    "FPRGaussian_callable": (lambda: lk.FPRGaussian(2, 2, 30.0, 2.0, 2.0, 1.0, 1.0, (lambda lam: 2.0 + 0.125 * lam)), ["wl"]),
    "Waveguide_expanded": (lambda: lk.Waveguide(3.25, n=1.5).expand_mode(["te", "tm"]), ["wl"]),
    "PhaseShifter_expanded": (lambda: lk.PhaseShifter().expand_mode(["a", "b", "c"]), ["PS"]),
}


class BlockStream(Stream):
    """every bare library block swept over each of its parameters, scalar solves as oracle"""
    name = "blocks"
    imports = "Field Matrix Base Kernel Network Solve Params Sweep Corr"
    case_type = "blk_case"
    verdict_fn = "blk_verdict"
    shard_size = 12

    def generate(self, rng, tier):
        out = []
        for name, (_, params) in BLOCKS.items():
            for p in params:
                reps = 1 if (tier == "quick" or name.startswith("FPRGaussian")) else 4
                for _ in range(reps):
                    n = 2 if name.startswith("FPRGaussian") else rng.randint(2, 5)
                    vals = [round(1.0 + rng.randint(0, 80) / 64.0, 6) for _ in range(n)]
                    out.append({"block": name, "param": p, "vals": vals,
                                "in_solver": rng.random() < 0.4})
                if p == "PS":
                    # complex parameter values (a lossy phase section): scalars and arrays must be treated alike
                    n = rng.randint(2, 4)
                    for ins in (True, False):
                        out.append({"block": name, "param": p, "vals": [],
                                    "cvals": [[round(rng.randint(0, 64) / 64.0, 6), round(rng.randint(1, 32) / 64.0, 6)]
                                              for _ in range(n)], "in_solver": ins})
                if p == "wl":
                    # a fine sweep: consecutive values a few parts per million apart (and one exact repeat)
                    v0 = round(1.0 + rng.randint(0, 80) / 64.0, 6)
                    fine = [v0, v0 + 2e-6, v0 + 3e-6, v0 + 3e-6, v0 + 1e-3]
                    out.append({"block": name, "param": p, "vals": fine[:2] if name.startswith("FPRGaussian") else fine,
                                "in_solver": rng.random() < 0.4})
        return out

    def _obj(self, d):
        m = BLOCKS[d["block"]][0]()
        if not d["in_solver"]:
            return m
        with lk.Solver() as S:
            m.put()
            lk.raise_pins()
        return S

    def run(self, d):
        def mat(mod, k):
            names = sorted(p.name for p in mod.pin_dic)
            return cmat(netlib.observe_expo(mod, names, k), cf)
        vals = [complex(*v) for v in d["cvals"]] if d.get("cvals") else d["vals"]
        scal = []
        for v in vals:
            try:
                mod = self._obj(d).solve(**{d["param"]: v})
                scal.append("Obs " + mat(mod, 0))
            except Exception:
                scal.append("Raised")
        try:
            mod = self._obj(d).solve(**{d["param"]: np.array(vals)})
            if np.asarray(mod.S).shape[0] != len(vals):
                raise ValueError("sweep length")
            sw = "Obs " + clist(mat(mod, k) for k in range(len(vals)))
        except Exception:
            sw = "Raised"
        return "{| bk_scalar := %s; bk_sweep := %s |}" % (clist(scal), sw)

    def classify(self, d):
        return d["block"]

    def py_repro(self, d):
        return ("import sys; sys.path.insert(0,'/verif/harness'); import c04, numpy as np\n"
                f"d={d!r}\n"
                "s=c04.BlockStream(); print(s._obj(d).solve(**{d['param']: np.array(d['vals'])}).S)\n"
                "print([s._obj(d).solve(**{d['param']: v}).S for v in d['vals']])\n")


class DerivedStream(Stream):
    """a solver parameter defined through add_param by a function whose result TYPE depends on the value (real for some
    sweep points, complex for others): sweep index k is still the scalar solve of the k-th value"""
    name = "derived"
    imports = "Field Matrix Base Kernel Network Solve Params Sweep Corr"
    case_type = "blk_case"
    verdict_fn = "blk_verdict"
    shard_size = 12

    def generate(self, rng, tier):
        out = []
        for _ in range(12 if tier == "quick" else 120):
            n = rng.randint(3, 5)
            xs = [rng.choice([0.25, 1.0, 2.25, 0.5625]) for _ in range(n)]
            for k in rng.sample(range(1, n), rng.randint(1, n - 1)):
                xs[k] = -xs[k]                     # the first point is real, later ones have an imaginary root
            out.append({"xs": xs, "nested": rng.random() < 0.4, "fn": rng.choice(["sqrt", "sqrt_half"])})
        return out

    @staticmethod
    def _solver(d):
        f = (lambda x=1.0: np.emath.sqrt(x)) if d["fn"] == "sqrt" else (lambda x=1.0: 0.5 * np.emath.sqrt(x) + 0.25)
        with lk.Solver() as S:
            ps = lk.PhaseShifter().put()
            wg = lk.Waveguide(2.0, 1.5).put("a0", ps.pin["b0"])
            lk.Pin("in").put(ps.pin["a0"])
            lk.Pin("out").put(wg.pin["b0"])
            lk.add_param("PS", f, default={"x": 1.0})
        if not d["nested"]:
            return S
        with lk.Solver() as T:
            st = S.put()
            lk.raise_pins()
        return T

    def run(self, d):
        def mat(mod, k):
            return cmat(netlib.observe_expo(mod, ["in", "out"], k), cf)
        scal = []
        for x in d["xs"]:
            try:
                scal.append("Obs " + mat(self._solver(d).solve(x=x, wl=1.25), 0))
            except Exception:
                scal.append("Raised")
        try:
            mod = self._solver(d).solve(x=np.array(d["xs"]), wl=1.25)
            sw = "Obs " + clist(mat(mod, k) for k in range(len(d["xs"])))
        except Exception:
            sw = "Raised"
        return "{| bk_scalar := %s; bk_sweep := %s |}" % (clist(scal), sw)

    def nontrivial(self, d):
        return True

    def classify(self, d):
        return d["fn"] + ("/nested" if d["nested"] else "")


class Block2Stream(Stream):
    """every bare library block with SEVERAL parameters assigned at once: scalar / length-1 / length-n values (and a
    second, different length > 1, which must be rejected); the model does the broadcast, the scalar solves of /repo are
    the oracle table"""
    name = "blocks_mixed"
    imports = "Field Matrix Base Kernel Network Solve Params Sweep Corr"
    case_type = "blk2_case"
    verdict_fn = "blk2_verdict"
    shard_size = 12

    def generate(self, rng, tier):
        out = []
        reps = 1 if tier == "quick" else 4
        for name, (_, params) in BLOCKS.items():
            if name.startswith("FPRGaussian") and tier == "quick":
                continue
            for _ in range(reps):
                n = 2 if name.startswith("FPRGaussian") else rng.randint(2, 4)
                names = list(params) + ["zz%d" % i for i in range(rng.randint(1, 2))]   # zz*: names the block ignores
                rng.shuffle(names)
                kw = []
                for nm in names:
                    r = rng.random()
                    kind = "scalar" if r < 0.3 else "len1" if r < 0.5 else "array"
                    m = 1 if kind != "array" else n
                    kw.append([nm, [round(1.0 + rng.randint(0, 80) / 64.0, 6) for _ in range(m)], kind])
                if not any(k == "array" for _, _, k in kw):
                    kw[0] = [kw[0][0], [round(1.0 + rng.randint(0, 80) / 64.0, 6) for _ in range(n)], "array"]
                if rng.random() < 0.15:
                    kw.append(["bad", [1.0] * (n + 1), "array"])
                out.append({"block": name, "kw": kw, "in_solver": rng.random() < 0.3})
        return out

    _obj = BlockStream._obj

    def run(self, d):
        def mat(mod, k):
            names = sorted(p.name for p in mod.pin_dic)
            return cmat(netlib.observe_expo(mod, names, k), cf)
        ids = {nm: i for i, (nm, _, _) in enumerate(d["kw"])}
        lens = {len(vs) for _, vs, _ in d["kw"]} - {1}
        oracle = []
        if len(lens) == 1:          # harness-side enumeration of the points (the model recomputes them and looks them up)
            n = lens.pop()
            for k in range(n):
                pt = [(nm, vs[0] if len(vs) == 1 else vs[k]) for nm, vs, _ in d["kw"]]
                try:
                    mod = self._obj(d).solve(**dict(pt))
                    o = "Obs " + mat(mod, 0)
                except Exception:
                    o = "Raised"
                oracle.append("(%s, %s)" % (paramlib.dict_lit([(ids[nm], v) for nm, v in pt]), o))
        try:
            kwargs = {nm: (vs[0] if kind == "scalar" else np.array(vs)) for nm, vs, kind in d["kw"]}
            mod = self._obj(d).solve(**kwargs)
            sw = "Obs " + clist(mat(mod, k) for k in range(np.asarray(mod.S).shape[0]))
        except Exception:
            sw = "Raised"
        return "{| b2_kw := %s; b2_oracle := %s; b2_sweep := %s |}" % (
            sdict_lit([(ids[nm], vs) for nm, vs, _ in d["kw"]]), clist(oracle), sw)

    def nontrivial(self, d):
        return len({k for _, _, k in d["kw"]}) > 1

    def classify(self, d):
        return d["block"] + ("/bad" if any(nm == "bad" for nm, _, _ in d["kw"]) else "")

    def shrink(self, d):
        out = []
        for i in range(len(d["kw"])):
            if len(d["kw"]) > 1:
                e = copy.deepcopy(d)
                del e["kw"][i]
                out.append(e)
        return out

    def py_repro(self, d):
        return ("import sys; sys.path.insert(0,'/verif/harness'); import c04, numpy as np\n"
                f"d={d!r}\n"
                "s=c04.Block2Stream(); kw={nm: (vs[0] if k=='scalar' else np.array(vs)) for nm, vs, k in d['kw']}\n"
                "print(s._obj(d).solve(**kw).S)\n")


import c10  # noqa: E402


class NetSweepStream(c10.SweepMonStream):
    """reflective circuits (random components, feedback through single and multiple links) in which a phase shifter is
    swept: slice k of the result against the model's solve of the netlist of point k"""
    name = "net_sweep"
    imports = "Field Matrix Base Kernel Network Solve Corr"
    case_type = "nets_case"
    verdict_fn = "nets_verdict"
    shard_size = 10

    def generate(self, rng, tier):
        out = []
        for d in super().generate(rng, tier):
            d["mon"] = []
            out.append(d)
        out = out[:50 if tier == "quick" else 800]
        # directed: reflector - swept phase section - reflector, single links (the round trip changes along the sweep)
        for _ in range(10 if tier == "quick" else 100):
            base = copy.deepcopy(out[rng.randrange(len(out))])
            refl = []
            while len(refl) < 2:
                g = netlib.gen_netlist(rng, max_comps=1, max_pins=2)
                if g["comps"][0]["n"] == 2:
                    g["comps"][0].pop("bare", None)
                    refl.append(g["comps"][0])
            base["comps"] = [base["comps"][0], refl[0], refl[1]]
            base["conns"] = [[[1, 1], [0, 0]], [[0, 1], [2, 0]]]
            base["expo"] = [[1, 0, "in"], [2, 1, "out"]]
            base["exc"] = {}
            base["style"] = "with"
            out.append(base)
        return out

    def run(self, d):
        names = [x[2] for x in d["expo"]]
        try:
            sol, sts = netlib.build(d)
            kw = {"PS": np.array(d["sweep"])}
            if d["second"] == "scalar":
                kw["wl"] = 1.25
            elif d["second"] == "len1":
                kw["wl"] = np.array([1.25])
            mod = sol.solve(**kw)
            if sorted(p.name for p in mod.pin_dic) != sorted(names) or np.asarray(mod.S).shape[0] != len(d["sweep"]):
                raise ValueError("pins / sweep length")
            obs = [netlib.obs_matrix_lit(netlib.observe_expo(mod, names, k)) for k in range(len(d["sweep"]))]
        except Exception:
            obs = ["Raised"] * len(d["sweep"])
        return clist(netlib.net_case_lit(self._point(d, k), obs[k]) for k in range(len(d["sweep"])))

    def nontrivial(self, d):
        return len(d["conns"]) >= 1 and len(d["expo"]) >= 1

    def py_repro(self, d):
        return ("import sys; sys.path.insert(0,'/verif/harness'); import c04, netlib, json, numpy as np\n"
                f"d=json.loads({json.dumps(d)!r})\n"
                "sol,sts=netlib.build(d); m=sol.solve(PS=np.array(d['sweep'])); print(m.S)\n")


TRUSTED = [
    "Coq 8.16.1 kernel + vm_compute",
    "hand-written models Sweep.v / Params.v tied to /repo (a) for ALL assignments with distinct names by the translation "
    "obligation: harness/translate_sweep.py (trusted, fail-closed symbolic executor) turns the current source of the sweep "
    "bookkeeping of Solver.solve (common length + broadcast) and Model.solve (common length + the dictionary create_S sees at "
    "every point) into Gallina and coq/templates/SweepSrcProof.v proves them equal to Sweep.normalise / Sweep.sweep_solve "
    "(the latter for create_S functions that depend on the dictionary only through its entries); (b) by this correspondence run",
    "translator's reading of numpy/Python: np.reshape(v, -1) of a scalar is the one-element list, len, indexing, "
    "np.array([v[0] for i in range(n)]) = n copies, dict item assignment / update / items per the language reference",
    "for library blocks the scalar solves of /repo are the oracle (create_S itself is C09's subject)",
]

if __name__ == "__main__":
    import translate_sweep
    from common import source_obligation
    main("C04", [SweepStream(), BlockStream(), DerivedStream(), Block2Stream(), NetSweepStream()],
         source_obligations=[source_obligation(
             "SweepSrc_C04", translate_sweep.translate, "SweepSrcProof.v",
             ["solver_normalise_src_is_normalise", "model_sweep_src_is_sweep_solve"])],
         level_text="props/C04.v proves the normalisation logic for any scalar solve function: index k is the scalar solve at "
                    "the k-th value of every parameter, scalars and length-1 arrays are broadcast, two different lengths > 1 are "
                    "rejected. The tie (i) sweeps solver hierarchies with probe/spy leaves over random mixes of scalar / length-1 / "
                    "length-n values (and malformed mixes) and compares every sweep index with the model; (ii) sweeps EVERY bare "
                    "library block (and blocks inside a solver, mode-expanded blocks) over each of its parameters and requires the "
                    "sweep to equal, bit for bit, the stack of the scalar solves; (iii) assigns SEVERAL parameters of every bare block at "
                    "once (its own and ones it ignores) as scalar / length-1 / length-n mixes, incl. inconsistent lengths: the model "
                    "broadcasts and looks each point up in the table of /repo's scalar solves.",
         trusted_base=TRUSTED,
         assumptions=["the per-block half is oracle-parametrised: the scalar solve of the implementation is the reference"])
