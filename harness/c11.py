"""C11 — flatten() preserves the scattering matrix and every parameter's meaning."""
from __future__ import annotations

import copy
import json

import numpy as np

import hierlib
import netlib
import paramlib
from common import Stream, cf, clist, cvec, main
from paramlib import lk


def is_flat(S):
    return all(st.solver is None for st in S.structures)


def strip_sub_adds(node, top=True):
    """the documented limitation: sub-solvers define no add_param parameters"""
    if "children" not in node:
        return
    if not top:
        node["adds"] = []
    for ch in node["children"]:
        strip_sub_adds(ch["node"], False)


class FlatParamStream(Stream):
    name = "params"
    hygienic = True
    twins = False
    imports = "Field Matrix Base Kernel Network Solve Params Flatten Corr"
    case_type = "flat_case"
    verdict_fn = "flatp_verdict"
    shard_size = 40

    def generate(self, rng, tier):
        n = 200 if tier == "quick" else 3000
        out = []
        while len(out) < n:
            paramlib._FRESH[0] = 10
            t = paramlib.gen_tree(rng, rng.choice([2, 2, 3, 3]), hygienic=self.hygienic, twins=self.twins)
            if self.twins and '"twin_of"' not in json.dumps(t):
                continue
            if "children" not in t or not any("children" in ch["node"] for ch in t["children"]):
                continue
            strip_sub_adds(t)
            paramlib.sanitize(t)
            vis = sorted(paramlib.visible_defaults(t))
            calls = [[]]
            for k in vis[:4]:
                calls.append([[k, paramlib.rq(rng)]])
            calls.append([[k, paramlib.rq(rng)] for k in vis])
            out.append({"tree": t, "calls": calls})
        return out

    def run(self, d):
        S, pairs = paramlib.build(copy.deepcopy(d["tree"]), [0])
        before = {k: repr(v) for k, v in S.default_params.items()}
        try:
            S.flatten()
            flat = is_flat(S)
        except Exception:
            flat = False
        same = before == {k: repr(v) for k, v in S.default_params.items()}
        calls = []
        for kw in d["calls"]:
            try:
                mod = S.solve(**{paramlib.pn(k): v for k, v in kw})
                o = "Obs " + cvec([mod.get_A(b, a) for a, b in pairs], cf)
            except Exception:
                o = "Raised"
            calls.append("(%s, %s)" % (paramlib.dict_lit(kw), o))
        return ("{| fl_tree := %s; fl_flat := %s; fl_defaults_same := %s; fl_calls := %s |}"
                % (paramlib.tree_lit(copy.deepcopy(d["tree"])), "true" if flat else "false",
                   "true" if same else "false", clist(calls)))

    def nontrivial(self, d):
        return '"rmap": [[' in json.dumps(d["tree"])

    def classify(self, d):
        s = json.dumps(d["tree"])
        return "ren" if '"rmap": [[' in s else "plain"

    def shrink(self, d):
        out = []
        t = d["tree"]
        for i in range(len(d["calls"])):
            if len(d["calls"]) > 1:
                e = copy.deepcopy(d)
                del e["calls"][i]
                out.append(e)
        for i, ch in enumerate(t["children"]):
            if len(t["children"]) > 1:
                e = copy.deepcopy(d)
                paramlib.drop_child(e["tree"], i)
                paramlib.sanitize(e["tree"])
                out.append(e)
            for j in range(len(ch["rmap"])):
                e = copy.deepcopy(d)
                del e["tree"]["children"][i]["rmap"][j]
                out.append(e)
        for j in range(len(t["sdef"])):
            e = copy.deepcopy(d)
            del e["tree"]["sdef"][j]
            paramlib.sanitize(e["tree"])
            out.append(e)
        return out

    def py_repro(self, d):
        return ("import sys, copy; sys.path.insert(0,'/verif/harness'); import paramlib, json\n"
                f"d=json.loads({json.dumps(d)!r})\n"
                "S,pairs=paramlib.build(copy.deepcopy(d['tree']),[0]); b=dict(S.default_params)\n"
                "r0=[[S.solve(**{paramlib.pn(k):v for k,v in kw}).get_A(q,p) for p,q in pairs] for kw in d['calls']]\n"
                "S.flatten(); print(b, S.default_params)\n"
                "r1=[[S.solve(**{paramlib.pn(k):v for k,v in kw}).get_A(q,p) for p,q in pairs] for kw in d['calls']]; print(r0); print(r1)\n")


def nonhygienic(node):
    """some placement renames a parameter to a name that is also visible, under another meaning, in
    the placed object, in a sibling or at that level (shadowing), incl. swaps/chains"""
    if "children" not in node:
        return False
    level = set(k for k, _ in node["sdef"])
    vis = [paramlib.visible_defaults(ch["node"]) for ch in node["children"]]
    for i, ch in enumerate(node["children"]):
        olds = {o for o, n in ch["rmap"]}
        others = set().union(*[v for j, v in enumerate(vis) if j != i]) if len(vis) > 1 else set()
        for o, n in ch["rmap"]:
            if n in vis[i] or n in others or n in level or n in olds:
                return True
            # the old name is visible elsewhere at this level under its own meaning
            if o in others or o in level:
                return True
        if nonhygienic(ch["node"]):
            return True
    return False


class FlatShadowStream(FlatParamStream):
    """renamings that re-use visible names (shadowing, swaps, chains): flatten cannot represent the
    shielding such a hierarchy implies — known finding F28"""
    name = "params_shadow"
    hygienic = False

    def generate(self, rng, tier):
        return [d for d in super().generate(rng, tier) if nonhygienic(d["tree"])][:60 if tier == "quick" else 600]


def m_flatten_shadow(st, d, v):
    # only the verdict "the implementation matches the model of the flattened solver, and that
    # differs from the nested meaning" is the known finding; anything else is a new violation
    return st.name == "params_shadow" and "tree" in d and nonhygienic(d["tree"]) and v == "Differ"


class FlatTwinStream(FlatParamStream):
    """the same sub-solver placed twice (or more) under different hygienic renamings, then flattened: each
    placement must keep its own renaming"""
    name = "params_twins"
    twins = True

    def generate(self, rng, tier):
        return super().generate(rng, tier)[:80 if tier == "quick" else 1000]


class FlatWiringStream(Stream):
    name = "wiring"
    imports = "Field Matrix Base Kernel Network Solve Hier Corr"
    case_type = "flatw_case"
    verdict_fn = "flatw_verdict"
    shard_size = 20

    def generate(self, rng, tier):
        n = 150 if tier == "quick" else 2500
        out = []
        while len(out) < n:
            d = hierlib.gen_hier(rng, ndefs=rng.choice([2, 3, 3, 4]))
            if not d["defs"][d["top"]]["expo"]:
                continue
            out.append(d)
        return out

    def run(self, d):
        term, ex, nl = hierlib.instantiate(d)
        names = [x[2] for x in d["defs"][d["top"]]["expo"]]
        flat = False
        try:
            built = hierlib.build_all(d)
            top = built[d["top"]][0]
            top.flatten()
            flat = is_flat(top)
            mod = top.solve()
            got = sorted(p.name for p in mod.pin_dic)
            if got != sorted(names):
                raise ValueError("exposed pin set differs")
            obs = netlib.obs_matrix_lit(netlib.observe_expo(mod, names))
        except Exception:
            obs = "Raised"
        return "{| fw_case := {| hc_circ := %s; hc_obs := %s |}; fw_flat := %s |}" % (
            term, obs, "true" if flat else "false")

    def nontrivial(self, d):
        return hierlib.depth(d) >= 2 and any(df["conns"] for df in d["defs"])

    def classify(self, d):
        return "depth%d/reuse%d" % (hierlib.depth(d), hierlib.reuse_count(d))

    def shrink(self, d):
        out = []
        for k, df in enumerate(d["defs"]):
            for i in range(len(df["conns"])):
                e = copy.deepcopy(d)
                del e["defs"][k]["conns"][i]
                out.append(e)
        return out

    def py_repro(self, d):
        return ("import sys; sys.path.insert(0,'/verif/harness'); import hierlib, json\n"
                f"d=json.loads({json.dumps(d)!r})\n"
                "b=hierlib.build_all(d); top=b[d['top']][0]; top.flatten(); print(top.solve().S)\n")


TRUSTED = [
    "Coq 8.16.1 kernel + vm_compute", "Bignums/Uint63 primitives for the executed instance BQCf",
    "hand-written models Hier.v / Params.v tied to /repo by this correspondence run (sampled)",
]

if __name__ == "__main__":
    main("C11", [FlatParamStream(), FlatTwinStream(), FlatWiringStream(), FlatShadowStream()],
         matchers={"flatten_shadowing": m_flatten_shadow},
         level_text="props/C11.v; the tie flattens hierarchies on /repo and compares (wiring) the flattened solver's matrix with "
                    "the nested and the flat model and (parameters) for the empty assignment, each single visible parameter and "
                    "all of them, the value every leaf uses after flatten() with the model's value before, plus default_params "
                    "before/after and the absence of sub-solvers.",
         trusted_base=TRUSTED, assumptions=["sub-solvers define no add_param parameters (the documented limitation)"])
