"""Translator: the closed-form library blocks of model.py -> Gallina over Coq's reals (C09).

    Waveguide, PhaseShifter, PushPullPhaseShifter, TH_PhaseShifter        (create_S)
    Attenuator, LinearAttenuator, Mirror, PerfectMirror, BeamSplitter (with and without an explicit t),
    Splitter1x2, PolRot (fixed angle: __init__; variable angle: create_S)  (the matrix built in __init__)

The CURRENT source of each block is executed symbolically: constructor arguments and solve-time parameters are real
variables (the index of a Waveguide a complex one, `nr + i ni`), Python numbers are the rationals their literals denote,
`1.0j`-style literals are complex constants, numpy calls are the functions of that name over the reals / complex numbers
(`np.exp` of a complex number is `exp(re) * (cos im, sin im)`), `np.array([[...]])`, `np.zeros`, element and slice
assignment and `diag_blocks` build the matrix entry by entry.  The result is one Gallina function `<Block>_src params i j`
per block (complex numbers as pairs of reals, as in Blocks.v); coq/templates/BlocksSrcProof.v proves each of them equal to
the hand-written `Blocks.<Block>` — the definitions the physics theorems of C09 are about — for ALL parameter values and
all entries.  Floating point is abstracted to exact real arithmetic (as everywhere in C09).  Fail-closed.
"""
from __future__ import annotations

import ast
import hashlib
import os
import warnings
from fractions import Fraction

from translate_params import Unsupported, U, find_fn, strip_doc

HEADER = r"""From Coq Require Import Reals Lra Lia.
From Lekkersim Require Import Blocks.
Open Scope R_scope.

Definition cofR (r : R) : C := (r, 0).
Definition cneg (z : C) : C := (- fst z, - snd z).
Definition cdivr (z : C) (r : R) : C := (fst z / r, snd z / r).
Definition cexp (z : C) : C := cscale (exp (fst z)) (cis (snd z)).        (* np.exp of a complex number *)
"""


class V:
    """symbolic value: kind 'I' python int, 'R' real term, 'C' complex term, 'M' matrix {(i, j): V}, 'N' None, 'B' bool"""

    def __init__(self, kind, val, n=None):
        self.kind, self.val, self.n = kind, val, n


def rlit(x) -> str:
    fr = Fraction(str(x)) if not isinstance(x, int) else Fraction(x)
    s = f"{abs(fr.numerator)}" if fr.denominator == 1 else f"({abs(fr.numerator)} / {fr.denominator})"
    return f"(- {s})" if fr < 0 else s


def as_R(v, node):
    if v.kind == "I":
        return rlit(v.val)
    if v.kind == "R":
        return v.val
    raise U(node, "a real number is expected")


def as_C(v, node):
    if v.kind in ("I", "R"):
        return f"(cofR {as_R(v, node)})"
    if v.kind == "C":
        return v.val
    raise U(node, "a number is expected")


class Blk:
    def __init__(self, env, none_names=()):
        self.env = dict(env)
        self.none = set(none_names)

    # ---------------- expressions
    def ev(self, node):
        if isinstance(node, ast.Constant):
            c = node.value
            if c is None:
                return V("N", None)
            if isinstance(c, bool):
                return V("B", c)
            if isinstance(c, int):
                return V("I", c)
            if isinstance(c, float):
                return V("R", rlit(c))
            if isinstance(c, complex) and c.real == 0:
                return V("C", f"(0, {rlit(c.imag)})")
            raise U(node, "unsupported constant")
        if isinstance(node, ast.Name):
            if node.id in self.none:
                return V("N", None)
            if node.id in self.env:
                return self.env[node.id]
            raise U(node, f"unknown name {node.id}")
        if isinstance(node, ast.Attribute):
            t = ast.unparse(node)
            if t == "np.pi":
                return V("R", "PI")
            if t in self.env:
                return self.env[t]
            raise U(node, f"unknown attribute {t}")
        if isinstance(node, ast.Subscript):
            t = ast.unparse(node)
            if t in self.env:
                return self.env[t]
            raise U(node, f"unknown subscript {t}")
        if isinstance(node, ast.UnaryOp) and isinstance(node.op, ast.USub):
            v = self.ev(node.operand)
            if v.kind == "I":
                return V("I", -v.val)
            if v.kind == "R":
                return V("R", f"(- {v.val})")
            if v.kind == "C":
                return V("C", f"(cneg {v.val})")
            raise U(node, "negation of a non-number")
        if isinstance(node, ast.IfExp):
            return self.ev(node.body if self.test(node.test) else node.orelse)
        if isinstance(node, ast.BinOp):
            return self.binop(node)
        if isinstance(node, ast.Call):
            return self.call(node)
        if isinstance(node, ast.Tuple):
            return V("T", [self.ev(e) for e in node.elts])
        if isinstance(node, ast.List):
            return V("L", [self.ev(e) for e in node.elts])
        raise U(node, "unsupported expression")

    def test(self, node):
        """conditions decided by the configuration: `<name> is None`, `self.fixed`"""
        if isinstance(node, ast.Compare) and len(node.ops) == 1 and isinstance(node.ops[0], (ast.Is, ast.IsNot)) \
                and isinstance(node.comparators[0], ast.Constant) and node.comparators[0].value is None:
            v = self.ev(node.left)
            r = v.kind == "N"
            return r if isinstance(node.ops[0], ast.Is) else not r
        v = self.ev(node)
        if v.kind == "B":
            return v.val
        raise U(node, "condition that the configuration does not decide")

    def binop(self, node):
        a, b = self.ev(node.left), self.ev(node.right)
        op = node.op
        if a.kind == "M" or b.kind == "M":
            if not isinstance(op, ast.Mult):
                raise U(node, "only scalar * matrix is supported")
            m, s = (a, b) if a.kind == "M" else (b, a)
            if s.kind == "M":
                raise U(node, "matrix * matrix")
            out = {}
            for ij, e in m.val.items():
                prod = self.mul(s, e, node) if a.kind != "M" else self.mul(e, s, node)
                out[ij] = prod
            return V("M", out, m.n)
        if isinstance(op, ast.Mult):
            return self.mul(a, b, node)
        if isinstance(op, (ast.Add, ast.Sub)):
            sym = "+" if isinstance(op, ast.Add) else "-"
            if a.kind == "I" and b.kind == "I":
                return V("I", a.val + b.val if sym == "+" else a.val - b.val)
            if a.kind in "IR" and b.kind in "IR":
                return V("R", f"({as_R(a, node)} {sym} {as_R(b, node)})")
            if sym == "+":
                return V("C", f"(caddc {as_C(a, node)} {as_C(b, node)})")
            return V("C", f"(caddc {as_C(a, node)} (cneg {as_C(b, node)}))")
        if isinstance(op, ast.Div):
            if a.kind in "IR" and b.kind in "IR":
                return V("R", f"({as_R(a, node)} / {as_R(b, node)})")
            if a.kind == "C" and b.kind in "IR":
                return V("C", f"(cdivr {a.val} {as_R(b, node)})")
            raise U(node, "division by a complex number")
        if isinstance(op, ast.Pow):
            if a.kind in "IR" and b.kind in "IR":
                return V("R", f"(Rpower {as_R(a, node)} {as_R(b, node)})")
            raise U(node, "power of a complex number")
        raise U(node, "unsupported operator")

    def mul(self, a, b, node):
        if a.kind == "I" and b.kind == "I":
            return V("I", a.val * b.val)
        if a.kind in "IR" and b.kind in "IR":
            return V("R", f"({as_R(a, node)} * {as_R(b, node)})")
        return V("C", f"(cmulc {as_C(a, node)} {as_C(b, node)})")

    def call(self, node):
        f = ast.unparse(node.func)
        args = node.args
        if f in ("np.sqrt", "np.cos", "np.sin") and len(args) == 1 and not node.keywords:
            v = self.ev(args[0])
            return V("R", f"({f[3:]} {as_R(v, node)})")
        if f == "np.exp" and len(args) == 1 and not node.keywords:
            v = self.ev(args[0])
            if v.kind in "IR":
                return V("R", f"(exp {as_R(v, node)})")
            return V("C", f"(cexp {as_C(v, node)})")
        if f == "np.zeros" and 1 <= len(args) <= 2:
            sh = self.ev(args[0])
            if len(args) == 2 and ast.unparse(args[1]) != "complex":
                raise U(node, "np.zeros of a non-complex type")
            if node.keywords and [(k.arg, ast.unparse(k.value)) for k in node.keywords] != [("dtype", "complex")]:
                raise U(node, "np.zeros keywords")
            if sh.kind != "T" or len(sh.val) != 2 or any(x.kind != "I" for x in sh.val) or sh.val[0].val != sh.val[1].val:
                raise U(node, "np.zeros needs a square shape of known size")
            return V("M", {}, sh.val[0].val)
        if f == "np.identity" and len(args) in (1, 2) and not node.keywords:
            n = self.ev(args[0])
            if n.kind != "I" or (len(args) == 2 and ast.unparse(args[1]) != "complex"):
                raise U(node, "np.identity needs a known size (and complex type)")
            return V("M", {(i, i): V("I", 1) for i in range(n.val)}, n.val)
        if f == "np.array" and len(args) in (1, 2) and not node.keywords:
            if len(args) == 2 and ast.unparse(args[1]) != "complex":
                raise U(node, "np.array of a non-complex type")
            rows = args[0]
            if not (isinstance(rows, ast.List) and rows.elts and all(isinstance(r, ast.List) for r in rows.elts)):
                raise U(node, "np.array needs a literal list of rows")
            n = len(rows.elts)
            if any(len(r.elts) != n for r in rows.elts):
                raise U(node, "np.array: not square")
            out = {}
            for i, r in enumerate(rows.elts):
                for j, e in enumerate(r.elts):
                    v = self.ev(e)
                    if v.kind == "I" and v.val == 0 or (v.kind == "R" and v.val == "0"):
                        continue
                    if v.kind not in "IRC":
                        raise U(e, "matrix entry is not a number")
                    out[(i, j)] = v
            return V("M", out, n)
        if f == "diag_blocks" and len(args) == 1:
            out, off = {}, 0
            lst = self.ev(args[0])
            if lst.kind != "L":
                raise U(node, "diag_blocks of something that is not a list")
            for m in lst.val:
                if m.kind != "M":
                    raise U(node, "diag_blocks of a non-matrix")
                for (i, j), x in m.val.items():
                    out[(i + off, j + off)] = x
                off += m.n
            return V("M", out, off)
        if f == "self.index_func" and not args and len(node.keywords) == 1 and node.keywords[0].arg is None \
                and ast.unparse(node.keywords[0].value) == "{**self.param_dic, **extra}":
            return self.env["<Neff>"]         # the value of the user's index function for this mode's settings
        if f == "self.Neff" and not args and [ast.unparse(k.value) for k in node.keywords] == ["self.param_dic"]:
            return self.env["<Neff>"]         # the value of the user's index function
        if f == "deepcopy" and len(args) == 1:
            return self.ev(args[0])
        raise U(node, f"unsupported call {f}")

    # ---------------- statements
    SKIP_TARGETS = ("self.pin_dic", "self.param_dic", "self.default_params", "self.pn", "self.Neff", "self.angle_name",
                    "self.index_func", "self.allowed")

    def index(self, node, n):
        """an index or a slice of one axis -> list of positions"""
        if isinstance(node, ast.Slice):
            lo = self.ev(node.lower).val if node.lower else 0
            hi = self.ev(node.upper).val if node.upper else n
            if node.step:
                raise U(node, "slice step")
            return list(range(lo, hi)), True
        v = self.ev(node)
        if v.kind != "I":
            raise U(node, "index is not a known integer")
        return [v.val], False

    def run(self, stmts):
        for st in stmts:
            r = self.stmt(st)
            if r is not None:
                return r
        return None

    def stmt(self, st):
        if isinstance(st, ast.Expr):
            if isinstance(st.value, ast.Call) and ast.unparse(st.value) == "self.update_pins()":
                return None
            if isinstance(st.value, ast.Constant):
                return None
            c = st.value
            if isinstance(c, ast.Call) and isinstance(c.func, ast.Attribute) and c.func.attr == "append" and len(c.args) == 1:
                lst = self.ev(c.func.value)
                if lst.kind != "L":
                    raise U(st, "append to something that is not a list")
                lst.val.append(self.ev(c.args[0]))       # the OBJECT is stored, not a copy
                return None
            raise U(st, "unsupported expression statement")
        if isinstance(st, ast.Return):
            return self.ev(st.value)
        if isinstance(st, ast.If):
            return self.run(st.body if self.test(st.test) else st.orelse)
        if isinstance(st, ast.Expr) and False:
            pass
        if isinstance(st, ast.For) and ast.unparse(st.iter) == "self.allowed.items()" and not st.orelse:
            # the loop over the allowed modes, unrolled for the configured mode list; the index function's value in
            # iteration k is the k-th configured index
            for k, nval in enumerate(self.env["<modes>"]):
                self.env["<Neff>"] = nval
                r = self.run(st.body)
                if r is not None:
                    return r
            return None
        if isinstance(st, ast.Assign) and len(st.targets) == 1:
            tg = st.targets[0]
            t = ast.unparse(tg)
            if t in self.SKIP_TARGETS:
                return None
            if isinstance(tg, (ast.Name, ast.Attribute)):
                self.env[t] = self.ev(st.value)
                self.none.discard(t)
                return None
            if isinstance(tg, ast.Subscript):
                base = ast.unparse(tg.value)
                if base in self.SKIP_TARGETS:
                    return None
                m = self.env.get(base)
                if m is None or m.kind != "M" or not isinstance(tg.slice, ast.Tuple) or len(tg.slice.elts) != 2:
                    raise U(st, "assignment into something that is not a known matrix")
                rows, rs = self.index(tg.slice.elts[0], m.n)
                cols, cs = self.index(tg.slice.elts[1], m.n)
                v = self.ev(st.value)
                new = dict(m.val)
                if v.kind == "M":
                    if not (rs and cs) or v.n != len(rows) or v.n != len(cols):
                        raise U(st, "shape of the assigned block")
                    for a, i in enumerate(rows):
                        for b, j in enumerate(cols):
                            if (a, b) in v.val:
                                new[(i, j)] = v.val[(a, b)]
                            else:
                                new.pop((i, j), None)
                else:
                    if rs or cs or v.kind not in "IRC":
                        raise U(st, "a number can only be assigned to one entry")
                    new[(rows[0], cols[0])] = v
                m.val = new           # IN PLACE: every alias of the array (a list it was appended to, another name) sees it
                return None
        raise U(st, "unsupported statement")


def emit(name, params, m, node=None):
    if m is None or m.kind != "M":
        raise Unsupported(f"{name}: no matrix was built")
    lines = [f"Definition {name} {params} (i j : nat) : C :=", "  match i, j with"]
    for (i, j) in sorted(m.val):
        lines.append(f"  | {i}%nat, {j}%nat => {as_C(m.val[(i, j)], node)}")
    lines.append("  | _, _ => C0\n  end.\n")
    return "\n".join(lines), m.n


def R(name):
    return V("R", name)


def translate(repo: str) -> str:
    p = os.path.join(repo, "lekkersim", "model.py")
    with open(p) as fh:
        src = fh.read()
    with warnings.catch_warnings():
        warnings.simplefilter("ignore", SyntaxWarning)
        tree = ast.parse(src)
    out = [f"(* GENERATED by harness/translate_blocks.py from {p}",
           f"   sha256 {hashlib.sha256(src.encode()).hexdigest()} — do not edit *)", HEADER]

    def body(cls, fn):
        return strip_doc(find_fn(tree, cls, fn).body)

    def args_of(cls, fn):
        return [a.arg for a in find_fn(tree, cls, fn).args.args]

    def init_then_create(cls, env, none=()):
        b = Blk(env, none)
        b.run(body(cls, "__init__"))
        r = b.run(body(cls, "create_S"))
        return r if r is not None else b.env.get("self.S")

    def init_only(cls, env, none=()):
        b = Blk(env, none)
        b.run(body(cls, "__init__"))
        # create_S must be the inherited one (returns self.S)
        for n in tree.body:
            if isinstance(n, ast.ClassDef) and n.name == cls and any(
                    isinstance(f, ast.FunctionDef) and f.name == "create_S" for f in n.body):
                raise Unsupported(f"{cls} now defines create_S")
        return b.env.get("self.S")

    base = [ast.unparse(x) for x in body("Model", "create_S")]
    if base != ["return self.S"]:
        raise Unsupported("Model.create_S no longer returns self.S: " + " ; ".join(base)[:200])

    def expect_args(cls, fn, want):
        got = args_of(cls, fn)
        if got != want:
            raise Unsupported(f"{cls}.{fn} arguments {got}, expected {want}")

    expect_args("Waveguide", "__init__", ["self", "L", "n", "wl"])
    m = init_then_create("Waveguide", {"L": R("L"), "n": V("C", "(nr, ni)"), "wl": R("wl0"),
                                       "self.param_dic['wl']": R("wl")})
    out.append(emit("Waveguide_src", "(L nr ni wl : R)", m)[0])

    # UserWaveguide with two allowed modes: only create_S is executed (the constructor's pin table is C13/C16 matter)
    expect_args("UserWaveguide", "__init__", ["self", "L", "func", "param_dic", "allowedmodes"])
    b = Blk({"self.L": R("L"), "self.param_dic['wl']": R("wl"), "<modes>": [R("n0"), R("n1")], "mode": V("S", "m"),
             "extra": V("S", "x")})
    r = b.run(body("UserWaveguide", "create_S"))
    out.append(emit("UserWaveguide2_src", "(L n0 n1 wl : R)", r if r is not None else b.env.get("self.S"))[0])

    expect_args("PhaseShifter", "__init__", ["self", "param_name", "param_default"])
    m = init_then_create("PhaseShifter", {"param_name": V("S", "PS"), "param_default": R("PS0"),
                                          "self.param_dic[self.pn]": R("PS")})
    out.append(emit("PhaseShifter_src", "(PS : R)", m)[0])

    expect_args("PushPullPhaseShifter", "__init__", ["self", "param_name"])
    m = init_then_create("PushPullPhaseShifter", {"param_name": V("S", "PS"), "self.param_dic[self.pn]": R("PS")})
    out.append(emit("PushPull_src", "(PS : R)", m)[0])

    expect_args("TH_PhaseShifter", "__init__", ["self", "L", "Neff", "R", "w", "wl", "pol", "param_name"])
    m = init_then_create("TH_PhaseShifter", {"L": R("L"), "Neff": V("S", "f"), "param_name": V("S", "PS"),
                                             "R": R("R0"), "w": R("w0"), "wl": R("wl0"), "pol": R("pol0"),
                                             "self.param_dic['wl']": R("wl"), "self.param_dic[self.pn]": R("PS"),
                                             "<Neff>": R("n")})
    out.append(emit("TH_PhaseShifter_src", "(L n wl PS : R)", m)[0])

    expect_args("Attenuator", "__init__", ["self", "loss"])
    out.append(emit("Attenuator_src", "(loss : R)", init_only("Attenuator", {"loss": R("loss")}))[0])
    expect_args("LinearAttenuator", "__init__", ["self", "c"])
    out.append(emit("LinearAttenuator_src", "(c : R)", init_only("LinearAttenuator", {"c": R("c")}))[0])
    expect_args("Mirror", "__init__", ["self", "ref", "phase"])
    out.append(emit("Mirror_src", "(ref phase : R)", init_only("Mirror", {"ref": R("ref"), "phase": R("phase")}))[0])
    expect_args("PerfectMirror", "__init__", ["self", "phase"])
    out.append(emit("PerfectMirror_src", "(phase : R)", init_only("PerfectMirror", {"phase": R("phase")}))[0])
    expect_args("BeamSplitter", "__init__", ["self", "ratio", "t", "phase"])
    out.append(emit("BeamSplitter_src", "(ratio phase : R)",
                    init_only("BeamSplitter", {"ratio": R("ratio"), "phase": R("phase")}, none=["t"]))[0])
    out.append(emit("BeamSplitterT_src", "(ratio t phase : R)",
                    init_only("BeamSplitter", {"ratio": R("ratio"), "phase": R("phase"), "t": R("t")}))[0])
    expect_args("Splitter1x2", "__init__", ["self"])
    out.append(emit("Splitter1x2_src", "", init_only("Splitter1x2", {}))[0])

    expect_args("PolRot", "__init__", ["self", "angle", "angle_name"])
    b = Blk({"angle": R("angle"), "angle_name": V("S", "angle")})
    b.run(body("PolRot", "__init__"))
    if b.env.get("self.fixed") is None or b.env["self.fixed"].val is not True:
        raise Unsupported("PolRot(angle): the fixed flag")
    r = b.run(body("PolRot", "create_S"))
    out.append(emit("PolRot_fixed_src", "(angle : R)", r)[0])
    b = Blk({"angle_name": V("S", "angle"), "self.param_dic[self.angle_name]": R("angle")}, ["angle"])
    b.run(body("PolRot", "__init__"))
    if b.env.get("self.fixed") is None or b.env["self.fixed"].val is not False:
        raise Unsupported("PolRot(): the fixed flag")
    r = b.run(body("PolRot", "create_S"))
    out.append(emit("PolRot_var_src", "(angle : R)", r)[0])
    return "\n".join(out) + "\n"


if __name__ == "__main__":
    import sys
    print(translate(sys.argv[1] if len(sys.argv) > 1 else "/repo"))
