"""C03 — independence of declaration order and of elimination order.
All valid merge sequences of small circuits are forced through the guarded hook in Solver.solve
and each is compared with the model run on the same sequence (and hence, by the theorem, with
every other sequence); declarations are permuted."""
from __future__ import annotations

import copy
import itertools
import json
import random

import numpy as np

import netlib
from common import Stream, main
from netlib import Pin
import lekkersim.sol as lsol


def all_schedules(n, rng, limit):
    """all sequences of merges of n items as pairs of original indices (unordered pairs, the
    orientation chosen at random), at most `limit` of them (random subset beyond)"""
    out = []

    def rec(groups, acc):
        if len(groups) == 1:
            out.append(list(acc))
            return
        for a, b in itertools.combinations(range(len(groups)), 2):
            ga, gb = groups[a], groups[b]
            pair = (min(ga), min(gb))
            rest = [g for k, g in enumerate(groups) if k not in (a, b)]
            rec(rest + [ga | gb], acc + [pair])

    rec([frozenset([i]) for i in range(n)], [])
    if len(out) > limit:
        out = rng.sample(out, limit)
    res = []
    for s in out:
        res.append([list(p) if rng.random() < 0.5 else [p[1], p[0]] for p in s])
    return res


def positions(n, sched):
    """pairs of original indices -> pairs of positions in the model's live list"""
    live = [frozenset([i]) for i in range(n)]
    out = []
    for i, j in sched:
        pi = next(k for k, g in enumerate(live) if i in g)
        pj = next(k for k, g in enumerate(live) if j in g)
        out.append((pi, pj))
        new = live[pi] | live[pj]
        live = [g for k, g in enumerate(live) if k not in (pi, pj)] + [new]
    return out


def solve_forced(desc, sched, shuffle=False):
    sol, sts = netlib.build(desc, shuffle=shuffle)
    steps = iter(sched)
    taken = []

    def hook(src, tar, st_list, loop):
        i, j = next(steps)
        A, B = sts[i].gone_to, sts[j].gone_to
        assert A in st_list and B in st_list and A is not B
        taken.append((i, j))
        return A, B

    lsol._verif_merge_hook = hook
    try:
        mod = sol.solve()
    finally:
        lsol._verif_merge_hook = None
    assert len(taken) == len(sched)
    return mod


class SchedStream(Stream):
    name = "sched"
    imports = "Field Matrix Base Kernel Network Solve Corr"
    case_type = "net_case"
    verdict_fn = "net_verdict"
    shard_size = 30

    def generate(self, rng, tier):
        ncirc = 40 if tier == "quick" else 100
        out = []
        for c in range(ncirc):
            maxc = 4 if tier == "quick" else 5
            d = netlib.gen_netlist(rng, max_comps=maxc, max_pins=3, min_comps=3)
            if not d["expo"]:
                continue
            n = len(d["comps"])
            limit = 18 if tier == "quick" else 180
            for s in all_schedules(n, rng, limit):
                e = copy.deepcopy(d)
                e["sched"] = s
                out.append(e)
        return out

    def run(self, d):
        names = [x[2] for x in d["expo"]]
        try:
            mod = solve_forced(d, d["sched"])
            obs = netlib.obs_matrix_lit(netlib.observe_expo(mod, names))
        except StopIteration:
            raise
        except AssertionError:
            raise
        except Exception:
            obs = "Raised"
        return netlib.net_case_lit(d, obs, positions(len(d["comps"]), d["sched"]))

    def nontrivial(self, d):
        return len(d["comps"]) >= 3 and len(d["conns"]) >= 2

    def classify(self, d):
        return "c%d/l%d" % (len(d["comps"]), len(d["conns"]))

    def shrink(self, d):
        return []

    def py_repro(self, d):
        return ("import sys; sys.path.insert(0,'/verif/harness'); import c03, netlib, json\n"
                f"d=json.loads({json.dumps(d)!r})\n"
                "m=c03.solve_forced(d,d['sched']); print(netlib.observe_expo(m,[x[2] for x in d['expo']]))\n")


class DeclStream(Stream):
    name = "decl"
    imports = "Field Matrix Base Kernel Network Solve Corr"
    case_type = "net_case"
    verdict_fn = "net_verdict"
    shard_size = 30

    def generate(self, rng, tier):
        n = 50 if tier == "quick" else 700
        out = []
        for i in range(n):
            d = netlib.gen_netlist(rng, max_comps=5, max_pins=4, min_comps=2)
            if not d["expo"]:
                continue
            for k in range(3):
                e = copy.deepcopy(d)
                e["perm_seed"] = rng.randint(0, 10 ** 9)
                e["shuffle"] = True
                e["style"] = rng.choice(["ctor", "with"])
                # declaring part of the circuit as monitors changes nothing but the elimination order
                nc = len(e["comps"])
                if nc >= 3 and rng.random() < 0.3:
                    e["mon"] = sorted(rng.sample(range(nc), rng.randint(1, nc - 2)))
                elif nc >= 2 and e["style"] == "with" and rng.random() < 0.45:
                    # ... also when the monitors are declared before the links are made
                    e["mon"] = sorted(rng.sample(range(nc), rng.randint(1, nc - 1)))
                    e["mon_early"] = True
                if e["expo"] and rng.random() < 0.3:
                    # one port carries TWO external names (declared before or after the others): both must be there
                    c, k, _ = rng.choice(e["expo"])
                    e["alias"] = [c, k, "alias0", rng.random() < 0.5]
                out.append(e)
        return out

    def run(self, d):
        names = [x[2] for x in d["expo"]]
        full = d
        try:
            sol, sts = netlib.build(d, shuffle=True)
            if d.get("alias"):
                c, k, al, first = d["alias"]
                if first:
                    # re-declare every other exposure after the alias (the last declaration of a NAME counts, and
                    # several names per port are allowed)
                    old = dict(sol.pin_mapping)
                    sol.pin_mapping.clear()
                    sol.map_pins({al: sts[c].pin[f"p{k}"]})
                    sol.pin_mapping.update(old)
                else:
                    sol.map_pins({al: sts[c].pin[f"p{k}"]})
                names = names + [al]
                full = copy.deepcopy(d)
                full["expo"] = list(d["expo"]) + [[c, k, al]]
            for i in d.get("mon", []):
                sol.monitor_structure(sts[i], name=f"M{i}")
            mod = sol.solve()
            if sorted(p.name for p in mod.pin_dic) != sorted(names):
                raise ValueError("exposed names differ")
            # half of the cases read the result through the named view S2PD() (rows / columns labelled with pin names)
            view = netlib.observe_s2pd if d.get("perm_seed", 0) % 2 else netlib.observe_expo
            obs = netlib.obs_matrix_lit(view(mod, names))
        except Exception:
            obs = "Raised"
        return netlib.net_case_lit(full, obs)

    def nontrivial(self, d):
        return len(d["comps"]) >= 2 and len(d["conns"]) >= 1

    def classify(self, d):
        return "c%d/l%d/%s%s%s" % (len(d["comps"]), len(d["conns"]), d["style"], "/mon" if d.get("mon") else "",
                                   "/alias" if d.get("alias") else "")

    def shrink(self, d):
        out = []
        for e in netlib.shrink_netlist(d):
            if len(e["comps"]) != len(d["comps"]):
                e.pop("mon", None)          # component numbering changed
                e.pop("alias", None)
            elif e.get("alias") and [e["alias"][0], e["alias"][1]] not in [[x[0], x[1]] for x in e["expo"]]:
                e.pop("alias", None)
            out.append(e)
        return out


TRUSTED = [
    "Coq 8.16.1 kernel + vm_compute (no native_compute)",
    "Bignums/Uint63 primitives for the executed instance BQCf (theorems are generic and closed)",
    "hand-written model tied to /repo by this correspondence run (sampled)",
    "guarded hook in Solver.solve (LEKKERSIM_VERIF=1) used to force merge sequences",
    "harness: schedule enumeration, declaration permutations, transport, emitter, parser",
]

if __name__ == "__main__":
    main("C03", [SchedStream(), DeclStream()],
         level_text="props/C03.v: for every netlist, any two schedules for which the model returns a result give the same "
                    "pins and the same coefficients (schedule_independent, from soundness + existence of wave solutions), "
                    "and so do any two declarations of the same circuit (declaration_independent). The tie forces every "
                    "valid merge sequence of small circuits through the hook in /repo and compares each with the model on "
                    "the same sequence; declarations are permuted (structure order, connection order and orientation, "
                    "exposure order, both construction styles).",
         trusted_base=TRUSTED,
         assumptions=["theorems conditional on the model returning Ok for both schedules",
                      "round-off abstracted by tolerance 1e-9"])
