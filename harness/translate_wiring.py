"""Translator: Solver.connect (sol.py) -> Gallina over Wiring.v's solver state (C16 / C07).

`connect` is a guarded command: a cascade of membership tests on the solver's tables that either return (the call
is a repetition), raise (the call is refused) or fall through to the table updates and the two `add_conn` calls.
Where a refusal sits relative to the updates is exactly what atomicity (C16) is about.  This module executes the
CURRENT source symbolically: the solver's tables are the fields of `Wiring.wstate`, `(structure_k, pin_k)` are the
two `spin`s x and y, every `raise` / `return` ends a path with the state reached so far, and the result is one Gallina
expression `connect_src s x y : wstate * option err`.  coq/templates/WiringSrcProof.v proves it equal to
`Wiring.step s (Connect x y)` for every state and every pair of pins.

Grammar: the two leading name resolutions `if isinstance(pinK, str): pinK = structureK.pin[pinK][1]`;
`if <cond>: <block>` with `<cond>` built from `structure1 is structure2`, `<tuple> in/not in self.<table>`,
`self.connections[<tuple>] == <tuple>`, `and`; `for tup in (<tuple>, <tuple>): <block>` (unrolled);
`self.<list>.append(<tuple>)`, `self.<list>.remove(<tuple>)`, `self.connections[<tuple>] = <tuple>`;
`structureK.add_conn(pinK, structureJ, pinJ)`; `return`; `raise ValueError(<message>)` (the message selects the error
kind).  Anything else raises `Unsupported`.
"""
from __future__ import annotations

import ast
import hashlib
import os

from translate_params import Unsupported, U, find_fn, strip_doc

TABLES = {"self.connections_list": ("w_clist", "list"), "self.free_pins": ("w_free", "list"),
          "self.connections": ("w_conns", "dict")}
FIELDS = ["w_structs", "w_store", "w_conns", "w_clist", "w_free", "w_map"]


class W:
    def __init__(self):
        self.f = {k: f"({k} s)" for k in FIELDS}      # current term of every field
        self.tup = {}                                 # local tuple variables (loop variable) -> x / y
        self.lets = []
        self.n = 0

    def clone(self):
        o = W()
        o.f = dict(self.f)
        o.tup = dict(self.tup)
        o.lets = self.lets          # shared: lets are only appended on the straight path
        o.n = self.n
        return o

    def state(self):
        return "{| " + "; ".join(f"{k} := {self.f[k]}" for k in FIELDS) + " |}"

    # ---- expressions
    def spin(self, node):
        t = ast.unparse(node)
        if t in ("(structure1, pin1)",):
            return "x"
        if t in ("(structure2, pin2)",):
            return "y"
        if isinstance(node, ast.Name) and node.id in self.tup:
            return self.tup[node.id]
        raise U(node, "not one of the two pins of the call")

    def table(self, node):
        t = ast.unparse(node)
        if t not in TABLES:
            raise U(node, "unknown table")
        return TABLES[t]

    def cond(self, node):
        if isinstance(node, ast.BoolOp) and isinstance(node.op, ast.And):
            return "(" + " && ".join(self.cond(v) for v in node.values) + ")"
        if isinstance(node, ast.Compare) and len(node.ops) == 1:
            op, l, r = node.ops[0], node.left, node.comparators[0]
            if isinstance(op, ast.Is) and {ast.unparse(l), ast.unparse(r)} == {"structure1", "structure2"}:
                return "(Nat.eqb (fst x) (fst y))"
            if isinstance(op, (ast.In, ast.NotIn)):
                fld, kind = self.table(r)
                p = self.spin(l)
                b = f"(mem {p} {self.f[fld]})" if kind == "list" else \
                    f"(match dget spin_eqb {p} {self.f[fld]} with Some _ => true | None => false end)"
                return b if isinstance(op, ast.In) else f"(negb {b})"
            if isinstance(op, ast.Eq) and isinstance(l, ast.Subscript):
                fld, kind = self.table(l.value)
                if kind != "dict":
                    raise U(node, "subscript of a list")
                return (f"(match dget spin_eqb {self.spin(l.slice)} {self.f[fld]} with "
                        f"Some z => spin_eqb z {self.spin(r)} | None => false end)")
        raise U(node, "unsupported condition")

    def err(self, node):
        if not (isinstance(node.exc, ast.Call) and ast.unparse(node.exc.func) == "ValueError" and len(node.exc.args) == 1):
            raise U(node, "raise of something else than ValueError(message)")
        msg = ast.unparse(node.exc.args[0])
        if "same structure" in msg:
            return "EConnectivity"
        if "already connected" in msg:
            return "EAlreadyConnected"
        if "not a free pin" in msg:
            return "ENoSuchPin"
        raise U(node, "unknown refusal message")

    # ---- statements: returns the Gallina expression for "run stmts, then cont()"
    def run(self, stmts, cont):
        if not stmts:
            return cont(self)
        st, rest = stmts[0], stmts[1:]
        if isinstance(st, ast.Return) and st.value is None:
            return f"({self.state()}, None)"
        if isinstance(st, ast.Raise):
            return f"({self.state()}, Some {self.err(st)})"
        if isinstance(st, ast.If):
            c = self.cond(st.test)
            a = self.clone()
            then = a.run(st.body, lambda w: w.run(rest, cont))
            b = self.clone()
            other = b.run(st.orelse, lambda w: w.run(rest, cont)) if st.orelse else b.run(rest, cont)
            return f"(if {c} then {then} else {other})"
        if isinstance(st, ast.For):
            if not (isinstance(st.iter, ast.Tuple) and isinstance(st.target, ast.Name) and not st.orelse):
                raise U(st, "only `for tup in (<pin>, <pin>)` is supported")
            items = [self.spin(e) for e in st.iter.elts]
            body = []
            for it in items:
                body.append((st.target.id, it))
            # unroll
            def unroll(w, k):
                if k == len(body):
                    return w.run(rest, cont)
                w.tup = dict(w.tup)
                w.tup[body[k][0]] = body[k][1]
                return w.run(st.body, lambda w2: unroll(w2, k + 1))
            return unroll(self, 0)
        if isinstance(st, ast.Expr) and isinstance(st.value, ast.Call) and isinstance(st.value.func, ast.Attribute):
            c = st.value
            recv = ast.unparse(c.func.value)
            if recv in TABLES and c.func.attr in ("append", "remove") and len(c.args) == 1:
                fld, kind = TABLES[recv]
                if kind != "list":
                    raise U(st, "append/remove on a dictionary")
                p = self.spin(c.args[0])
                self.f[fld] = f"({self.f[fld]} ++ [{p}])" if c.func.attr == "append" else f"(remove1 {p} {self.f[fld]})"
                return self.run(rest, cont)
            if recv in ("structure1", "structure2") and c.func.attr == "add_conn" and len(c.args) == 3:
                me = "x" if recv == "structure1" else "y"
                a = [ast.unparse(z) for z in c.args]
                want = ["pin1", "structure2", "pin2"] if me == "x" else ["pin2", "structure1", "pin1"]
                if a != want:
                    raise U(st, "add_conn must register the link seen from its own side")
                other = "y" if me == "x" else "x"
                self.n += 1
                k = self.n
                cur = self.state()
                nxt = W()
                nxt.n = self.n
                nxt.tup = dict(self.tup)
                nxt.f = {fld: f"({fld} s{k}')" for fld in FIELDS}
                tail = nxt.run(rest, cont)
                return (f"(let s{k} := {cur} in match add_conn (getst s{k} (fst {me})) {me} {other} with "
                        f"| Err e => (s{k}, Some e) | Ok t{k} => let s{k}' := setst s{k} (fst {me}) t{k} in {tail} end)")
        if isinstance(st, ast.Assign) and len(st.targets) == 1 and isinstance(st.targets[0], ast.Subscript):
            fld, kind = self.table(st.targets[0].value)
            if kind != "dict":
                raise U(st, "item assignment on a list")
            self.f[fld] = f"(dset spin_eqb {self.spin(st.targets[0].slice)} {self.spin(st.value)} {self.f[fld]})"
            return self.run(rest, cont)
        raise U(st, "unsupported statement")


def tr_connect(fn):
    a = [x.arg for x in fn.args.args]
    if a != ["self", "structure1", "pin1", "structure2", "pin2"]:
        raise Unsupported(f"Solver.connect arguments {a}")
    body = strip_doc(fn.body)
    t = [ast.unparse(x) for x in body[:2]]
    want = ["if isinstance(pin1, str):\n    pin1 = structure1.pin[pin1][1]",
            "if isinstance(pin2, str):\n    pin2 = structure2.pin[pin2][1]"]
    if t != want:
        raise Unsupported("Solver.connect: the two name resolutions at the top changed: " + " ; ".join(t)[:200])
    w = W()
    term = w.run(body[2:], lambda w2: f"({w2.state()}, None)")
    return ("Definition connect_src (s : wstate) (x y : spin) : wstate * option err :=\n  %s.\n" % term)


def translate(repo: str) -> str:
    p = os.path.join(repo, "lekkersim", "sol.py")
    with open(p) as fh:
        src = fh.read()
    out = [f"(* GENERATED by harness/translate_wiring.py from {p}",
           f"   sha256 {hashlib.sha256(src.encode()).hexdigest()} — do not edit *)",
           "From Coq Require Import List Arith Bool.",
           "From Lekkersim Require Import Field Matrix Base Kernel Network Solve Wiring.",
           "Import ListNotations.", ""]
    out.append(tr_connect(find_fn(ast.parse(src), "Solver", "connect")))
    return "\n".join(out) + "\n"


if __name__ == "__main__":
    import sys
    print(translate(sys.argv[1] if len(sys.argv) > 1 else "/repo"))
