"""Translator: Solver.split (sol.py) -> Gallina over Split.v (C12).

`split` grows a list of Python sets while it walks over the structures: every set that contains a neighbour of the
structure gets the structure added IN PLACE and is listed, the listed sets are then removed from the list with
`list.remove` (which removes the first element EQUAL to its argument), and one new set — the neighbourhood of the
structure, or the union of the listed sets — is appended.  The second loop hands every set its links and exposures.
The CURRENT source is read with `ast`, statement by statement; a set is a list taken up to membership (`seteq`),
`sets.remove(S)` is `remove_set S` (first element with the same members).  coq/templates/SplitSrcProof.v proves that
the list of sets the source builds is, set by set and in the same order, the list `Split.split_sets` builds — the
object of `split_partition` / `split_connected` (C12) — for every adjacency and every structure list, and that a part
receives exactly the links / exposures whose (first) structure is a member.  Fail-closed.
"""
from __future__ import annotations

import ast
import hashlib
import os

from translate_params import Unsupported, U, find_fn, strip_doc

HEADER = r"""From Coq Require Import List Arith Lia Bool.
From Lekkersim Require Import Network Split SplitProofs.
Import ListNotations.

Definition seteq (A B : list nat) : bool := forallb (fun x => nin x B) A && forallb (fun x => nin x A) B.
Fixpoint remove_set (S : list nat) (l : list (list nat)) : list (list nat) :=   (* list.remove: the first element EQUAL to S *)
  match l with [] => [] | T :: r => if seteq T S then r else T :: remove_set S r end.
"""

LOOP = ["connected_sets = []",
        "for _set in sets:\n    if any((target in _set for target in st.connected_to)):\n        _set.add(st)\n"
        "        connected_sets.append(_set)",
        "for _set in connected_sets:\n    sets.remove(_set)",
        "if len(connected_sets) == 0:\n    sets.append(set([st] + st.connected_to))\nelse:\n"
        "    sets.append(set().union(*connected_sets))"]

PARTS = ("for i, _set in enumerate(sets):\n"
         "    connections = {t1: t2 for t1, t2 in self.connections.items() if t1[0] in _set}\n"
         "    mapping = {name: pin for name, pin in self.pin_mapping.items() if pin[0] in _set}\n"
         "    solvers.append(Solver(name=f'{self.name}_{i}', structures=list(_set), connections=connections, "
         "pin_mapping=mapping, param_mapping=copy(self.param_mapping), param_dic=deepcopy(self.default_params)))")


def norm(t):
    return t.replace("for (i, _set) in", "for i, _set in").replace("for (t1, t2) in", "for t1, t2 in").replace(
        "for (name, pin) in", "for name, pin in")


def tr_split(fn):
    a = [x.arg for x in fn.args.args]
    if a != ["self"]:
        raise Unsupported(f"Solver.split arguments {a}")
    body = strip_doc(fn.body)
    t = [norm(ast.unparse(x)) for x in body]
    if len(body) != 5 or t[0] != "sets = []" or t[2] != "solvers = []" or t[4] != "return solvers":
        raise Unsupported("Solver.split: shape of the body changed: " + " ; ".join(x.split("\n")[0] for x in t)[:300])
    loop = body[1]
    if not (isinstance(loop, ast.For) and ast.unparse(loop.target) == "st" and ast.unparse(loop.iter) == "self.structures"
            and not loop.orelse):
        raise U(loop, "Solver.split: the loop over the structures")
    got = [norm(ast.unparse(x)) for x in loop.body]
    if got != LOOP:
        k = next((i for i, (x, y) in enumerate(zip(got, LOOP)) if x != y), min(len(got), len(LOOP)))
        raise Unsupported("Solver.split: statement %d of the loop over the structures changed: %s"
                          % (k + 1, (got[k] if k < len(got) else "<missing>")[:300]))
    if t[3] != PARTS:
        raise Unsupported("Solver.split: the construction of the parts changed: " + t[3][:400])
    return ("""Definition split_step_src (adj : nat -> list nat) (sets : list (list nat)) (st : nat) : list (list nat) :=
  let '(sets1, connected_sets) :=
    fold_left (fun ac _set =>
                 if existsb (fun target => nin target _set) (adj st)
                 then (fst ac ++ [st :: _set], snd ac ++ [st :: _set])
                 else (fst ac ++ [_set], snd ac)) sets ([], []) in
  let sets2 := fold_left (fun ss _set => remove_set _set ss) connected_sets sets1 in
  if Nat.eqb (List.length connected_sets) 0 then sets2 ++ [st :: adj st] else sets2 ++ [concat connected_sets].

Definition split_sets_src (adj : nat -> list nat) (structures : list nat) : list (list nat) :=
  fold_left (split_step_src adj) structures [].

Definition split_parts_src (sets : list (list nat)) (connections : list (spin * spin)) (pin_mapping : list (nat * spin))
    : list (list nat * list (spin * spin) * list (nat * spin)) :=
  map (fun _set => (_set, filter (fun tt => nin (fst (fst tt)) _set) connections,
                    filter (fun np => nin (fst (snd np)) _set) pin_mapping)) sets.
""")


def translate(repo: str) -> str:
    p = os.path.join(repo, "lekkersim", "sol.py")
    with open(p) as fh:
        src = fh.read()
    out = [f"(* GENERATED by harness/translate_split.py from {p}",
           f"   sha256 {hashlib.sha256(src.encode()).hexdigest()} — do not edit *)", HEADER]
    out.append(tr_split(find_fn(ast.parse(src), "Solver", "split")))
    return "\n".join(out) + "\n"


if __name__ == "__main__":
    import sys
    print(translate(sys.argv[1] if len(sys.argv) > 1 else "/repo"))
