"""Translator: the index bookkeeping around the star product (C01/C03) -> Gallina.

    Structure.sel_output / sel_input  (structure.py)   which pins stay ("in"/"out" lists)
    Structure.split_in_out            (structure.py)   the four blocks cut out of the structure's matrix
    Structure.get_S_back              (structure.py)   the joined matrix reassembled from the four blocks, new pin indices

These routines only move matrix entries and pins around; every seeded change of rounds 1-8 in them was an index or
ordering slip.  The current source is read with `ast`; the translator recognises the loop nests
    for i, p in enumerate(L1): [self.<X>_pins[p] = i]  for j, q in enumerate(L2): Sproc.S<ab>[:, i, j] = Smatrix[:, pin_dic[<p|q>], pin_dic[<p|q>]]
and the nested np.concatenate of get_S_back, checks them against the block shapes of S_matrix(N, M), and emits
    split_src S pd ins outs : smx K        back_src P : mx K        back_in i / back_out N i : nat        sel_out_src / sel_in_src
coq/templates/JoinSrcProof.v then proves: split_src with pd = position in the pin list is Solve.part; back_src is
Solve.assemble; the new indices are the positions in ins ++ outs; sel_* keep the other pins in their order (Solve.keep).
Fail-closed: anything else raises `Unsupported`.
Trusted about numpy: A[:, i, j] = B[:, r, c] copies entry (r, c) of every sweep slice; np.concatenate along the last /
second-to-last axis puts blocks side by side / on top of each other.
"""
from __future__ import annotations

import ast
import re
import hashlib
import os

from translate_params import Unsupported, U, find_fn, strip_doc

SHAPES = {"S21": ("N", "N"), "S22": ("N", "M"), "S11": ("M", "N"), "S12": ("M", "M")}


def tr_split(fn):
    a = [x.arg for x in fn.args.args]
    if a != ["self", "in_pins", "out_pins"]:
        raise Unsupported(f"split_in_out arguments {a}")
    body = strip_doc(fn.body)
    lists = {"in_pins": "ins", "out_pins": "outs"}
    dims = {}
    blocks = {}
    index = {}
    for st in body:
        t = ast.unparse(st)
        if t in ("in_pins = self.in_list if in_pins is None else in_pins",
                 "out_pins = self.out_lists if out_pins is None else out_pins",
                 "out_pins = self.out_list if out_pins is None else out_pins",
                 "self.in_pins = {}", "self.out_pins = {}"):
            continue
        if isinstance(st, ast.Assign) and isinstance(st.targets[0], ast.Name) and isinstance(st.value, ast.Call) \
                and ast.unparse(st.value.func) == "len" and ast.unparse(st.value.args[0]) in lists:
            dims[st.targets[0].id] = ast.unparse(st.value.args[0])
            continue
        if t == "self.Sproc = S_matrix(N, M, ns=self.ns)":
            if dims.get("N") != "in_pins" or dims.get("M") != "out_pins":
                raise U(st, "S_matrix(N, M) with N, M not the lengths of the in / out lists")
            continue
        if isinstance(st, ast.For):
            # for i, p in enumerate(L1): [self.X_pins[p] = i]; for j, q in enumerate(L2): Sproc.Sab[:, i, j] = Smatrix[:, pd[..], pd[..]]
            def enum(node):
                if not (isinstance(node.iter, ast.Call) and ast.unparse(node.iter.func) == "enumerate" and len(node.iter.args) == 1
                        and ast.unparse(node.iter.args[0]) in lists and isinstance(node.target, ast.Tuple)
                        and len(node.target.elts) == 2 and not node.orelse):
                    raise U(node, "expected `for i, p in enumerate(<in/out list>)`")
                return ast.unparse(node.target.elts[0]), ast.unparse(node.target.elts[1]), ast.unparse(node.iter.args[0])
            i, p, L1 = enum(st)
            for inner in st.body:
                if isinstance(inner, ast.Assign) and isinstance(inner.targets[0], ast.Subscript) \
                        and ast.unparse(inner.targets[0].value) in ("self.in_pins", "self.out_pins"):
                    d = ast.unparse(inner.targets[0].value)
                    if ast.unparse(inner.targets[0].slice) != p or ast.unparse(inner.value) != i or d in index:
                        raise U(inner, "index table must map the pin to its position")
                    index[d] = L1
                    continue
                if isinstance(inner, ast.For):
                    j, q, L2 = enum(inner)
                    if len(inner.body) != 1 or not isinstance(inner.body[0], ast.Assign):
                        raise U(inner, "inner loop must be one assignment")
                    asg = inner.body[0]
                    tg, v = asg.targets[0], asg.value
                    if not (isinstance(tg, ast.Subscript) and ast.unparse(tg.value).startswith("self.Sproc.")
                            and ast.unparse(tg.slice) == f"(slice(None, None, None), {i}, {j})"
                            or ast.unparse(tg).endswith(f"[:, {i}, {j}]")):
                        raise U(asg, "target must be Sproc.S<ab>[:, i, j]")
                    blk = ast.unparse(tg.value).split(".")[-1]
                    if blk not in SHAPES or blk in blocks:
                        raise U(asg, "unknown or repeated block")
                    if not (isinstance(v, ast.Subscript) and ast.unparse(v.value) == "self.Smatrix"
                            and isinstance(v.slice, ast.Tuple) and len(v.slice.elts) == 3
                            and ast.unparse(v.slice.elts[0]) == ":"):
                        raise U(asg, "source must be Smatrix[:, pin_dic[..], pin_dic[..]]")
                    rc = []
                    for e in v.slice.elts[1:]:
                        if not (isinstance(e, ast.Subscript) and ast.unparse(e.value) == "self.pin_dic"
                                and ast.unparse(e.slice) in (p, q)):
                            raise U(asg, "entry must be addressed through pin_dic[<loop pin>]")
                        rc.append("row" if ast.unparse(e.slice) == p else "col")
                    want = SHAPES[blk]
                    if (dims_of(L1), dims_of(L2)) != want:
                        raise U(asg, f"block {blk} is filled over lists of the wrong lengths")
                    blocks[blk] = (L1, L2, rc)
                    continue
                raise U(inner, "unsupported statement in the loop")
            continue
        raise U(st, "unsupported statement")
    if set(blocks) != set(SHAPES):
        raise Unsupported("split_in_out does not fill every block")
    if index != {"self.in_pins": "in_pins", "self.out_pins": "out_pins"}:
        raise Unsupported("split_in_out does not build both index tables")

    def ent(blk):
        L1, L2, rc = blocks[blk]
        r = f"(pd (nth i {lists[L1]} dpin))"
        c = f"(pd (nth j {lists[L2]} dpin))"
        pick = {"row": r, "col": c}
        return (f"tab (List.length {lists[L1]}) (List.length {lists[L2]}) "
                f"(fun i j => S {pick[rc[0]]} {pick[rc[1]]})")
    return ("Definition split_src (S : mx K) (pd : spin -> nat) (ins outs : list spin) : smx K :=\n"
            "  {| sN := List.length ins; sM := List.length outs;\n"
            f"     S11 := {ent('S11')};\n     S12 := {ent('S12')};\n     S21 := {ent('S21')};\n     S22 := {ent('S22')} |}}.\n")


def dims_of(L):
    return {"in_pins": "N", "out_pins": "M"}[L]


def tr_back(fn):
    body = strip_doc(fn.body)
    texts = [ast.unparse(st) for st in body]
    # 1. the nested concatenate
    st = body[0]
    if not (isinstance(st, ast.Assign) and ast.unparse(st.targets[0]) == "self.Smatrix"):
        raise U(st, "get_S_back must start by rebuilding Smatrix")

    def cat(node):
        if not (isinstance(node, ast.Call) and ast.unparse(node.func) == "np.concatenate" and len(node.args) == 1
                and isinstance(node.args[0], ast.List) and len(node.args[0].elts) == 2 and len(node.keywords) == 1
                and node.keywords[0].arg == "axis"):
            raise U(node, "expected np.concatenate([a, b], axis=..)")
        return node.args[0].elts, ast.unparse(node.keywords[0].value)
    rows, ax = cat(st.value)
    if ax != "-2":
        raise U(st, "outer concatenate must stack along axis -2")
    grid = []
    for r in rows:
        cols, ax2 = cat(r)
        if ax2 != "-1":
            raise U(r, "inner concatenate must run along axis -1")
        names = []
        for c in cols:
            t = ast.unparse(c)
            if not t.startswith("self.Sproc.") or t.split(".")[-1] not in SHAPES:
                raise U(c, "only the four blocks may be concatenated")
            names.append(t.split(".")[-1])
        grid.append(names)
    (a, b), (c, d) = grid
    # shapes must fit: a: r1 x c1, b: r1 x c2, c: r2 x c1, d: r2 x c2
    if not (SHAPES[a][0] == SHAPES[b][0] and SHAPES[c][0] == SHAPES[d][0] and SHAPES[a][1] == SHAPES[c][1]
            and SHAPES[b][1] == SHAPES[d][1]):
        raise U(st, "blocks of incompatible shapes are concatenated")
    dim = {"N": "(sN P)", "M": "(sM P)"}
    r1, c1 = dim[SHAPES[a][0]], dim[SHAPES[a][1]]
    back = ("Definition back_src (P : smx K) : mx K :=\n"
            f"  fun i j => if Nat.ltb i {r1} then (if Nat.ltb j {c1} then {a} P i j else {b} P i (j - {c1}))\n"
            f"             else (if Nat.ltb j {c1} then {c} P (i - {r1}) j else {d} P (i - {r1}) (j - {c1})).\n"
            f"Definition back_rows (P : smx K) : nat := {r1} + {dim[SHAPES[c][0]]}.\n")
    # 2. the new indices
    rest = texts[1:]
    want = ["N = self.Sproc.N",
            "for pin, i in self.in_pins.items():\n    self.pin_dic[pin] = i",
            "for pin, i in self.out_pins.items():\n    self.pin_dic[pin] = i + N",
            "del self.Sproc", "self.in_pins = {}", "self.out_pins = {}"]
    if rest != want:
        # accept only the exact bookkeeping (anything else is outside the grammar)
        raise Unsupported("get_S_back: the index bookkeeping after the concatenate changed: " + " ; ".join(rest)[:200])
    back += ("Definition back_in (i : nat) : nat := i.\n"
             "Definition back_out (P : smx K) (i : nat) : nat := i + sN P.\n")
    return back


def tr_sel(fn, kept, chosen):
    a = [x.arg for x in fn.args.args]
    if a != ["self", "pin_list"]:
        raise Unsupported(f"{fn.name} arguments {a}")
    texts = [ast.unparse(st) for st in strip_doc(fn.body)]
    want = [f"self.{chosen} = []", f"self.{kept} = copy(self.pin_list)",
            f"for pin in pin_list:\n    self.{chosen}.append(pin)\n    self.{kept}.remove(pin)"]
    if texts != want:
        raise Unsupported(f"{fn.name}: " + " ; ".join(texts)[:200])
    name = "sel_out_src" if chosen == "out_list" else "sel_in_src"
    # (kept pins, chosen pins): chosen = the argument in its order, kept = the pin list with each chosen pin removed once
    return (f"Definition {name} (pins sel : list spin) : list spin * list spin :=\n"
            "  fold_left (fun st p => (remove1 p (fst st), snd st ++ [p])) sel (pins, []).\n")


def tr_join_pins(join_fn, add_pin_fn):
    """the pin list of the joined structure: `add_pins = self.pin_list + st.pin_list`, every interface pin removed once
    (list.remove), the rest handed to add_pin one by one (append, index = running count, refusal of a repeated pin)"""
    t = [ast.unparse(x) for x in strip_doc(add_pin_fn.body)]
    want = ["if pin in self.pin_list:\n    raise Exception('Pin already present, nothing is done')\nelse:\n"
            "    self.pin_list.append(pin)\n    self.pin_dic[pin] = self.N\n    self.N += 1"]
    if t != want:
        raise Unsupported("Structure.add_pin changed: " + " ; ".join(t)[:300])
    texts = [ast.unparse(x) for x in strip_doc(join_fn.body)]
    want = ["add_pins = self.pin_list + st.pin_list", "for pin in loc_out + tar_in:\n    add_pins.remove(pin)",
            "for pin in add_pins:\n    new_st.add_pin(pin)"]
    try:
        k = texts.index(want[0])
    except ValueError:
        raise Unsupported("Structure.join: `add_pins = self.pin_list + st.pin_list` not found")
    if texts[k:k + 3] != want:
        raise Unsupported("Structure.join: the construction of the new pin list changed: " + " ; ".join(texts[k:k + 3])[:300])
    # add_pins / new_st.pin_list / pin_dic / N must not be touched elsewhere in join
    for i, st in enumerate(strip_doc(join_fn.body)):
        if k <= i < k + 3:
            continue
        for n in ast.walk(st):
            if isinstance(n, (ast.Name, ast.Attribute)) and ast.unparse(n) in ("add_pins", "new_st.pin_list", "new_st.pin_dic", "new_st.N"):
                raise U(st, "Structure.join touches the new pin list outside the three statements that build it")
    return ("Definition join_pins_src (pinsA pinsB loc_out tar_in : list spin) : list spin * list (spin * nat) * nat * bool :=\n"
            "  let add_pins := pinsA ++ pinsB in\n"
            "  let add_pins := fold_left (fun l pin => remove1 pin l) (loc_out ++ tar_in) add_pins in\n"
            "  fold_left (fun (st : list spin * list (spin * nat) * nat * bool) pin =>\n"
            "               let '(pin_list, pin_dic, N, err) := st in\n"
            "               if err then st else\n"
            "               if mem pin pin_list then (pin_list, pin_dic, N, true)\n"
            "               else (pin_list ++ [pin], pin_dic ++ [(pin, N)], (N + 1)%nat, false))\n"
            "            add_pins ([], [], 0%nat, false).\n")


def tr_join_links(join_fn, out_fn, in_fn):
    """which pins are joined: `get_out_to` / `get_in_from` read the first operand's link table (`conn_dict`, a dict: an
    association list with distinct keys) and `join` pairs every selected pin with its recorded partner, after checking
    that the second operand's table points back"""
    t = [ast.unparse(x) for x in strip_doc(out_fn.body)]
    want = ["pin_list = []", "target_list = [st] + st.structures",
            "for (loc_c, loc_name), (tar_c, tar_name) in self.conn_dict.items():\n    if tar_c in target_list:\n"
            "        pin_list.append((loc_c, loc_name))", "return pin_list"]
    if [x.arg for x in out_fn.args.args] != ["self", "st"] or t != want:
        raise Unsupported("Structure.get_out_to changed: " + " ; ".join(t)[:300])
    t = [ast.unparse(x) for x in strip_doc(in_fn.body)]
    want = ["pin_list = []", "loc_list = [self] + self.structures",
            "for (source_c, source_name), (loc_c, loc_name) in st.conn_dict.items():\n    if loc_c in loc_list:\n"
            "        pin_list.append((loc_c, loc_name))", "return pin_list"]
    if [x.arg for x in in_fn.args.args] != ["self", "st"] or t != want:
        raise Unsupported("Structure.get_in_from changed: " + " ; ".join(t)[:300])
    body = strip_doc(join_fn.body)
    texts = [ast.unparse(x) for x in body]
    want = ["loc_out = self.get_out_to(st)", "tar_in = st.get_in_from(self)",
            "if len(loc_out) != len(tar_in):\n    raise Exception('Connectivity problem: Different number of pins')",
            "for pin1 in loc_out:\n    if pin1 != st.conn_dict[self.conn_dict[pin1]]:\n"
            "        raise Exception('Connectivity problem: Not Symmetric')",
            "tar_in = []", "for pin in loc_out:\n    tar_in.append(self.conn_dict[pin])",
            "self.sel_output(loc_out)", "st.sel_input(tar_in)"]
    try:
        k = texts.index(want[0])
    except ValueError:
        raise Unsupported("Structure.join: `loc_out = self.get_out_to(st)` not found")
    if texts[k:k + len(want)] != want:
        raise Unsupported("Structure.join: the selection of the joined pins changed: " + " ; ".join(texts[k:k + len(want)])[:400])
    # loc_out / tar_in / the operands' link tables must not be written anywhere else in join
    for i, st in enumerate(body):
        if k <= i < k + len(want):
            continue
        for n in ast.walk(st):
            if isinstance(n, (ast.Assign, ast.AugAssign, ast.Delete)):
                tg = n.targets if not isinstance(n, ast.AugAssign) else [n.target]
                for x in tg:
                    for y in ast.walk(x):
                        if isinstance(y, (ast.Name, ast.Attribute)) and ast.unparse(y) in ("loc_out", "tar_in", "self.conn_dict", "st.conn_dict"):
                            raise U(st, "Structure.join rebinds the interface pin lists / link tables outside the selection")
            if isinstance(n, ast.Call) and isinstance(n.func, ast.Attribute) and ast.unparse(n.func.value) in (
                    "loc_out", "tar_in", "self.conn_dict", "st.conn_dict") and n.func.attr not in ("items", "get", "keys", "values"):
                raise U(st, "Structure.join mutates the interface pin lists / link tables outside the selection")
    # the operands of `sel_output` / `sel_input` / `split_in_out` are the lists computed here (checked by the texts above);
    # cdA / cdB: the two link tables; targets: the second operand and the structures merged into it
    return ("Definition get_out_to_src (cdA : list (spin * spin)) (targets : list nat) : list spin :=\n"
            "  fold_left (fun pl it => if idmem (fst (snd it)) targets then pl ++ [fst it] else pl) cdA [].\n\n"
            "Definition get_in_from_src (cdA : list (spin * spin)) (locs : list nat) : list spin :=\n"
            "  fold_left (fun pl it => if idmem (fst (snd it)) locs then pl ++ [snd it] else pl) cdA [].\n\n"
            "(* None: an exception (a refusal or a KeyError) *)\n"
            "Definition join_links_src (cdA cdB : list (spin * spin)) (targets : list nat) : option (list spin * list spin) :=\n"
            "  let loc_out := get_out_to_src cdA targets in\n"
            "  let tar_in := get_in_from_src cdA targets in\n"
            "  if negb (Nat.eqb (List.length loc_out) (List.length tar_in)) then None else\n"
            "  if existsb (fun pin1 => match cget pin1 cdA with\n"
            "                          | Some y => match cget y cdB with Some z => negb (spin_eqb pin1 z) | None => true end\n"
            "                          | None => true end) loc_out then None else\n"
            "  if existsb (fun pin => match cget pin cdA with Some _ => false | None => true end) loc_out then None else\n"
            "  Some (loc_out, map (fun pin => match cget pin cdA with Some y => y | None => dpin end) loc_out).\n")


def tr_join_tables(join_fn):
    """the link table and the neighbour list of the merged structure (the last two loops of Structure.join)"""
    body = strip_doc(join_fn.body)
    texts = [ast.unparse(x) for x in body]
    want = ["for st1 in self.connected_to + st.connected_to:\n    if st1 not in new_st.connected_to and st1 not in new_st.structures:\n"
            "        new_st.connected_to.append(st1)",
            "for (st_source, pin_source), (st_target, pin_target) in {**self.conn_dict, **st.conn_dict}.items():\n"
            "    if not (st_source in new_st.structures and st_target in new_st.structures):\n"
            "        new_st.conn_dict[st_source, pin_source] = (st_target, pin_target)"]
    try:
        k = texts.index(want[0])
    except ValueError:
        raise Unsupported("Structure.join: the loop building new_st.connected_to not found / changed")
    if texts[k:k + 2] != want:
        raise Unsupported("Structure.join: the tables of the merged structure changed: " + " ; ".join(texts[k:k + 2])[:400])
    # new_st starts empty and its tables are written nowhere else in join; new_st.structures is complete before the loops
    if "new_st = Structure()" not in texts:
        raise Unsupported("Structure.join: new_st is not a fresh Structure()")
    for i, st in enumerate(body):
        for n in ast.walk(st):
            if isinstance(n, ast.Attribute) and ast.unparse(n) in ("new_st.conn_dict", "new_st.connected_to") and not (k <= i < k + 2):
                raise U(st, "Structure.join touches the merged structure's tables outside the two loops that build them")
            if isinstance(n, ast.Attribute) and ast.unparse(n) == "new_st.structures" and i >= k and not (k <= i < k + 2):
                raise U(st, "Structure.join changes new_st.structures after the tables are built")
    return ("(* dict assignment d[k] = v / the merge {**a, **b} *)\n"
            "Fixpoint cset (k v : spin) (d : list (spin * spin)) : list (spin * spin) :=\n"
            "  match d with [] => [(k, v)] | it :: r => if spin_eqb (fst it) k then (k, v) :: r else it :: cset k v r end.\n"
            "Definition dict_merge (a b : list (spin * spin)) : list (spin * spin) :=\n"
            "  fold_left (fun d it => cset (fst it) (snd it) d) b a.\n\n"
            "Definition join_conn_src (cdA cdB : list (spin * spin)) (structs : list nat) : list (spin * spin) :=\n"
            "  fold_left (fun d it => if negb (idmem (fst (fst it)) structs && idmem (fst (snd it)) structs)\n"
            "                         then cset (fst it) (snd it) d else d) (dict_merge cdA cdB) [].\n\n"
            "Definition join_to_src (toA toB structs : list nat) : list nat :=\n"
            "  fold_left (fun l s => if negb (idmem s l) && negb (idmem s structs) then l ++ [s] else l) (toA ++ toB) [].\n")


def tr_join_structs(join_fn):
    """the list of leaf structures the merged structure stands for"""
    texts = [ast.unparse(x) for x in strip_doc(join_fn.body)]
    def want(o):
        return (f"if len({o}.structures) == 0:\n    new_st.structures.append({o})\n    {o}.gone_to = new_st\nelse:\n"
                f"    for st1 in {o}.structures:\n        new_st.structures.append(st1)\n        st1.gone_to = new_st")
    try:
        k = texts.index(want("self"))
    except ValueError:
        raise Unsupported("Structure.join: the construction of new_st.structures not found / changed")
    if texts[k + 1] != want("st"):
        raise Unsupported("Structure.join: the second half of new_st.structures changed: " + texts[k + 1][:300])
    for i, t in enumerate(texts):
        if i not in (k, k + 1) and re.search(r"new_st\.structures\s*(=|\.append|\.remove|\.pop|\.insert|\.extend|\+=)", t):
            raise Unsupported("Structure.join writes new_st.structures elsewhere: " + t[:200])
    return ("Definition join_structs_src (a b : nat) (sa sb : list nat) : list nat :=\n"
            "  let l := if Nat.eqb (List.length sa) 0 then [a] else fold_left (fun l s => l ++ [s]) sa [] in\n"
            "  if Nat.eqb (List.length sb) 0 then l ++ [b] else fold_left (fun l s => l ++ [s]) sb l.\n")


def translate(repo: str) -> str:
    p = os.path.join(repo, "lekkersim", "structure.py")
    with open(p) as fh:
        src = fh.read()
    tree = ast.parse(src)
    out = [f"(* GENERATED by harness/translate_join.py from {p}",
           f"   sha256 {hashlib.sha256(src.encode()).hexdigest()} — do not edit *)",
           "From Coq Require Import List Arith Lia Bool.",
           "From Lekkersim Require Import Field Matrix Base Kernel Network Solve.",
           "Import ListNotations.",
           "(* list.remove(x): the first occurrence *)",
           "Fixpoint remove1 (x : spin) (l : list spin) : list spin :=",
           "  match l with [] => [] | y :: r => if spin_eqb y x then r else y :: remove1 x r end.",
           "(* dict lookup / `x in list_of_structures` *)",
           "Fixpoint cget (x : spin) (d : list (spin * spin)) : option spin :=",
           "  match d with [] => None | it :: r => if spin_eqb (fst it) x then Some (snd it) else cget x r end.",
           "Definition idmem (n : nat) (l : list nat) : bool := existsb (Nat.eqb n) l.",
           "Section JoinSrc.",
           "Variable K : cfield.", ""]
    out.append(tr_split(find_fn(tree, "Structure", "split_in_out")))
    out.append(tr_back(find_fn(tree, "Structure", "get_S_back")))
    out.append(tr_sel(find_fn(tree, "Structure", "sel_output"), "in_list", "out_list"))
    out.append(tr_sel(find_fn(tree, "Structure", "sel_input"), "out_list", "in_list"))
    out.append(tr_join_pins(find_fn(tree, "Structure", "join"), find_fn(tree, "Structure", "add_pin")))
    out.append("End JoinSrc.")
    out.append(tr_join_links(find_fn(tree, "Structure", "join"), find_fn(tree, "Structure", "get_out_to"),
                             find_fn(tree, "Structure", "get_in_from")))
    out.append(tr_join_tables(find_fn(tree, "Structure", "join")))
    out.append(tr_join_structs(find_fn(tree, "Structure", "join")))
    return "\n".join(out) + "\n"


if __name__ == "__main__":
    import sys
    print(translate(sys.argv[1] if len(sys.argv) > 1 else "/repo"))
