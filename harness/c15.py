"""C15 — read-out helpers are faithful, linear views of the scattering matrix."""
from __future__ import annotations

import json
import random

import numpy as np

from common import Stream, cf, clist, cmat, cnat, cq, cvec, main, rand_dyadic, rand_matrix, setup_repo_import

lk = setup_repo_import()
from lekkersim.pin import Pin  # noqa: E402


def m2j(A):
    return [[[float(x.real), float(x.imag)] for x in row] for row in np.asarray(A)]


def j2m(J):
    return np.array([[complex(*x) for x in row] for row in J], complex)


def pname(k):
    return f"p{k}"


class ReadStream(Stream):
    name = "readout"
    imports = "Field Matrix Base Kernel Network Solve Readout Corr"
    case_type = "rd_case"
    verdict_fn = "rd_verdict"
    shard_size = 40

    def generate(self, rng, tier):
        out = []
        for _ in range(240 if tier == "quick" else 4000):
            n = rng.randint(1, 4)
            ns = rng.randint(1, 4)
            idx = list(range(n))
            rng.shuffle(idx)
            S = [m2j(rand_matrix(rng, n, n, 1, zero_p=0.1) * 4) for _ in range(ns)]
            if rng.random() < 0.25:          # a sweep that STARTS at a reciprocal (symmetric) point
                M0 = j2m(S[0]).reshape(n, n)
                S[0] = m2j((M0 + M0.T) / 2)
            pins = rng.sample(range(n), rng.randint(0, n))
            u = [[k, [z.real, z.imag]] for k, z in ((k, rand_dyadic(rng, 16, 8)) for k in pins)]
            ins = list(range(n))
            rng.shuffle(ins)          # the order in which the pins enter the pin dictionary
            out.append({"idx": idx, "S": S, "u": u, "p": rng.randrange(n), "q": rng.randrange(n),
                        "power": rng.random() < 0.5, "moded": rng.random() < 0.5, "ins": ins})
        return out

    @staticmethod
    def _pin(d, k):
        # half of the models carry modes on their pins (printable name base_mode)
        return Pin(f"p{k}", ("te", "tm")[k % 2]) if d.get("moded") else Pin(f"p{k}")

    @classmethod
    def _pn(cls, d, k):
        return cls._pin(d, k).name

    def _model(self, d):
        n = len(d["idx"])
        S = np.array([j2m(M) for M in d["S"]], complex).reshape(len(d["S"]), n, n)
        pin_dic = {self._pin(d, k): d["idx"][k] for k in d.get("ins", range(n))}
        # one swept parameter and one length-1 parameter (broadcast along the sweep in every table)
        params = {"wl": self._wl(d), "Tmp": np.array([0.375])}
        mod = lk.SolvedModel(pin_dic=pin_dic, param_dic=params, Smatrix=S)
        # the caller re-uses its buffers afterwards: the tables of the result must keep the values it was solved at
        params["wl"] *= 1000.0
        params["Tmp"][0] = -1.0
        params["later"] = np.array([0.0])
        return mod

    @staticmethod
    def _wl(d):
        """the swept values, in the order they were solved: increasing, decreasing or zig-zag (rows are never re-ordered)"""
        ns = len(d["S"])
        wl = np.linspace(1.0, 2.0, ns)
        kind = (len(d["idx"]) + ns + d["p"]) % 3
        if kind == 1:
            wl = wl[::-1].copy()
        elif kind == 2 and ns >= 3:
            wl = np.concatenate([wl[1::2], wl[0::2]])
        return wl

    def _param_columns_ok(self, tab, ns, d):
        """row k of a sweep table carries the k-th value of every parameter (length-1 parameters repeated)"""
        wl = self._wl(d)
        return (len(tab) == ns and np.array_equal(np.asarray(tab["wl"], float), wl)
                and np.array_equal(np.asarray(tab["Tmp"], float), np.full(ns, 0.375)))

    def run(self, d):
        n = len(d["idx"])
        # the model's matrix is given in index order: S_model[i][j] = S[i][j]
        mod = self._model(d)
        u_name = {self._pn(d, k): complex(*v) for k, v in d["u"]}
        u_pin = {self._pin(d, k): complex(*v) for k, v in d["u"]}
        p, q = self._pn(d, d["p"]), self._pn(d, d["q"])

        def reads(upd, P, Q):
            out = {}
            o = mod.get_output(dict(upd), power=d["power"])
            out["out0"] = [complex(o[self._pn(d, k)]) for k in range(n)]
            fo = mod.get_full_output(dict(upd), power=d["power"])
            out["full"] = [[complex(fo[self._pn(d, k)].to_numpy()[r]) for k in range(n)] for r in range(len(d["S"]))]
            dt = mod.get_data(P, Q)
            out["data"] = [(complex(dt["T"].to_numpy()[r]), complex(dt["Amplitude"].to_numpy()[r]))
                           for r in range(len(d["S"]))]
            out["AT0"] = (complex(mod.get_A(P, Q)), complex(mod.get_T(P, Q)))
            # the full sweep table (also what export writes): its (p, q) and (q, p) columns are the same slices of S
            fd = mod.get_full_data()
            PP, QQ = (P if isinstance(P, Pin) else mod.pin[P]), (Q if isinstance(Q, Pin) else mod.pin[Q])
            rev = mod.get_data(Q, P)
            ns = len(d["S"])
            out["fulldata_ok"] = bool(
                np.array_equal(np.asarray(fd[(PP, QQ)]), dt["Amplitude"].to_numpy())
                and np.array_equal(np.asarray(fd[(QQ, PP)]), rev["Amplitude"].to_numpy())
                and all(self._param_columns_ok(t, ns, d) for t in (fo, dt, fd, rev)))
            return out

        def lit(r):
            return ("Obs " + cvec(r["out0"], cf), "Obs " + clist(cvec(row, cf) for row in r["full"]),
                    "Obs " + clist("(%s, %s)" % (cf(t), cf(a)) for t, a in r["data"]),
                    "Obs (%s, %s)" % (cf(r["AT0"][0]), cf(r["AT0"][1])))
        try:
            r1 = reads(u_name, p, q)
            l1 = lit(r1)
        except Exception:
            r1, l1 = None, ("Raised",) * 4
        try:
            PP, QQ = self._pin(d, d["p"]), self._pin(d, d["q"])
            r2 = reads(u_pin, PP, QQ)
        except Exception:
            r2 = None
        same = (r1 is not None and r2 is not None and json.dumps(r1, default=str) == json.dumps(r2, default=str)
                and r1["fulldata_ok"] and r2["fulldata_ok"])
        if same and p != q:
            # the model is re-labelled AFTER it was read (the two names swapped): every accessor must follow the new labels
            try:
                before = (complex(mod.get_A(q, p)), complex(mod.get_T(q, p)), complex(mod.get_PH(q, p)))
                PP, QQ = self._pin(d, d["p"]), self._pin(d, d["q"])
                mod.pin_mapping({PP: QQ, QQ: PP})
                after = (complex(mod.get_A(p, q)), complex(mod.get_T(p, q)), complex(mod.get_PH(p, q)))
                after_pin = (complex(mod.get_A(PP, QQ)), complex(mod.get_T(PP, QQ)),
                             complex(mod.get_PH(PP, QQ)))
                same = before == after == after_pin and bool(
                    np.array_equal(mod.get_data(p, q)["Amplitude"].to_numpy()[:1], np.array([before[0]])))
            except Exception:
                same = False
        # the named matrix S2PD(): rows and columns in alphabetical order of the printable names, labelled with them
        order = sorted(range(n), key=lambda k: self._pn(d, k))
        try:
            if p != q and same:
                mod = self._model(d)            # the labels of the first object were swapped above
            tab = mod.S2PD()
            if list(tab.index) != [self._pn(d, k) for k in order] or list(tab.columns) != list(tab.index):
                raise ValueError("labels of S2PD")
            s2 = "Obs " + clist(cvec([complex(z) for z in row], cf) for row in tab.to_numpy())
        except Exception:
            s2 = "Raised"
        Sm = clist(cmat(j2m(M).reshape(n, n), cq) for M in d["S"])
        return ("{| rd_sorted := %s; rd_s2pd := %s; rd_idx := %s; rd_S := %s; rd_u := %s; rd_pq := (%s, %s); rd_power := %s; rd_same := %s; "
                "rd_out0 := %s; rd_full := %s; rd_data := %s; rd_AT0 := %s |}"
                % (clist(cnat(k) for k in order), s2, clist(cnat(i) for i in d["idx"]), Sm,
                   clist("(%s, %s)" % (cnat(k), cq(complex(*v))) for k, v in d["u"]),
                   cnat(d["p"]), cnat(d["q"]), "true" if d["power"] else "false",
                   "true" if same else "false", l1[0], l1[1], l1[2], l1[3]))

    def nontrivial(self, d):
        return len(d["idx"]) >= 2 and len(d["u"]) >= 1

    def classify(self, d):
        return "n%d/ns%d/%s" % (len(d["idx"]), len(d["S"]), "pow" if d["power"] else "amp")

    def py_repro(self, d):
        return ("import sys; sys.path.insert(0,'/verif/harness'); import c15, json\n"
                f"d=json.loads({json.dumps(d)!r}); m=c15.ReadStream()._model(d)\n"
                "print(m.get_output({c15.Pin(c15.self._pn(d, k)): complex(*v) for k,v in d['u']}, power=d['power']))\n")


# ---------------------------------------------------------------------------------------------
# dB and phase: real-analytic, tied by interval arithmetic (one generated lemma per sample)
import c09  # noqa: E402


class LogPhaseStream(c09.PhysicsStream):
    """get_data's dB and Phase columns and get_PH against 10*log10(T) and arg(A): for the exact input amplitude
    A = a + i b (dyadic rationals) and the observed floats d, theta the generated lemma states
    |10 ln(a^2+b^2)/ln 10 - d| <= 1e-9, |r cos theta - a| <= 1e-9, |r sin theta - b| <= 1e-9, -pi <= theta <= pi
    and is proved by the `interval` tactic"""
    name = "db_phase"
    shard_size = 15
    header = ("From Coq Require Import Reals.\nFrom Interval Require Import Tactic.\n"
              "From Lekkersim Require Import Polar.\nOpen Scope R_scope.\n")

    def generate(self, rng, tier):
        out = []
        for _ in range(60 if tier == "quick" else 1500):
            n = rng.randint(1, 3)
            ns = rng.randint(1, 3)
            S = []
            for _k in range(ns):
                M = [[[0.0, 0.0] for _ in range(n)] for _ in range(n)]
                for i in range(n):
                    for j in range(n):
                        z = rand_dyadic(rng, 16, 16)
                        if rng.random() < 0.25:       # axis-aligned amplitudes: phase 0, pi, +-pi/2
                            z = rng.choice([complex(z.real, 0.0), complex(0.0, z.imag), complex(-abs(z.real), 0.0)])
                        M[i][j] = [z.real, z.imag]
                S.append(M)
            idx = list(range(n))
            rng.shuffle(idx)
            p, q = rng.randrange(n), rng.randrange(n)
            if rng.random() < 0.3:          # a dark pin pair at one sweep point: T = 0, dB = -inf
                S[rng.randrange(ns)][p][q] = [0.0, 0.0]
            out.append({"n": n, "S": S, "idx": idx, "p": p, "q": q, "by_pin": rng.random() < 0.5})
        return out

    def observe(self, d):
        n = d["n"]
        pin_dic = {Pin(pname(k)): d["idx"][k] for k in range(n)}
        S = np.zeros((len(d["S"]), n, n), complex)
        for k, M in enumerate(d["S"]):
            for i in range(n):
                for j in range(n):
                    S[k, d["idx"][i], d["idx"][j]] = complex(*M[i][j])
        mod = lk.model.SolvedModel(pin_dic=pin_dic, param_dic={"wl": np.arange(len(d["S"])) + 1.0}, Smatrix=S)
        P, Q = (Pin(pname(d["p"])), Pin(pname(d["q"]))) if d["by_pin"] else (pname(d["p"]), pname(d["q"]))
        with np.errstate(divide="ignore"):
            tab = mod.get_data(P, Q)
            ph0 = float(mod.get_PH(P, Q))
        return [float(x) for x in tab["dB"]], [float(x) for x in tab["Phase"]], ph0

    def make_lemma(self, name, d):
        rlit = c09.rlit
        dbs, phs, ph0 = self.observe(d)
        if ph0 != phs[0]:
            raise ValueError("get_PH differs from the Phase column at point 0")
        goals = []
        for k, M in enumerate(d["S"]):
            a, b = M[d["p"]][d["q"]]
            if a == 0.0 and b == 0.0:
                if dbs[k] != float("-inf"):
                    raise ValueError("dB of a zero amplitude is not -inf")
                continue
            r2 = "(%s * %s + %s * %s)" % (rlit(a), rlit(a), rlit(b), rlit(b))
            goals.append("Rabs (10 * ln %s / ln 10 - %s) <= 1e-9" % (r2, rlit(dbs[k])))
            goals.append("Rabs (sqrt %s * cos %s - %s) <= 1e-9" % (r2, rlit(phs[k]), rlit(a)))
            goals.append("Rabs (sqrt %s * sin %s - %s) <= 1e-9" % (r2, rlit(phs[k]), rlit(b)))
            goals.append("- PI - 1e-12 <= %s <= PI + 1e-12" % rlit(phs[k]))
        if not goals:
            goals = ["0 <= 1"]
        return ("Lemma %s :\n  %s.\nProof. repeat split; interval with (i_prec 70). Qed.\n"
                % (name, " /\\\n  ".join("(" + g + ")" for g in goals)))

    def classify(self, d):
        return "n%d/s%d" % (d["n"], len(d["S"]))

    def py_repro(self, d):
        return ("import sys; sys.path.insert(0,'/verif/harness'); import c15\n"
                f"d={d!r}\nprint(c15.LogPhaseStream().observe(d))\n")


TRUSTED = [
    "Coq 8.16.1 kernel + vm_compute", "Bignums/Uint63 primitives for the executed instance BQCf",
    "hand-written model Readout.v tied to /repo by this correspondence run (sampled)",
    "pandas DataFrame construction/column access exercised, not verified",
    "dB / phase: Coq.Reals axioms and the Interval tactic (one generated lemma per sample), spec in Polar.v / props/C15.v",
]

if __name__ == "__main__":
    import translate_readout
    from common import source_obligation
    main("C15", [ReadStream(), LogPhaseStream()],
         source_obligations=[
             source_obligation("ReadoutSrc_C15", translate_readout.translate, "ReadoutSrcProof.v",
                               ["get_A_src_is_get_A", "get_T_src_is_get_T", "get_PH_arg_src_is_get_A",
                                "get_output_src_is_get_output", "get_full_output_src_is_model", "get_data_src_is_data_table",
                                "get_full_data_src_is_get_A", "param_columns_src_spec", "param_columns_src_one",
                                "s2pd_src_is_get_A", "print_S_src_is_s2pd"])],
         level_text="props/C15.v; the tie builds random SolvedModels directly (size 1-4, sweep 1-4, non-symmetric matrices, "
                    "scrambled pin index maps), excites random pin subsets with complex amplitudes addressed by name and by Pin "
                    "object, and compares get_output, every row of get_full_output, get_data (T, Amplitude), get_A, get_T with "
                    "the model in amplitude and power mode; by-name and by-Pin results must be identical.",
         trusted_base=TRUSTED, assumptions=["dB = -inf for a zero amplitude is accepted as the extended-real value of 10 log10 0"])
