"""C16 — wiring calls are validated and atomic; pin names are never confused."""
from __future__ import annotations

import json

import wirelib
from common import Stream, clist, cstr, main
from netlib import Pin, Structure, lk
import numpy as np


class InvalidStream(Stream):
    """histories in which ~30 % of the calls are invalid; the observable state must be unchanged by
    every rejected call and the circuit must still complete and solve correctly"""
    name = "invalid"
    imports = "Field Matrix Base Kernel Network Solve Wiring Corr"
    case_type = "wir_case"
    verdict_fn = "wir_verdict"
    shard_size = 15
    by_name = False

    def generate(self, rng, tier):
        n = 160 if tier == "quick" else 2500
        return [wirelib.gen_history(rng, nstruct=rng.randint(2, 5), length=rng.randint(8, 18),
                                    invalid_p=0.3) for _ in range(n)]

    def run(self, d):
        return wirelib.run_history(d, by_name=self.by_name)

    def nontrivial(self, d):
        return any(o[0] == "connect" for o in d["ops"]) and d["ops"][-1][0] == "solve"

    def classify(self, d):
        return "len%d" % (len(d["ops"]) // 5 * 5)

    def shrink(self, d):
        return wirelib.shrink_history(d)

    def py_repro(self, d):
        return ("import sys; sys.path.insert(0,'/verif/harness'); import wirelib, json\n"
                f"d=json.loads({json.dumps(d)!r})\n"
                f"drv=wirelib.Driver(d,{self.by_name})\n"
                "for op in d['ops']:\n    ok,m=drv.apply(op); o=drv.observe(ok,None); print(op, ok, o['free'], o['conns'])\n")


class ByNameStream(InvalidStream):
    name = "byname"
    by_name = True

    def generate(self, rng, tier):
        n = 80 if tier == "quick" else 1200
        return [wirelib.gen_history(rng, nstruct=rng.randint(2, 4), length=rng.randint(8, 16),
                                    invalid_p=0.3) for _ in range(n)]


class Expectation(Exception):
    """a harness-level expectation failed (distinct from the library's own rejections)"""


BASES = ["a0", "b0", "a", "a_b", "b", "a0_x", "x"]
MODES = [None, "b", "x", "te", "b_x"]


def pin_lit(p):
    b, m = p
    return "{| basename := %s; mode_name := %s |}" % (cstr(b), "None" if m is None else "Some " + cstr(m))


class NameStream(Stream):
    name = "names"
    imports = "Field Matrix Base Kernel Network Solve Names Corr"
    case_type = "name_case"
    verdict_fn = "name_verdict"
    shard_size = 100

    def generate(self, rng, tier):
        out = []
        for i in range(150 if tier == "quick" else 2000):
            npins = rng.randint(1, 4)
            pins = []
            while len(pins) < npins:
                p = [rng.choice(BASES), rng.choice(MODES)]
                if p not in pins:
                    pins.append(p)
            ren = []
            if rng.random() < 0.5:
                for p in rng.sample(pins, rng.randint(1, len(pins))):
                    q = [rng.choice(BASES + ["n0", "n1"]), rng.choice(MODES)]
                    ren.append([p, q])
            if len(pins) >= 2 and rng.random() < 0.3:
                # a renumbering whose new names overlap the old ones: p0 -> p1, p1 -> p2, ..., listed in that order
                k = rng.randint(2, len(pins))
                chain = pins[:k]
                ren = [[chain[j], chain[j + 1]] for j in range(k - 1)] + [[chain[-1], ["n9", rng.choice(MODES)]]]
                if rng.random() < 0.3:
                    ren = [[chain[0], chain[1]], [chain[1], chain[0]]]      # a swap
            qs = sorted({(b if m is None else f"{b}_{m}") for b, m in pins + [r[1] for r in ren]} | {"zz"})
            out.append({"pins": pins, "ren": ren, "queries": qs, "via": rng.choice(["model", "structure"])})
            if out[-1]["via"] == "structure" and rng.random() < 0.5:
                out[-1]["lose"] = rng.randrange(len(pins))
        return out

    def run(self, d):
        pins = [Pin(b, m) for b, m in d["pins"]]
        ok, lookups, objs = True, [], []
        try:
            m = lk.Model(pin_dic={p: i for i, p in enumerate(pins)})
            if d["ren"]:
                m.pin_mapping({Pin(*a): Pin(*b) for a, b in d["ren"]})
            if len(m.pin_dic) != len(pins):
                raise ValueError("renaming merged two pins")
            rmap = {tuple(a): tuple(b) for a, b in d["ren"]}
            for i, (b0, m0) in enumerate(d["pins"]):
                nb, nm = rmap.get((b0, m0), (b0, m0))
                if m.pin_dic.get(Pin(nb, nm)) != i:
                    raise ValueError("a renamed pin no longer addresses its own port")
            # addressing by Pin OBJECT in Model.put: own pins and foreign pins that merely print like an own pin
            cands = []
            for p in m.pin_dic:
                cands.append(p)
                if p.mode_name is not None:
                    cands.append(Pin(p.name))
                elif "_" in p.basename:
                    b1, b2 = p.basename.split("_", 1)
                    cands.append(Pin(b1, b2))
            sm = m.solve() if cands else None
            for o in cands[:6]:
                sol = lk.Solver()
                with sol:
                    partner = lk.Waveguide(1.0).put()
                    before = (len(sol.structures), dict(sol.connections), list(sol.free_pins))
                    try:
                        st = m.put(o, (partner, "a0"))
                        acc = True
                        if (st, o) not in sol.connections_list:
                            raise Expectation("accepted placement did not make the requested link")
                    except Expectation:
                        raise
                    except Exception:
                        acc = False
                        # the placement itself may have been registered before the rejected link; the LINK tables must be untouched
                        if dict(sol.connections) != before[1] or (partner, Pin("a0")) not in sol.free_pins:
                            raise Expectation("a rejected put changed the link tables")
                # the same Pin object addressed to the read-outs of the solved model: accepted iff it is one of its pins
                try:
                    sm.get_A(o, o), sm.get_T(o, o), sm.get_output({o: 1.0})
                    racc = True
                except Exception:
                    racc = False
                if racc != acc:
                    raise Expectation("placement and read-outs disagree on whether the Pin object is a pin of the model")
                objs.append(((o.basename, o.mode_name), acc))
            if d.get("lose") is not None and d["via"] == "structure":
                # the placed structure's table is read, the structure then LOSES a pin (its neighbour is removed), and the
                # table is read again: it must describe the pins the structure has now
                st = Structure(model=m)
                _first = dict(st.pin)
                sol = lk.Solver()
                sol.add_structure(st)
                partner = Structure(model=lk.Waveguide(1.0))
                sol.add_structure(partner)
                lost = list(m.pin_dic)[d["lose"] % len(m.pin_dic)]
                sol.connect(st, lost, partner, Pin("a0"))
                sol.remove_structure(partner)
                table = {k: v[1] for k, v in st.pin.items()}
                lost_key = (lost.basename, lost.mode_name)
                objs = []
            else:
                lost_key = None
                table = m.pin if d["via"] == "model" else {k: v[1] for k, v in Structure(model=m).pin.items()}
            for q in d["queries"]:
                p = table.get(q)
                lookups.append(None if p is None else (p.basename, p.mode_name))
        except Exception:
            ok = False
        pins_lit, ren_lit = d["pins"], d["ren"]
        if ok and locals().get("lost_key") is not None:
            # what is left after the renaming and the loss, as a plain pin list
            rmap = {tuple(a): tuple(b) for a, b in d["ren"]}
            pins_lit = [list(rmap.get(tuple(p), tuple(p))) for p in d["pins"]]
            pins_lit = [p for p in pins_lit if tuple(p) != lost_key]
            ren_lit = []
        return ("{| nm_pins := %s; nm_ren := %s; nm_queries := %s; nm_ok := %s; nm_lookups := %s; nm_objs := %s |}"
                % (clist(pin_lit(p) for p in pins_lit),
                   clist("(%s, %s)" % (pin_lit(a), pin_lit(b)) for a, b in ren_lit),
                   clist(cstr(q) for q in d["queries"]), "true" if ok else "false",
                   clist("None" if p is None else "Some " + pin_lit(p) for p in lookups),
                   clist("(%s, %s)" % (pin_lit(p), "true" if a else "false") for p, a in objs)))

    def nontrivial(self, d):
        return len(d["pins"]) >= 2

    def classify(self, d):
        return ("ren" if d["ren"] else "plain") + "/" + d["via"]


TRUSTED = [
    "Coq 8.16.1 kernel + vm_compute",
    "hand-written models Wiring.v / Names.v tied to /repo (a) for the name tables by the translation obligation: "
    "harness/translate_names.py (trusted, fail-closed) reads Pin (must remain a frozen dataclass over (basename, mode_name) with no "
    "hand-written equality), Pin.name, Model.update_pins and Model.pin_mapping from the current source and "
    "coq/templates/NamesSrcProof.v proves them equal to Names.pin_name / update_pins / update_pins o rename_pins for all pin lists "
    "and renamings; and for Solver.connect: harness/translate_wiring.py executes the current source of the guarded command "
    "symbolically over Wiring.wstate and coq/templates/WiringSrcProof.v proves it equal to Wiring.step s (Connect x y) for every "
    "state (which tests, in which order, what is already written at a refusal); (b) by this correspondence run (sampled)",
    "harness: history generator with deliberately invalid calls, observation of the public tables after every call",
]

if __name__ == "__main__":
    import translate_names
    import translate_wiring
    from common import source_obligation
    main("C16", [InvalidStream(), ByNameStream(), NameStream()],
         source_obligations=[source_obligation(
             "NamesSrc_C16", translate_names.translate, "NamesSrcProof.v",
             ["pin_name_src_is_pin_name", "update_pins_src_is_update_pins", "pin_mapping_src_is_model"]),
             source_obligation("WiringSrc_C16", translate_wiring.translate, "WiringSrcProof.v", ["connect_src_is_step"])],
         level_text="props/C16.v: in every state a connected pin is refused for any other partner in either argument "
                    "position with the state untouched; repeating a connect in either orientation is a no-op; every "
                    "validation failure of connect/add leaves the state untouched (partial: see level_note); colliding pin "
                    "names are refused, accepted tables resolve names exactly, renamed pins are addressable. The tie replays "
                    "histories with 30 % invalid calls (occupied pin in either position, pin that does not exist, unknown "
                    "name, structure already present, same-structure link, repeats in both orientations) on /repo, compares "
                    "ok/error and the observable state after every call, then completes and solves the circuit.",
         trusted_base=TRUSTED,
         assumptions=["PARTIAL: atomicity of connect for states whose per-structure tables are inconsistent is not proved; "
                      "consistency along histories is tied by correspondence"])
