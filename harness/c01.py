"""C01 — solved S-matrix equals the exact solution of the network equations."""
from __future__ import annotations

import copy
import json

import numpy as np

import netlib
from common import Stream, main


class NetStream(Stream):
    name = "net"
    imports = "Field Matrix Base Kernel Network Solve Corr"
    case_type = "net_case"
    verdict_fn = "net_verdict"
    shard_size = 25
    selfconn_p = 0.04

    def generate(self, rng, tier):
        n = 300 if tier == "quick" else 4000
        out = []
        for i in range(n):
            big = tier == "thorough" and rng.random() < 0.3
            d = netlib.gen_netlist(rng, max_comps=8 if big else 5, max_pins=4)
            if rng.random() < self.selfconn_p:
                # malformed-but-accepted stream: a link between two free pins of one component
                used = {tuple(x) for c in d["conns"] for x in c}
                for c, comp in enumerate(d["comps"]):
                    fr = [(c, k) for k in range(comp["n"]) if (c, k) not in used]
                    if len(fr) >= 2:
                        d["conns"].append([list(fr[0]), list(fr[1])])
                        d["expo"] = [x for x in d["expo"] if (x[0], x[1]) not in (fr[0], fr[1])]
                        d["selfconn"] = True
                        break
            elif rng.random() < self.selfconn_p or i in (7, 8, 9, 10):
                # malformed: a pin that already has a link gets a second one (must be rejected, both building styles)
                used = [tuple(x) for c in d["conns"] for x in c]
                free = [(c, k) for c, comp in enumerate(d["comps"]) for k in range(comp["n"]) if (c, k) not in used]
                cand = [(u, f) for u in used for f in free if f[0] != u[0]]
                if cand:
                    u, f = rng.choice(cand)
                    # the free pin comes first: in the constructor style the links are a dict keyed by their first end,
                    # and a repeated KEY would make the harness itself drop a link before the library sees it
                    d["conns"].append([list(f), list(u)])
                    d["expo"] = [x for x in d["expo"] if (x[0], x[1]) != f]
                    d["duppin"] = True
                    if i in (7, 8):
                        d["style"] = "ctor"
            if i in (3, 4, 5, 6) and not d.get("selfconn") and not d.get("duppin"):
                # the same malformed self-link, in each building style (constructor and with-block)
                used = {tuple(x) for c in d["conns"] for x in c}
                for c, comp in enumerate(d["comps"]):
                    fr = [(c, k) for k in range(comp["n"]) if (c, k) not in used]
                    if len(fr) >= 2:
                        d["conns"].append([list(fr[0]), list(fr[1])])
                        d["expo"] = [x for x in d["expo"] if (x[0], x[1]) not in (fr[0], fr[1])]
                        d["selfconn"] = True
                        d["style"] = "ctor" if i in (3, 4) else "with"
                        break
            out.append(d)
        return out

    def run(self, d):
        try:
            sol, sts = netlib.build(d)
            mod = sol.solve()
            names = [x[2] for x in d["expo"]]
            got = sorted(p.name for p in mod.pin_dic)
            if got != sorted(names):
                raise ValueError(f"exposed pin set differs: {got} vs {sorted(names)}")
            obs = netlib.obs_matrix_lit(netlib.observe_expo(mod, names))
        except Exception as ex:
            obs = "Raised"
        return netlib.net_case_lit(d, obs)

    def nontrivial(self, d):
        return len(d["comps"]) >= 2 and len(d["conns"]) >= 1 and len(d["expo"]) >= 1

    def classify(self, d):
        multi = len({(min(a[0], b[0]), max(a[0], b[0])) for a, b in d["conns"]}) < len(d["conns"])
        return "c%d/l%d/e%d%s%s" % (len(d["comps"]), len(d["conns"]), len(d["expo"]),
                                    "/multi" if multi else "", "/self" if d.get("selfconn") else "/dup" if d.get("duppin") else "")

    def shrink(self, d):
        return netlib.shrink_netlist(d)

    def py_repro(self, d):
        return ("import sys; sys.path.insert(0,'/verif/harness'); import netlib, json\n"
                f"d=json.loads({json.dumps(d)!r})\n"
                "sol,sts=netlib.build(d); m=sol.solve(); names=[x[2] for x in d['expo']]\n"
                "print(netlib.observe_expo(m,names))\n")


def is_selfconn(st, d, v):
    return any(a[0] == b[0] for a, b in d.get("conns", []))


TRUSTED = [
    "Coq 8.16.1 kernel + vm_compute (no native_compute)",
    "Bignums/Uint63 primitives for the executed instance BQCf (theorems are generic and closed)",
    "hand-written model Solve.v/Network.v tied to /repo (a) for the index bookkeeping around the star product — "
    "Structure.sel_output / sel_input / split_in_out / get_S_back and the choice of the joined pins (get_out_to / get_in_from / the pairing loop of Structure.join) — for ALL matrices, pin lists and link tables by the translation obligation: "
    "harness/translate_join.py (trusted, fail-closed, pattern-based over the ast) emits the blocks / reassembly / selection the "
    "current source computes and coq/templates/JoinSrcProof.v proves them equal to Solve.part / Solve.assemble / positions in "
    "ins ++ outs / Solve.keep / the entries of the link table that Solve.links selects; (b) by this correspondence run (sampled), which covers the rest of Structure.join and the loop",
    "translator's reading of numpy: A[:, i, j] = B[:, r, c] copies entry (r, c) of every slice; np.concatenate on the last / "
    "second-to-last axis puts blocks side by side / on top of each other",
    "harness: netlist generator, construction through the public API, float->dyadic transport, emitter, parser",
    "numpy (matmul/inv/concatenate/indexing) exercised, not verified",
]

if __name__ == "__main__":
    import translate_join
    from common import source_obligation
    main("C01", [NetStream()],
         source_obligations=[source_obligation(
             "JoinSrc_C01", translate_join.translate, "JoinSrcProof.v",
             ["split_src_is_part", "back_src_is_assemble", "back_index_is_position", "sel_out_src_is_keep",
              "sel_in_src_is_keep", "join_pins_src_is_keep", "get_out_to_src_is_filter", "get_in_from_src_is_filter",
              "join_links_src_selects", "join_links_src_are_links", "join_conn_src_is_filter", "join_to_src_spec", "join_conn_src_rep", "join_structs_src_is_leaves"])],
         level_text="props/C01.v: for every netlist and every schedule, if the model of the elimination loop returns a "
                    "result then every solution of the network equations obeys the reported matrix (solve_sound), and "
                    "solutions exist for every excitation (solve_complete); the model refuses a result when a connection "
                    "was not eliminated. The correspondence runs Solver.solve of /repo on random reflective, non-reciprocal, "
                    "multi-link, partially exposed circuits and lets Coq compare every coefficient between exposed pins.",
         trusted_base=TRUSTED,
         assumptions=["theorems conditional on the model returning Ok (every inner system met by the schedule invertible)",
                      "round-off abstracted by tolerance 1e-9"],
         matchers={"self_connection": is_selfconn})
