"""Translator: mode expansion and the mode-wise wiring / queries (model.py, sol.py, structure.py) -> Gallina over Modes.v (C13).

    Model.expand_mode        the new pin dictionary: pin (p, mode i) -> index  i * N + n(p)   (refused when a pin has a mode)
    Model._expand_S          np copies of the single-mode matrix ...
    diag_blocks              ... placed on the diagonal by slice assignment
    Solver.connect_all       one connect per mode the two base names have in common, like with like
    Model.get_pin_modes / get_pin_basenames, Structure.get_pin_modenames / get_pin_basenames

The CURRENT source is read with `ast`.  Index arithmetic (`i * self.N + n`, `m : m + n`, `self.N // self.np`) is translated
expression by expression, the loops become folds over the pin dictionary / the block list, a Python dict is an
association list updated with `dset`, a Python set a list taken up to membership.  coq/templates/ModesSrcProof.v proves:
the generated dictionary is the list of entries ((p, mode_i), Modes.expand_idx N i n) (distinct keys); the generated
matrix equals Modes.expand_S N S at every index below np * N, for every N, np, S; the generated links are exactly
Modes.connect_all_links; the queries are Modes.pin_modes / pin_basenames.  Fail-closed.
"""
from __future__ import annotations

import ast
import hashlib
import os
import warnings

from translate_params import Unsupported, U, find_fn, strip_doc

HEADER = r"""From Coq Require Import List Arith Lia Bool String.
From Lekkersim Require Import Field Matrix Base Names Wiring Modes.
Import ListNotations.
Close Scope string_scope.
Open Scope nat_scope.

Section ModesSrc.
Variable K : cfield.

Definition has_mode (p : pin) : bool := match mode_name p with Some _ => true | None => false end.
Definition omode_eqb (m m' : option string) : bool :=
  pin_eqb {| basename := EmptyString; mode_name := m |} {| basename := EmptyString; mode_name := m' |}.
"""


def arith(node, env):
    """+ * // - over names bound in env and integer literals"""
    if isinstance(node, ast.Constant) and isinstance(node.value, int) and not isinstance(node.value, bool):
        return str(node.value)
    t = ast.unparse(node)
    if t in env:
        return env[t]
    if isinstance(node, ast.BinOp):
        a, b = arith(node.left, env), arith(node.right, env)
        if isinstance(node.op, ast.Add):
            return f"({a} + {b})"
        if isinstance(node.op, ast.Mult):
            return f"({a} * {b})"
        if isinstance(node.op, ast.FloorDiv):
            return f"({a} / {b})"
        if isinstance(node.op, ast.Sub):
            return f"({a} - {b})"
    raise U(node, "unsupported index arithmetic")


def tr_expand_mode(fn):
    a = [x.arg for x in fn.args.args]
    if a != ["self", "mode_list"]:
        raise Unsupported(f"expand_mode arguments {a}")
    body = strip_doc(fn.body)
    t = [ast.unparse(x) for x in body]
    if len(body) != 11:
        raise Unsupported("expand_mode: number of statements changed")
    if t[0] != "for pin in self.pin_dic:\n    if pin.mode_name is not None:\n        raise Exception('Model already has modes')":
        raise Unsupported("expand_mode: the refusal of models that already have modes changed")
    fixed = {1: "self.np = len(mode_list)", 2: "self.mode_list = mode_list", 3: "new_pin_dic = {}",
             5: "self.pin_dic = new_pin_dic", 6: "self.pin: dict[str, Pin] = {pin.name: pin for pin in self.pin_dic}",
             7: "self._create_S = self.create_S", 8: "self.create_S = self._expand_S", 9: "self.N = self.N * self.np",
             10: "return self"}
    for k, want in fixed.items():
        if t[k] != want:
            raise Unsupported(f"expand_mode: statement {k + 1} changed: {t[k][:120]}")
    loop = body[4]
    if not (isinstance(loop, ast.For) and ast.unparse(loop.iter) == "self.pin_dic.items()"
            and ast.unparse(loop.target) in ("(pin, n)", "pin, n") and len(loop.body) == 1
            and isinstance(loop.body[0], ast.For) and not loop.orelse):
        raise U(loop, "expand_mode: the loop over the pins")
    inner = loop.body[0]
    if not (ast.unparse(inner.iter) == "enumerate(self.mode_list)" and ast.unparse(inner.target) in ("(i, mode)", "i, mode")
            and len(inner.body) == 1 and isinstance(inner.body[0], ast.Assign) and not inner.orelse):
        raise U(inner, "expand_mode: the loop over the modes")
    asg = inner.body[0]
    tg = asg.targets[0]
    if not (isinstance(tg, ast.Subscript) and ast.unparse(tg.value) == "new_pin_dic"):
        raise U(asg, "expand_mode: the entry must go into the new pin dictionary")
    key = ast.unparse(tg.slice)
    if key != "Pin(pin.name, mode)":
        raise U(asg, "expand_mode: the new pin must be Pin(<name of the old pin>, <mode>)")
    val = arith(asg.value, {"i": "fst im", "n": "snd pn", "self.N": "N"})
    return ("Definition expand_pins_src (N : nat) (pin_dic : list (pin * nat)) (mode_list : list string) : option (list (pin * nat)) :=\n"
            "  if existsb (fun pn => has_mode (fst pn)) pin_dic then None else\n"
            "  Some (fold_left (fun new_pin_dic pn =>\n"
            "          fold_left (fun new_pin_dic im =>\n"
            "            dset pin_eqb {| basename := pin_name (fst pn); mode_name := Some (snd im) |} " + val + " new_pin_dic)\n"
            "            (combine (seq 0 (List.length mode_list)) mode_list) new_pin_dic) pin_dic []).\n")


def tr_diag_blocks(fn):
    a = [x.arg for x in fn.args.args]
    if a != ["array_list"]:
        raise Unsupported(f"diag_blocks arguments {a}")
    body = strip_doc(fn.body)
    t = [ast.unparse(x) for x in body]
    if len(body) != 7:
        raise Unsupported("diag_blocks: number of statements changed")
    fixed = {0: "for A in array_list:\n    if np.shape(A)[0] != np.shape(A)[1]:\n        raise ValueError('Matrix is not square')",
             1: "Nl = [np.shape(A)[0] for A in array_list]", 2: "N = sum(Nl)", 3: "M = np.zeros((N, N), dtype=complex)",
             4: "m = 0", 6: "return M"}
    for k, want in fixed.items():
        if t[k] != want:
            raise Unsupported(f"diag_blocks: statement {k + 1} changed: {t[k][:120]}")
    loop = body[5]
    if not (isinstance(loop, ast.For) and ast.unparse(loop.iter) == "zip(Nl, array_list)"
            and ast.unparse(loop.target) in ("(n, A)", "n, A") and len(loop.body) == 2 and not loop.orelse):
        raise U(loop, "diag_blocks: the loop over the blocks")
    asg, inc = loop.body
    env = {"m": "snd Mm", "n": "fst nA"}
    if not (isinstance(asg, ast.Assign) and isinstance(asg.targets[0], ast.Subscript) and ast.unparse(asg.targets[0].value) == "M"
            and isinstance(asg.targets[0].slice, ast.Tuple) and len(asg.targets[0].slice.elts) == 2
            and all(isinstance(e, ast.Slice) and e.lower is not None and e.upper is not None and e.step is None
                    for e in asg.targets[0].slice.elts) and ast.unparse(asg.value) == "A"):
        raise U(asg, "diag_blocks: the block must be written by M[lo:hi, lo:hi] = A")
    rs, cs = asg.targets[0].slice.elts
    rlo, rhi, clo, chi = arith(rs.lower, env), arith(rs.upper, env), arith(cs.lower, env), arith(cs.upper, env)
    if not (isinstance(inc, ast.AugAssign) and isinstance(inc.op, ast.Add) and ast.unparse(inc.target) == "m"):
        raise U(inc, "diag_blocks: the offset must advance by m += <size>")
    step = arith(inc.value, env)
    return ("Definition diag_blocks_src (array_list : list (nat * mx K)) : mx K :=\n"
            "  fst (fold_left (fun Mm nA =>\n"
            f"         ((fun r c => if ({rlo} <=? r) && (r <? {rhi}) && ({clo} <=? c) && (c <? {chi})\n"
            f"                      then snd nA (r - {rlo}) (c - {clo}) else fst Mm r c),\n"
            f"          snd Mm + {step})) array_list ((fun _ _ => f0 K), 0)).\n")


def tr_expand_S(fn):
    t = [ast.unparse(x) for x in strip_doc(fn.body)]
    if len(t) != 4 or t[1] != "S = self._create_S()" or t[2] != "self.N = self.N * self.np":
        raise Unsupported("_expand_S changed: " + " ; ".join(t)[:200])
    body = strip_doc(fn.body)
    if not (isinstance(body[0], ast.Assign) and ast.unparse(body[0].targets[0]) == "self.N"):
        raise U(body[0], "_expand_S: the single-mode size")
    n1 = arith(body[0].value, {"self.N": "Ntot", "self.np": "np"})
    ret = body[3]
    if not (isinstance(ret, ast.Return) and isinstance(ret.value, ast.Call) and ast.unparse(ret.value.func) == "diag_blocks"
            and len(ret.value.args) == 1):
        raise U(ret, "_expand_S must return diag_blocks(...)")
    lst = ret.value.args[0]
    if not (isinstance(lst, ast.BinOp) and isinstance(lst.op, ast.Mult)):
        raise U(lst, "_expand_S: the list of blocks")
    cnt, one = (lst.left, lst.right) if isinstance(lst.right, ast.List) else (lst.right, lst.left)
    if not (isinstance(one, ast.List) and len(one.elts) == 1 and ast.unparse(one.elts[0]) == "S"):
        raise U(lst, "_expand_S: every block must be the single-mode matrix")
    k = arith(cnt, {"self.np": "np"})
    return ("Definition expand_S_src (Ntot np : nat) (S : mx K) : mx K :=\n"
            f"  diag_blocks_src (repeat ({n1}, S) {k}).\n")


def tr_connect_all(fn):
    a = [x.arg for x in fn.args.args]
    if a != ["self", "structure1", "basename1", "structure2", "basename2"]:
        raise Unsupported(f"Solver.connect_all arguments {a}")
    t = [ast.unparse(x) for x in strip_doc(fn.body)]
    if len(t) != 5:
        raise Unsupported("Solver.connect_all: number of statements changed")
    if t[0] != "modes1 = set(structure1.get_pin_modenames(basename1))" or t[1] != "modes2 = set(structure2.get_pin_modenames(basename2))":
        raise Unsupported("Solver.connect_all: the mode sets changed")
    if not t[2].startswith("if modes1 != modes2:\n    logger.error("):
        raise Unsupported("Solver.connect_all: the mismatch branch must only log")
    if t[2].count("\n") != 1:
        raise Unsupported("Solver.connect_all: the mismatch branch does more than log")
    inter = {"modes = modes1.intersection(modes2)": ("modes1", "modes2"), "modes = modes2.intersection(modes1)": ("modes2", "modes1"),
             "modes = modes1 & modes2": ("modes1", "modes2")}
    if t[3] not in inter:
        raise Unsupported("Solver.connect_all: the common modes: " + t[3][:120])
    first, second = inter[t[3]]
    want = ("for m in modes:\n    p1 = Pin(basename1, m)\n    p2 = Pin(basename2, m)\n"
            "    self.connect(structure1, p1, structure2, p2)")
    if t[4] != want:
        raise Unsupported("Solver.connect_all: the loop over the common modes changed: " + t[4][:200])
    return ("Definition connect_all_src (basename1 basename2 : string) (modes1 modes2 : list (option string)) : list (pin * pin) :=\n"
            "  map (fun m => ({| basename := basename1; mode_name := m |}, {| basename := basename2; mode_name := m |}))\n"
            f"      (filter (fun m => existsb (omode_eqb m) {second}) {first}).\n")


def tr_queries(model_tree, struct_tree):
    def ret(tree, cls, name):
        t = [ast.unparse(x) for x in strip_doc(find_fn(tree, cls, name).body)]
        return " ; ".join(t)
    want = {("Model", "get_pin_modes"): "return [pin.mode_name for pin in self.pin_dic if pin.basename == basename]",
            ("Model", "get_pin_basenames"): "basenames = [pin.basename for pin in self.pin_dic] ; return list(set(basenames))"}
    for (cls, name), w in want.items():
        got = ret(model_tree, cls, name)
        if got != w:
            raise Unsupported(f"{cls}.{name} changed: {got[:200]}")
    want = {("Structure", "get_pin_modenames"): "return [_[1].mode_name for _ in self.pin_list if _[1].basename == target]",
            ("Structure", "get_pin_basenames"): "return list(set([pin.basename for _, pin in self.pin_list]))"}
    for (cls, name), w in want.items():
        got = ret(struct_tree, cls, name).replace("for (_, pin) in", "for _, pin in")
        if got != w:
            raise Unsupported(f"{cls}.{name} changed: {got[:200]}")
    # the four routines read the pins of their object (keys of pin_dic / second components of pin_list): one definition each
    return ("Definition get_pin_modes_src (pins : list pin) (b : string) : list (option string) :=\n"
            "  map mode_name (filter (fun p => String.eqb (basename p) b) pins).\n"
            "Definition get_pin_basenames_src (pins : list pin) : list string := map basename pins.\n")


def translate(repo: str) -> str:
    srcs = {}
    for f in ("model.py", "sol.py", "structure.py"):
        with open(os.path.join(repo, "lekkersim", f)) as fh:
            srcs[f] = fh.read()
    with warnings.catch_warnings():
        warnings.simplefilter("ignore", SyntaxWarning)
        trees = {f: ast.parse(s) for f, s in srcs.items()}
    h = hashlib.sha256("".join(srcs[f] for f in sorted(srcs)).encode()).hexdigest()
    out = [f"(* GENERATED by harness/translate_modes.py from {repo}/lekkersim/{{model,sol,structure}}.py",
           f"   sha256 {h} — do not edit *)", HEADER]
    mt = trees["model.py"]
    out.append(tr_expand_mode(find_fn(mt, "Model", "expand_mode")))
    diag = [n for n in mt.body if isinstance(n, ast.FunctionDef) and n.name == "diag_blocks"]
    if len(diag) != 1 or diag[0].decorator_list:
        raise Unsupported("module-level diag_blocks not found (or decorated)")
    out.append(tr_diag_blocks(diag[0]))
    out.append(tr_expand_S(find_fn(mt, "Model", "_expand_S")))
    out.append(tr_connect_all(find_fn(trees["sol.py"], "Solver", "connect_all")))
    out.append(tr_queries(mt, trees["structure.py"]))
    return "\n".join(out) + "\n"


if __name__ == "__main__":
    import sys
    print(translate(sys.argv[1] if len(sys.argv) > 1 else "/repo"))
