"""C17 — the active-solver stack follows with-block nesting."""
from __future__ import annotations

import json
import random

import numpy as np

from common import Stream, clist, cnat, main, setup_repo_import

lk = setup_repo_import()
from lekkersim.pin import Pin  # noqa: E402

NSOL = 4
HELPERS = ["put", "putpin", "update_defaults", "set_param_default", "add_param", "monitor",
           "raise_pins", "solve", "connect", "pin_put", "connect_all", "struct_raise_pins", "solver_put_raise"]


class ProgExc(Exception):
    pass


def gen_prog(rng, depth, size):
    """program as nested lists: ["h", k] | ["seq", p, q] | ["with", s, p] | ["raise"] | ["try", p]"""
    if size <= 1 or depth <= 0:
        r = rng.random()
        if r < 0.12:
            return ["raise"]
        return ["h", rng.randrange(len(HELPERS))]
    r = rng.random()
    if r < 0.40:
        k = rng.randint(1, size - 1)
        return ["seq", gen_prog(rng, depth, k), gen_prog(rng, depth, size - k)]
    if r < 0.80:
        return ["with", rng.randint(1, NSOL), gen_prog(rng, depth - 1, size - 1)]
    if r < 0.92:
        return ["try", gen_prog(rng, depth - 1, size - 1)]
    return ["h", rng.randrange(len(HELPERS))]


def prog_lit(p):
    if p[0] == "h":
        return f"PHelper {cnat(p[1])}"
    if p[0] == "seq":
        return f"PSeq ({prog_lit(p[1])}) ({prog_lit(p[2])})"
    if p[0] == "with":
        return f"PWith {cnat(p[1])} ({prog_lit(p[2])})"
    if p[0] == "raise":
        return "PRaise"
    return f"PTry ({prog_lit(p[1])})"


def fingerprint(sols):
    fp = []
    for s in sols:
        fp.append((len(s.structures), len(s.connections), tuple(sorted(p.name for p in s.pin_mapping)),
                   tuple(sorted((k, repr(v)) for k, v in s.default_params.items())),
                   len(s.monitor_st), tuple(sorted(s.param_mapping))))
    return fp


_COUNTER = [0]


def uwg(tag):
    """a waveguide whose pins have names unique to this call (so raise_pins never clashes)"""
    return lk.Waveguide(1.0).pin_mapping({Pin("a0"): Pin(f"a{tag}"), Pin("b0"): Pin(f"b{tag}")})


class Runner:
    def __init__(self):
        self.base = list(lk.sol_list)          # the default solver(s)
        self.sols = [lk.sol_list[-1]] + [lk.Solver(name=f"S{k}") for k in range(1, NSOL + 1)]
        for sol in self.sols:
            sol.default_params["CM"] = 0.5       # a parameter name every solver owns (helpers must touch only one)
        self.log = []
        self.count = 0

    def helper(self, k):
        name = HELPERS[k]
        before = fingerprint(self.sols)
        _COUNTER[0] += 1
        tag = _COUNTER[0]
        target_by_name = None
        if name == "put" and tag % 3 == 1:
            # Model.put with a source pin and a target: placed AND connected in the active solver
            a = uwg(tag).put()
            b = uwg(f"{tag}x").put(f"a{tag}x", (a, f"b{tag}"))
            act = lk.sol_list[-1]
            if b not in act.structures or (b, Pin(f"a{tag}x")) not in act.connections_list:
                self.misdirected = True
            # ... and a placement whose connection is REFUSED (the target pin is taken by now): the error is caught and the
            # program goes on — the stack of active solvers must be what it was
            depth0 = list(lk.sol_list)
            try:
                uwg(f"{tag}y").put(f"a{tag}y", (a, f"b{tag}"))
                self.misdirected = True
            except Exception:
                pass
            if list(lk.sol_list) != depth0:
                self.misdirected = True
        elif name == "put" and tag % 3 == 2:
            # Solver.put with a source pin given by NAME and a target
            sub = lk.Solver(name=f"psub{tag}")
            wst = lk.Structure(model=uwg(f"{tag}x"))
            sub.add_structure(wst)
            sub.map_pins({f"sa{tag}": wst.pin[f"a{tag}x"], f"sb{tag}": wst.pin[f"b{tag}x"]})
            a = uwg(tag).put()
            b = sub.put(f"sa{tag}", (a, f"b{tag}"))
            act = lk.sol_list[-1]
            if (b not in act.structures or (b, Pin(f"sa{tag}")) not in act.connections_list
                    or len(sub.structures) != 1 or sub.connections):
                self.misdirected = True
            # printing the hierarchy (to a limited depth) is a query: the stack of active solvers stays what it is
            depth0 = list(lk.sol_list)
            import contextlib, io
            with contextlib.redirect_stdout(io.StringIO()):
                act.inspect(max_depth=1)
                act.inspect()
            if list(lk.sol_list) != depth0:
                self.misdirected = True
        elif name == "put":
            # ... or the solver of an ENCLOSING, still open with-block is placed into the innermost one (legal: no cycle
            # as long as the inner one is not inside the outer one): the placement belongs to the innermost solver
            act = lk.sol_list[-1]
            outer = lk.sol_list[-2] if len(lk.sol_list) >= 2 else None
            edges = getattr(self, "inside", set())          # (a, b): a has been placed inside b
            def reaches(x, y, seen=()):
                return any(a is x and (b is y or (b not in seen and reaches(b, y, seen + (b,)))) for a, b in edges)
            if outer is not None and outer is not act and outer in self.sols[1:] and act in self.sols \
                    and not reaches(act, outer) and len(edges) < 3:
                n0 = len(act.structures)
                st = outer.put()
                edges.add((outer, act))
                self.inside = edges
                if st not in act.structures or len(act.structures) != n0 + 1 or st.solver is not outer:
                    self.misdirected = True
            else:
                uwg(tag).put()
        elif name == "putpin":
            st = uwg(tag).put()
            lk.putpin(f"q{tag}", st.pin[f"a{tag}"])
        elif name == "update_defaults":
            lk.update_default_params({f"u{tag}": 1.0})
        elif name == "set_param_default":
            d = dict(lk.sol_list[-1].default_params)
            d[f"d{tag}"] = 2.0
            lk.set_default_params(d)
        elif name == "add_param" and tag % 2 == 0:
            # re-define the parameter every solver owns: only the active solver's entry may change
            if "CM" not in lk.sol_list[-1].default_params:
                lk.update_default_params({"CM": 0.5})
            lk.add_param("CM", lambda **kw: 0.5, default={f"CW{tag}": 0.0})
        elif name == "add_param":
            lk.PhaseShifter(param_name=f"PS{tag}").pin_mapping({Pin("a0"): Pin(f"pa{tag}"), Pin("b0"): Pin(f"pb{tag}")}).put()
            lk.add_param(f"PS{tag}", lambda **kw: 0.5, default={f"PW{tag}": 0.0})
        elif name == "monitor":
            st = uwg(tag).put()
            lk.add_structure_to_monitors(st, name=f"M{tag}")
            # the declaration must have reached the innermost active solver (whatever the nesting depth)
            if lk.sol_list[-1].monitor_st.get(st) != f"M{tag}":
                self.misdirected = True
        elif name == "raise_pins":
            lk.PhaseShifter(param_name=f"R{tag}").pin_mapping({Pin("a0"): Pin(f"ra{tag}"), Pin("b0"): Pin(f"rb{tag}")}).put()
            lk.raise_pins()
        elif name == "solve":
            # the model returned must be the active solver's: tell by a marker structure and its name
            try:
                mod = lk.solve(wl=1.0)
            except Exception:
                mod = None
            target_by_name = None if mod is None else mod.name
        elif name == "connect":
            # a stray call first: pins of structures that live in an ENCLOSING solver are not pins of the active one — the
            # helper must refuse them (it acts on the innermost solver only) and nobody's tables may change
            act = lk.sol_list[-1]
            for outer in reversed(lk.sol_list[:-1]):
                fp = [t for t in outer.free_pins]
                pair = next(((x, y) for x in fp for y in fp if x[0] is not y[0]), None)
                if outer is not act and pair is not None:
                    fp0 = fingerprint(self.sols)
                    try:
                        lk.connect(pair[0], pair[1])
                        self.misdirected = True
                    except Exception:
                        if fingerprint(self.sols) != fp0:
                            self.misdirected = True
                    break
            a = uwg(tag).put()
            b = uwg(f"{tag}x").put()
            lk.connect(a.pin[f"b{tag}"], b.pin[f"a{tag}x"])
        elif name == "pin_put":
            st = uwg(tag).put()
            Pin(f"pp{tag}").put(st.pin[f"a{tag}"])
        elif name == "struct_raise_pins":
            # Structure.raise_pins on a placed model: the pins go to the ACTIVE solver
            st = uwg(tag).put()
            st.raise_pins()
        elif name == "solver_put_raise":
            # ... and on a placed SUB-SOLVER (built outside any with-block of the program): still the active solver,
            # never the solver the structure wraps
            sub = lk.Solver(name=f"sub{tag}")
            wst = lk.Structure(model=uwg(tag))
            sub.add_structure(wst)
            sub.map_pins({f"sa{tag}": wst.pin[f"a{tag}"], f"sb{tag}": wst.pin[f"b{tag}"]})
            snap = lambda: (len(sub.structures), tuple(sorted((p.name, id(t[0])) for p, t in sub.pin_mapping.items())))
            before_sub = snap()
            st = sub.put()
            st.raise_pins()
            if snap() != before_sub or not {f"sa{tag}", f"sb{tag}"} <= {p.name for p in lk.sol_list[-1].pin_mapping}:
                self.misdirected = True     # the helper acted on the wrapped sub-solver instead of the active solver
        elif name == "connect_all":
            a = uwg(tag).expand_mode(["te", "tm"]).put()
            b = uwg(f"{tag}x").expand_mode(["te", "tm"]).put()
            lk.connect_all(a, f"b{tag}", b, f"a{tag}x")
        after = fingerprint(self.sols)
        changed = [i for i, (x, y) in enumerate(zip(before, after)) if x != y]
        if name == "solve":
            names = {None: 0}
            names.update({f"S{k}": k for k in range(1, NSOL + 1)})
            if changed:
                self.log.append((k, 99))
            elif target_by_name in names or target_by_name is None:
                # an unsolvable active solver tells nothing; record the active solver itself
                self.log.append((k, names.get(target_by_name, 0) if target_by_name is not None
                                 else self.sols.index(lk.sol_list[-1])))
            else:
                self.log.append((k, 98))
        elif getattr(self, "misdirected", False):
            self.misdirected = False
            self.log.append((k, 97))
        else:
            self.log.append((k, changed[0] if len(changed) == 1 else 90 + len(changed)))

    def run(self, p):
        if p[0] == "h":
            self.helper(p[1])
        elif p[0] == "seq":
            self.run(p[1])
            self.run(p[2])
        elif p[0] == "with":
            with self.sols[p[1]]:
                self.run(p[2])
        elif p[0] == "raise":
            raise ProgExc()
        elif p[0] == "try":
            try:
                self.run(p[1])
            except ProgExc:
                pass


class StackStream(Stream):
    name = "programs"
    imports = "Field Matrix Base Kernel Network Solve Stack Corr"
    case_type = "stack_case"
    verdict_fn = "stack_verdict"
    shard_size = 100

    def generate(self, rng, tier):
        n = 300 if tier == "quick" else 4000
        out = [{"prog": gen_prog(rng, rng.randint(2, 5), rng.randint(3, 14))} for _ in range(n)]
        # a few DEEP programs: 9-12 blocks open at once (solvers re-entered), a helper at every level
        for k in range(3 if tier == "quick" else 20):
            p = ["h", k % len(HELPERS)]
            for depth in range(9 + k % 4):
                p = ["with", 1 + (depth + k) % NSOL, ["seq", ["h", (depth + 2 * k) % len(HELPERS)], p]]
            out.append({"prog": ["seq", p, ["h", 0]]})
        return out

    def run(self, d):
        saved = list(lk.sol_list)
        lk.sol_list[:] = [lk.Solver()]     # a fresh default solver per case (else it grows without bound)
        r = Runner()
        exc = False
        crashed = False
        try:
            r.run(d["prog"])
        except ProgExc:
            exc = True
        except Exception:
            crashed = True          # the library itself raised (e.g. pop from an empty stack): reported as a difference
        finally:
            after = list(lk.sol_list)
            lk.sol_list[:] = saved        # never let a defect leak into the next case
        ids = {id(s): i for i, s in enumerate(r.sols)}
        stack_after = [ids.get(id(s), 77) for s in after[len(r.base) - 1:]]
        if crashed:
            stack_after = stack_after + [99]
        return ("{| sk_prog := %s; sk_init := [0%%nat]; sk_obs_exc := %s; sk_obs_stack := %s; sk_obs_log := %s |}"
                % (prog_lit(d["prog"]), "true" if exc else "false", clist(cnat(i) for i in stack_after),
                   clist(f"({cnat(h)}, {cnat(t)})" for h, t in r.log)))

    def nontrivial(self, d):
        s = json.dumps(d["prog"])
        return s.count('"with"') >= 2 and '"h"' in s

    def classify(self, d):
        s = json.dumps(d["prog"])
        return "with%d%s%s" % (min(s.count('"with"'), 5), "/raise" if '"raise"' in s else "",
                               "/try" if '"try"' in s else "")

    def shrink(self, d):
        p = d["prog"]
        out = []
        if p[0] == "seq":
            out += [{"prog": p[1]}, {"prog": p[2]}]
        if p[0] in ("with", "try"):
            out.append({"prog": p[-1]})
        return out

    def py_repro(self, d):
        return ("import sys; sys.path.insert(0,'/verif/harness'); import c17, json\n"
                f"d=json.loads({json.dumps(d)!r}); r=c17.Runner()\n"
                "try:\n    r.run(d['prog'])\nexcept c17.ProgExc: print('exception')\n"
                "print(r.log, [getattr(s,'name',None) for s in c17.lk.sol_list])\n")


TRUSTED = [
    "Coq 8.16.1 kernel + vm_compute",
    "hand-written model Stack.v tied to /repo (a) by the translation obligation: harness/translate_stack.py (trusted, fail-closed) "
    "classifies EVERY occurrence of lekkersim.sol_list in the package (push / pop / use of sol_list[-1]; anything else is rejected; "
    "module-level helpers must be a single delegation to sol_list[-1]; Solver's own methods must not go through the stack) and "
    "coq/templates/StackSrcProof.v proves that these operations are the PWith / PHelper clauses of Stack.exec for every stack; "
    "(b) by this correspondence run (sampled), which observes which solver each helper actually changed",
    "CPython's with / try semantics as modelled (push on __enter__, __exit__ on both exits, exception propagates)",
    "harness: program generator, detection of the solver a helper changed by fingerprinting every solver",
]

if __name__ == "__main__":
    import translate_stack
    from common import source_obligation
    main("C17", [StackStream()],
         source_obligations=[source_obligation(
             "StackSrc_C17", translate_stack.translate, "StackSrcProof.v",
             ["enter_exit_src", "with_src_is_PWith", "users_act_on_top", "helper_src_is_PHelper"])],
         level_text="props/C17.v: for every program over {helper call, sequence, with-block, raise, try/except}, any nesting "
                    "and both kinds of exit, the stack afterwards equals the stack before (stack_restored), every helper acts "
                    "on the innermost enclosing with-block's solver (helpers_hit_innermost), and earlier effects are untouched "
                    "(log_extends); by structural induction, closed. The tie runs random programs (solvers re-entered while "
                    "active, exceptions at random points, all module-level helpers) on /repo and compares exception/normal exit, "
                    "the stack afterwards and, for every helper call, WHICH solver changed.",
         trusted_base=TRUSTED, assumptions=["Python's with/try semantics is trusted as modelled"])
