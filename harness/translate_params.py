"""Translator: the dictionary programs that deliver parameter values (C05) -> Gallina.

    Structure.update_params   (structure.py)   renaming with shielding
    Model.update_params       (model.py)       own defaults, then what arrives
    Solver.update_params      (sol.py)         defaults, explicit values, add_param definitions
    Solver.add_param          (sol.py)         bookkeeping of the defaults when a definition is added
    Solver.add_structure      (sol.py)         collection of the placed object's defaults under their new names

Each is a loop/branch program over Python dicts.  This module reads the CURRENT source with `ast`, executes it
symbolically over association lists (Params.v: pget / pset / ppop / pupdate / pmem) and emits one Gallina function
per routine: the value of the dictionary the routine produces, as a function of the dictionaries it reads.  Loops
become `fold_left` over the items of the iterated dictionary with the tuple of the variables the body assigns as
state; branches become `if`; `continue` skips the rest of the body.  The emitted file ends with the fixed proof
script coq/templates/ParamsSrcProof.v which shows, for ALL dictionaries, that these functions agree (as finite
maps) with the hand-written model of Params.v that the C05 theorems are about.

Fail-closed: anything outside the grammar raises `Unsupported`.  Reads `d[k]` are only accepted under a dominating
test `k in d` (they are emitted as `match pget k d with Some v => .. | None => <state unchanged> end`, the None arm
being dead); `d.pop(k)` without default is the only raising operation (the routine's result becomes `None`).
Trusted about Python: dict / deepcopy / copy / update / pop / clear / items / `in` mean what the language reference
says; iterating `d.items()` while assigning to EXISTING keys of d is allowed and visits the original items.
"""
from __future__ import annotations

import ast
import hashlib
import os


class Unsupported(Exception):
    pass


def U(node, msg):
    return Unsupported(f"line {getattr(node, 'lineno', '?')}: {msg}: {ast.unparse(node)[:90]}")


class Sym:
    """symbolic executor over one function body"""
    counter = 0

    def __init__(self, inputs: dict, keyvars=(), funcs=None, reserved=None):
        # inputs: python expression text -> (gallina term, type) ; type in {'dict','rmap','adds','key','val','fun'}
        self.inputs = dict(inputs)
        self.env = {}            # python lvalue text -> (term, type)
        self.raised = None       # gallina bool term: the condition under which an exception was raised so far
        self.fresh = 0
        self.reserved = reserved

    # ---------- expressions
    def lookup(self, text, node):
        if text in self.env:
            return self.env[text]
        if text in self.inputs:
            return self.inputs[text]
        raise U(node, "unknown value")

    def key(self, node):
        if isinstance(node, ast.Subscript):
            # <renaming table>[k] under a dominating `k in <renaming table>` (Python dict: the LAST pair with that key)
            mt, mty = self.value(node.value)
            k = self.key(node.slice)
            if mty != "rmap" or (mt, k) not in self.guards:
                raise U(node, "name lookup without a dominating membership test")
            return f"(match rget {k} {mt} with Some x => x | None => {k} end)"
        t, ty = self.value(node)
        if ty != "key":
            raise U(node, "not a parameter name")
        return t

    def value(self, node, guards=()):
        """(term, type)"""
        txt = ast.unparse(node)
        if isinstance(node, (ast.Name, ast.Attribute)):
            return self.lookup(txt, node)
        if isinstance(node, ast.Call):
            f = ast.unparse(node.func)
            if f in ("deepcopy", "copy", "dict") and len(node.args) == 1 and not node.keywords:
                return self.value(node.args[0], guards)
            # func(**args): application of a user function to a dictionary of arguments
            if isinstance(node.func, ast.Name) and not node.args and len(node.keywords) == 1 and node.keywords[0].arg is None:
                ft, fty = self.lookup(node.func.id, node)
                at, aty = self.value(node.keywords[0].value)
                if fty != "fun" or aty != "dict":
                    raise U(node, "application")
                return f"(fn {ft} {at})", "val"
        if isinstance(node, ast.Dict):
            if not node.keys:
                return "(@nil (nat * val))", "dict"
            if len(node.keys) == 1:
                return f"[({self.key(node.keys[0])}, {self.val(node.values[0], guards)})]", "dict"
        if isinstance(node, ast.DictComp) and len(node.generators) == 1:
            g = node.generators[0]
            if g.ifs or g.is_async:
                raise U(node, "comprehension with filter")
            it = self.items_of(g.iter)
            tg = ast.unparse(g.target)
            k, v = ast.unparse(node.key), ast.unparse(node.value)
            names = [e.strip() for e in tg.strip("()").split(",")]
            if len(names) != 2:
                raise U(node, "comprehension target")
            if it[1] == "dict" and [k, v] == names:
                return it[0], "dict"                                     # {key: value for key, value in d.items()}: a copy
            if it[1] == "rmap" and [v, k] == names:
                return f"(map (fun nv => (snd nv, fst nv)) {it[0]})", "rmap"   # {old: new for new, old in m.items()}
            raise U(node, "comprehension shape")
        raise U(node, "unsupported expression")

    def val(self, node, guards=()):
        """a parameter VALUE; subscript reads need a dominating membership guard"""
        if isinstance(node, ast.Call) and ast.unparse(node.func) in ("deepcopy", "copy") and len(node.args) == 1:
            return self.val(node.args[0], guards)
        if isinstance(node, ast.Subscript):
            raise U(node, "subscript read outside the supported positions")
        t, ty = self.value(node, guards)
        if ty != "val":
            raise U(node, "not a value")
        return t

    def items_of(self, node):
        if isinstance(node, ast.Call) and isinstance(node.func, ast.Attribute) and node.func.attr == "items" \
                and not node.args and not node.keywords:
            return self.value(node.func.value)
        raise U(node, "only <dict>.items() can be iterated")

    def cond(self, node):
        """gallina bool term"""
        if isinstance(node, ast.Compare) and len(node.ops) == 1:
            op = node.ops[0]
            if isinstance(op, (ast.In, ast.NotIn)):
                c = node.comparators[0]
                if isinstance(c, ast.List):
                    if self.reserved is None or [ast.unparse(e) for e in c.elts] != self.reserved[1]:
                        raise U(node, "membership in an unexpected literal list")
                    b = f"(inl {self.key(node.left)} {self.reserved[0]})"
                elif isinstance(c, ast.Call) and isinstance(c.func, ast.Attribute) and c.func.attr == "values":
                    raise U(node, "membership in values()")
                else:
                    dt, dty = self.value(c)
                    if dty == "dict":
                        b = f"(pmem {self.key(node.left)} {dt})"
                    elif dty == "rmap":
                        b = f"(inl {self.key(node.left)} (map fst {dt}))"
                    else:
                        raise U(node, "membership")
                return b if isinstance(op, ast.In) else f"(negb {b})"
        raise U(node, "unsupported condition")

    # ---------- statements (symbolic execution; env maps mutable python lvalues to terms)
    def assigned(self, stmts):
        out = []

        def add(t):
            if t not in out:
                out.append(t)
        for st in stmts:
            for n in ast.walk(st):
                if isinstance(n, ast.Assign):
                    for tg in n.targets:
                        add(ast.unparse(tg.value) if isinstance(tg, ast.Subscript) else ast.unparse(tg))
                elif isinstance(n, ast.AugAssign):
                    raise U(n, "augmented assignment")
                elif isinstance(n, ast.Call) and isinstance(n.func, ast.Attribute) and n.func.attr in ("pop", "update", "clear"):
                    add(ast.unparse(n.func.value))
        return out

    def setv(self, text, term, ty):
        self.env[text] = (term, ty)

    def run(self, stmts):
        for i, st in enumerate(stmts):
            if isinstance(st, ast.Expr) and isinstance(st.value, ast.Constant) and isinstance(st.value.value, str):
                continue
            if isinstance(st, ast.Pass):
                continue
            if isinstance(st, ast.If):
                c = self.cond(st.test)
                if any(isinstance(x, ast.Continue) for x in st.body):
                    # `if c: continue` — the rest of the loop body runs only when c is false
                    if len(st.body) != 1 or st.orelse:
                        raise U(st, "continue must be the only statement of its branch")
                    a = self.fork()
                    b = self.fork()
                    b.run(stmts[i + 1:])
                    self.merge(c, a, b)
                    return
                a = self.fork()
                g = self.guard_of(st.test)
                if g is not None:
                    a.guards = a.guards + (g,)      # `if k in d:` licenses reads d[k] in its body
                a.run(st.body)
                b = self.fork()
                b.run(st.orelse)
                self.merge(c, a, b)
                continue
            if isinstance(st, ast.For):
                self.loop(st)
                continue
            if isinstance(st, ast.Assign) and len(st.targets) == 1:
                tg = st.targets[0]
                if isinstance(tg, ast.Subscript):
                    d = ast.unparse(tg.value)
                    dt, dty = self.lookup(d, tg)
                    if dty != "dict":
                        raise U(st, "item assignment to a non-dictionary")
                    k = self.key(tg.slice)
                    # value: either a plain value, or a guarded read  other[k2]
                    v = st.value
                    while isinstance(v, ast.Call) and ast.unparse(v.func) in ("deepcopy", "copy") and len(v.args) == 1:
                        v = v.args[0]
                    if isinstance(v, ast.Subscript):
                        st_, sty = self.value(v.value)
                        if sty != "dict":
                            raise U(st, "read from a non-dictionary")
                        k2 = self.key(v.slice)
                        if (st_, k2) not in self.guards:
                            raise U(st, "subscript read without a dominating membership test")
                        self.setv(d, f"(match pget {k2} {st_} with Some v => pset {k} v {dt} | None => {dt} end)", "dict")
                    else:
                        self.setv(d, f"(pset {k} {self.val(v)} {dt})", "dict")
                    continue
                t, ty = self.value(st.value)
                self.setv(ast.unparse(tg), t, ty)
                continue
            if isinstance(st, ast.Expr) and isinstance(st.value, ast.Call) and isinstance(st.value.func, ast.Attribute):
                c = st.value
                d = ast.unparse(c.func.value)
                meth = c.func.attr
                if meth in ("pop", "update", "clear"):
                    dt, dty = self.lookup(d, c)
                    if dty != "dict":
                        raise U(st, "method of a non-dictionary")
                    if meth == "clear" and not c.args:
                        self.setv(d, "(@nil (nat * val))", "dict")
                        continue
                    if meth == "update" and len(c.args) == 1 and not c.keywords:
                        a = c.args[0]
                        if isinstance(a, ast.Dict) and len(a.keys) == 1:
                            self.setv(d, f"(pset {self.key(a.keys[0])} {self.val(a.values[0])} {dt})", "dict")
                        else:
                            at, aty = self.value(a)
                            if aty != "dict":
                                raise U(st, "update with a non-dictionary")
                            self.setv(d, f"(pupdate {dt} {at})", "dict")
                        continue
                    if meth == "pop" and len(c.args) == 2 and ast.unparse(c.args[1]) == "None":
                        self.setv(d, f"(ppop {self.key(c.args[0])} {dt})", "dict")
                        continue
                    if meth == "pop" and len(c.args) == 1:
                        k = self.key(c.args[0])
                        r = f"(negb (pmem {k} {dt}))"
                        self.raised = r if self.raised is None else f"({self.raised} || {r})"
                        self.setv(d, f"(ppop {k} {dt})", "dict")
                        continue
            raise U(st, "unsupported statement")

    guards: tuple = ()

    def fork(self):
        o = Sym(self.inputs, reserved=self.reserved)
        o.env = dict(self.env)
        o.guards = self.guards
        o.raised = self.raised
        return o

    def merge(self, c, a, b):
        if a.raised != self.raised or b.raised != self.raised:
            raise Unsupported("a raising operation inside a branch")
        keys = []
        for k in list(a.env) + list(b.env):
            if k not in keys:
                keys.append(k)
        for k in keys:
            ta = a.env.get(k, self.env.get(k))
            tb = b.env.get(k, self.env.get(k))
            if ta is None or tb is None:
                continue        # a variable defined in one branch only and not before: not usable afterwards
            if ta == tb:
                self.env[k] = ta
            else:
                if ta[1] != tb[1]:
                    raise Unsupported(f"branches give {k} different types")
                self.env[k] = (f"(if {c} then {ta[0]} else {tb[0]})", ta[1])

    def loop(self, st: ast.For):
        if st.orelse:
            raise U(st, "for-else")
        it, ity = self.items_of(st.iter)
        tg = ast.unparse(st.target)
        Sym.counter += 1
        n = Sym.counter
        if ity == "dict":
            names = [e.strip() for e in tg.strip("()").split(",")]
            if len(names) != 2:
                raise U(st, "loop target")
            binds = {names[0]: (f"(fst it{n})", "key"), names[1]: (f"(snd it{n})", "val")}
        elif ity == "rmap":
            names = [e.strip() for e in tg.strip("()").split(",")]
            if len(names) != 2:
                raise U(st, "loop target")
            binds = {names[0]: (f"(fst it{n})", "key"), names[1]: (f"(snd it{n})", "key")}
        elif ity == "adds":
            if not (isinstance(st.target, ast.Tuple) and len(st.target.elts) == 2 and isinstance(st.target.elts[1], ast.Tuple)
                    and len(st.target.elts[1].elts) == 2):
                raise U(st, "loop target over definitions")
            a, (f, g) = ast.unparse(st.target.elts[0]), [ast.unparse(e) for e in st.target.elts[1].elts]
            binds = {a: (f"(fst it{n})", "key"), f: (f"(fst (snd it{n}))", "fun"), g: (f"(snd (snd it{n}))", "dict")}
        else:
            raise U(st, "iteration over an unsupported value")
        state = [v for v in self.assigned(st.body) if v in self.env or v in self.inputs]
        locals_ = [v for v in self.assigned(st.body) if v not in state]
        if not state:
            raise U(st, "loop without effect")
        # the iterated dictionary may be assigned in the body only at existing keys (value updates): the items visited
        # are those of the dictionary at loop entry
        body = self.fork()
        body.raised = None
        for b, v in binds.items():
            body.env[b] = v
        svars = []
        for k, v in enumerate(state):
            ty = self.lookup(v, st)[1]
            nm = f"s{n}_{k}"
            svars.append((v, nm, ty))
            body.env[v] = (nm, ty)
        body.run(st.body)
        if body.raised is not None:
            raise U(st, "a raising operation inside a loop")
        outs = [body.env[v][0] for v, _, _ in svars]
        pat = svars[0][1] if len(svars) == 1 else "'(" + ", ".join(nm for _, nm, _ in svars) + ")"
        init = [self.lookup(v, st)[0] for v, _, _ in svars]
        tup = (lambda xs: xs[0] if len(xs) == 1 else "(" + ", ".join(xs) + ")")
        fold = f"(fold_left (fun {pat} it{n} => {tup(outs)}) {it} {tup(init)})"
        if len(svars) == 1:
            self.setv(svars[0][0], fold, svars[0][2])
        else:
            for k, (v, nm, ty) in enumerate(svars):
                proj = fold
                # right-nested projections of a left-nested tuple (a, b, c) = ((a, b), c)
                m = len(svars)
                for _ in range(m - 1 - k):
                    proj = f"(fst {proj})"
                if k > 0:
                    proj = f"(snd {proj})"
                self.setv(v, proj, ty)

    def guard_of(self, test):
        if isinstance(test, ast.Compare) and len(test.ops) == 1 and isinstance(test.ops[0], ast.In):
            try:
                dt, dty = self.value(test.comparators[0])
                if dty in ("dict", "rmap"):
                    return (dt, self.key(test.left))
            except Unsupported:
                return None
        return None


def find_fn(tree, cls, name):
    """the definition Python binds to cls.name: the LAST `def` of that name in the class body; a decorator or a class-level
    assignment to the name would replace the function by something this translator does not see"""
    found = None
    for n in tree.body:
        if isinstance(n, ast.ClassDef) and n.name == cls:
            for f in n.body:
                if isinstance(f, ast.FunctionDef) and f.name == name:
                    found = f
                elif isinstance(f, (ast.Assign, ast.AnnAssign, ast.AugAssign)):
                    tg = f.targets if isinstance(f, ast.Assign) else [f.target]
                    if any(isinstance(t, ast.Name) and t.id == name for t in tg):
                        raise U(f, f"{cls}.{name} is re-bound at class level")
    if found is None:
        raise Unsupported(f"{cls}.{name} not found")
    if found.decorator_list:
        raise U(found, f"{cls}.{name} is decorated ({', '.join(ast.unparse(d) for d in found.decorator_list)})")
    return found


def no_override(tree, cls, names):
    """a subclass that must inherit the translated methods unchanged"""
    for n in tree.body:
        if isinstance(n, ast.ClassDef) and n.name == cls:
            for f in ast.walk(n):
                if isinstance(f, (ast.FunctionDef, ast.AsyncFunctionDef)) and f.name in names:
                    raise U(f, f"{cls} overrides {f.name}")
                if isinstance(f, ast.Assign) and any(isinstance(t, ast.Name) and t.id in names for t in f.targets):
                    raise U(f, f"{cls} re-binds one of {names}")


def strip_doc(body):
    if body and isinstance(body[0], ast.Expr) and isinstance(body[0].value, ast.Constant) and isinstance(body[0].value.value, str):
        return body[1:]
    return body


def tr_structure_update(fn):
    """result: the dictionary handed to the wrapped model / solver"""
    a = [x.arg for x in fn.args.args]
    if len(a) != 2:
        raise Unsupported("Structure.update_params arguments")
    s = Sym({a[1]: ("d", "dict"), "self.param_mapping": ("m", "rmap")})
    body = strip_doc(fn.body)
    # tail: self.param_dic = X ; if self.model is not None: self.model.update_params(X) ; if self.solver ...: ...(X)
    tail = body[-3:]
    head = body[:-3]
    texts = [ast.unparse(t) for t in tail]
    if not (texts[0].startswith("self.param_dic = ") and len(texts) == 3):
        raise Unsupported("Structure.update_params: unexpected tail " + texts[0])
    x = texts[0][len("self.param_dic = "):]
    want = [f"if self.model is not None:\n    self.model.update_params({x})",
            f"if self.solver is not None:\n    self.solver.update_params({x})"]
    if texts[1:] != want:
        raise Unsupported("Structure.update_params: the dictionary is not handed to the model / solver as expected")
    s.run(head)
    if s.raised is not None:
        raise Unsupported("Structure.update_params may raise")
    return "Definition structure_update_src (m : rmap) (d : dict) : dict :=\n  %s.\n" % s.lookup(x, fn)[0]


def tr_model_update(fn):
    a = [x.arg for x in fn.args.args]
    s = Sym({a[1]: ("incoming", "dict"), "self.default_params": ("defaults", "dict"), "self.param_dic": ("work", "dict")})
    s.run(strip_doc(fn.body))
    if s.raised is not None:
        raise Unsupported("Model.update_params may raise")
    return ("Definition model_update_src (work defaults incoming : dict) : dict :=\n  %s.\n"
            % s.lookup("self.param_dic", fn)[0])


def tr_solver_update(fn):
    a = [x.arg for x in fn.args.args]
    s = Sym({a[1]: ("kw", "dict"), "self.default_params": ("defaults", "dict"), "self.param_dic": ("work", "dict"),
             "self.param_mapping": ("adds", "adds")})
    s.run(strip_doc(fn.body))
    if s.raised is not None:
        raise Unsupported("Solver.update_params may raise")
    if "self.default_params" in s.env or "self.param_mapping" in s.env:
        raise Unsupported("Solver.update_params modifies the defaults or the definitions")
    return ("Definition solver_update_src (work defaults : dict) (adds : list (nat * (nat * dict))) (kw : dict) : dict :=\n  %s.\n"
            % s.lookup("self.param_dic", fn)[0])


def tr_add_param(fn):
    """the explicit-default path (default is not None): effect on default_params; None = raises"""
    a = [x.arg for x in fn.args.args]
    if a != ["self", "old_name", "func", "default"]:
        raise Unsupported(f"Solver.add_param arguments {a}")
    body = strip_doc(fn.body)
    if not (isinstance(body[0], ast.If) and ast.unparse(body[0].test) == "default is None" and not body[0].orelse):
        raise Unsupported("Solver.add_param: expected the introspection branch first")
    s = Sym({"old_name": ("name", "key"), "default": ("args", "dict"), "func": ("f", "fun"),
             "self.default_params": ("defaults", "dict")})
    rest = body[1:]
    # up = {old_name: (func, default)}; self.param_mapping.update(up): the definition table (not a value dictionary)
    t = [ast.unparse(x) for x in rest[:2]]
    if t != ["up = {old_name: (func, default)}", "self.param_mapping.update(up)"]:
        raise Unsupported("Solver.add_param: registration of the definition changed: " + "; ".join(t))
    s.run(rest[2:])
    raised = s.raised or "false"
    return ("Definition add_param_src (defaults : dict) (name : nat) (args : dict) : option dict :=\n"
            "  if %s then None else Some %s.\n" % (raised, s.lookup("self.default_params", fn)[0]))


def tr_add_structure(fn):
    """the default-collection half (everything after the registration of the structure)"""
    body = strip_doc(fn.body)
    if not (isinstance(body[0], ast.If) and ast.unparse(body[0].test) == "structure not in self.structures"):
        raise Unsupported("Solver.add_structure: expected the membership guard first")
    rest = body[1:]
    # default_params := structure.model.default_params | structure.solver.default_params | {}
    sel = [i for i, st in enumerate(rest) if isinstance(st, ast.If) and ast.unparse(st.test) == "structure.model is not None"]
    if len(sel) != 1:
        raise Unsupported("Solver.add_structure: selection of the placed object's defaults not found")
    want = ("if structure.model is not None:\n    default_params = structure.model.default_params\n"
            "elif structure.solver is not None:\n    default_params = structure.solver.default_params\n"
            "else:\n    default_params = {}")
    if ast.unparse(rest[sel[0]]) != want:
        raise Unsupported("Solver.add_structure: selection of the placed object's defaults changed")
    s = Sym({"structure.param_mapping": ("m", "rmap"), "self.default_params": ("mine", "dict"),
             "default_params": ("child", "dict")}, reserved=("reserved", ["'R'", "'w'", "'pol'"]))
    s.run(rest[:sel[0]] + rest[sel[0] + 1:])
    if s.raised is not None:
        raise Unsupported("Solver.add_structure may raise in the collection of defaults")
    return ("Definition collect_defaults_src (reserved : list nat) (m : rmap) (child mine : dict) : dict :=\n  %s.\n"
            % s.lookup("self.default_params", fn)[0])


def translate(repo: str) -> str:
    Sym.counter = 0
    srcs = {}
    trees = {}
    for f in ("structure.py", "model.py", "sol.py"):
        p = os.path.join(repo, "lekkersim", f)
        with open(p) as fh:
            srcs[f] = fh.read()
        trees[f] = ast.parse(srcs[f])
    h = hashlib.sha256("".join(srcs[k] for k in sorted(srcs)).encode()).hexdigest()
    out = [f"(* GENERATED by harness/translate_params.py from {repo}/lekkersim/{{structure,model,sol}}.py",
           f"   sha256 {h} — do not edit *)",
           "From Coq Require Import List Arith Lia Bool QArith.",
           "From Lekkersim Require Import Base Params.",
           "Import ListNotations.",
           "(* lookup in a renaming table built as a Python dict: the last pair with that key wins *)",
           "Definition rget (k : nat) (l : list (nat * nat)) : option nat :=",
           "  match find (fun on => Nat.eqb (fst on) k) (rev l) with Some on => Some (snd on) | None => None end.",
           "Section ParamsSrc.",
           "Variable fn : nat -> dict -> val.", ""]
    out.append(tr_structure_update(find_fn(trees["structure.py"], "Structure", "update_params")))
    out.append(tr_model_update(find_fn(trees["model.py"], "Model", "update_params")))
    out.append(tr_solver_update(find_fn(trees["sol.py"], "Solver", "update_params")))
    out.append(tr_add_param(find_fn(trees["sol.py"], "Solver", "add_param")))
    out.append(tr_add_structure(find_fn(trees["sol.py"], "Solver", "add_structure")))
    out.append("End ParamsSrc.")
    return "\n".join(out) + "\n"


if __name__ == "__main__":
    import sys
    print(translate(sys.argv[1] if len(sys.argv) > 1 else "/repo"))
