"""Shared machinery of the correspondence checks (see DESIGN.md §3).

Each property module provides *streams*; a stream knows how to generate case descriptions
(JSON-able), how to run the implementation on one description and emit the Coq term of the case
(inputs + observation), and which Coq verdict function decides it.  This module shards the cases
into generated .v files, evaluates them with coqc (vm_compute inside Coq decides agreement in exact
arithmetic), shrinks failing cases, matches them against known_findings.json, writes replays and
the evidence file, and re-checks the property's theorem file (Print Assumptions captured).
"""
from __future__ import annotations

import fractions
import hashlib
import json
import math
import os
import random
import re
import subprocess
import sys
import time
from concurrent.futures import ThreadPoolExecutor

VERIF = os.path.dirname(os.path.dirname(os.path.abspath(__file__)))
REPO = os.environ.get("LEKKERSIM_REPO", "/repo")
COQ = os.path.join(VERIF, "coq")
GEN = os.environ.get("VERIF_GEN_DIR") or os.path.join(COQ, "gen")   # generated case files (override: parallel scratch runs)
NPROC = int(os.environ.get("VERIF_JOBS", "16"))
DEFAULT_SEED = 20260930

VERDICTS = ("Agree", "Differ", "ModelUndefined", "ImplError", "BothReject", "ModelSingular")
# ModelSingular: an inner system of the model is exactly singular while floating point returned numbers —
# outside "for which it is defined"; counted in the evidence, never an alarm
GOOD = ("Agree", "BothReject", "ModelSingular")


def setup_repo_import():
    """Make `import lekkersim` resolve to /repo's working tree, quietly."""
    os.environ.setdefault("PYTHONHASHSEED", "0")
    os.environ["LEKKERSIM_VERIF"] = "1"
    if REPO not in sys.path:
        sys.path.insert(0, REPO)
    import logging
    import warnings

    warnings.filterwarnings("ignore")
    import lekkersim  # noqa

    assert os.path.abspath(os.path.dirname(lekkersim.__file__)) == os.path.join(
        os.path.abspath(REPO), "lekkersim"
    ), lekkersim.__file__
    logging.getLogger("lekkersim").setLevel(logging.CRITICAL)
    for h in list(logging.getLogger("lekkersim").handlers):
        logging.getLogger("lekkersim").removeHandler(h)
    logging.getLogger("lekkersim").addHandler(logging.NullHandler())
    logging.getLogger("lekkersim").propagate = False
    return lekkersim


# ---------------------------------------------------------------------------------------------
# Coq literals


def zlit(n: int) -> str:
    return f"({n})" if n < 0 else str(n)


def dyadic(x: float):
    """exact (numerator, denominator) of a float"""
    fr = fractions.Fraction(x)
    return fr.numerator, fr.denominator


def cq(z) -> str:
    """exact Gaussian rational literal of a complex whose parts are floats (exact dyadics)"""
    z = complex(z)
    a, da = dyadic(z.real)
    b, db = dyadic(z.imag)
    d = max(da, db)
    a *= d // da
    b *= d // db
    return f"(cq {zlit(a)} {zlit(b)} {d})"


def _me(x: float):
    if x == 0.0:
        return 0, 0
    if math.isnan(x) or math.isinf(x):
        raise ValueError("non-finite observation")
    m, e = math.frexp(x)
    m = int(m * (1 << 53))
    e -= 53
    while m % 2 == 0 and m != 0:
        m //= 2
        e += 1
    return m, e


def cf(z) -> str:
    """observed complex float as exact value m1*2^e1 + i m2*2^e2"""
    z = complex(z)
    m1, e1 = _me(z.real)
    m2, e2 = _me(z.imag)
    return f"(cf {zlit(m1)} {zlit(e1)} {zlit(m2)} {zlit(e2)})"


def clist(items) -> str:
    return "[" + "; ".join(items) + "]"


def cmat(M, lit=cq) -> str:
    """2-D array -> list (list QcC)"""
    return clist(clist(lit(x) for x in row) for row in M)


def cvec(v, lit=cq) -> str:
    return clist(lit(x) for x in v)


def cstr(s: str) -> str:
    return '"' + s.replace('"', '""') + '"'


def cnat(n: int) -> str:
    return f"{int(n)}%nat"


# ---------------------------------------------------------------------------------------------
# random dyadic matrices


def rand_dyadic(rng: random.Random, num=6, den=16) -> complex:
    return complex(rng.randint(-num, num) / den, rng.randint(-num, num) / den)


def rand_matrix(rng: random.Random, n: int, m: int, scale_dim: int | None = None, zero_p=0.15):
    """n x m matrix of Gaussian dyadics; inf-norm < 0.55 for row length <= scale_dim"""
    import numpy as np

    sd = max(1, scale_dim if scale_dim is not None else max(n, m))
    den = 16 * (1 << max(0, math.ceil(math.log2(sd))))
    A = np.zeros((n, m), complex)
    for i in range(n):
        for j in range(m):
            if rng.random() < zero_p:
                continue
            A[i, j] = rand_dyadic(rng, 6, den)
    return A


# ---------------------------------------------------------------------------------------------
# running Coq


def coq_args():
    return ["-Q", os.path.join(COQ, "theories"), "Lekkersim", "-Q", os.path.join(COQ, "props"),
            "LekkersimProps", "-Q", GEN, "LekkersimGen", "-w", "-all"]


def ensure_theory_built():
    """The static theory does not depend on /repo; it is built by setup_cmd and re-made here
    (no-op when up to date).  A failing build is an error of the machinery, never a pass."""
    import glob
    files = sorted(glob.glob(os.path.join(COQ, "theories", "*.v"))) + \
        sorted(glob.glob(os.path.join(COQ, "props", "*.v")))
    files = [os.path.relpath(f, COQ) for f in files]
    subprocess.run(["coq_makefile", "-f", "_CoqProject", "-o", "Makefile"] + files, cwd=COQ,
                   check=True, stdout=subprocess.DEVNULL, stderr=subprocess.DEVNULL)
    r = subprocess.run(["timeout", "3000", "make", "-j", str(NPROC)], cwd=COQ,
                       stdout=subprocess.PIPE, stderr=subprocess.STDOUT, text=True)
    if r.returncode != 0:
        sys.stdout.write(r.stdout[-4000:])
        raise SystemExit("FATAL: static Coq theory does not build")


def run_coq_file(path: str, timeout=1800):
    r = subprocess.run(["timeout", str(timeout), "coqc"] + coq_args() + [path],
                       stdout=subprocess.PIPE, stderr=subprocess.STDOUT, text=True, cwd=COQ)
    return r.returncode, r.stdout


HEADER = """From Coq Require Import ZArith QArith List String.
From Lekkersim Require Import {imports}.
Import ListNotations.
Open Scope Z_scope.
Open Scope string_scope.
"""


def shard_source(imports: str, case_type: str, verdict_fn: str, terms: list[str]) -> str:
    src = HEADER.format(imports=imports)
    src += f"Definition cases : list {case_type} := [\n" + ";\n".join(terms) + "\n].\n"
    src += f"Definition verdicts := Eval vm_compute in (map {verdict_fn} cases).\n"
    src += "Print verdicts.\n"
    return src


def eval_shards(prefix: str, shards: list[str]):
    """shards: Coq sources. Returns list of (returncode, output)."""
    os.makedirs(GEN, exist_ok=True)
    paths = []
    for k, src in enumerate(shards):
        p = os.path.join(GEN, f"cases_{prefix}_{k:03d}.v")
        with open(p, "w") as f:
            f.write(src)
        paths.append(p)
    with ThreadPoolExecutor(max_workers=NPROC) as ex:
        res = list(ex.map(run_coq_file, paths))
    for p in paths:  # keep disk clean; sources are reproducible from the replay/seed
        for ext in (".vo", ".vok", ".vos", ".glob"):
            q = p[:-2] + ext
            if os.path.exists(q):
                os.remove(q)
        aux = os.path.join(os.path.dirname(p), "." + os.path.basename(p)[:-2] + ".aux")
        if os.path.exists(aux):
            os.remove(aux)
    return res, paths


def parse_verdicts(out: str):
    i = out.find("verdicts =")
    if i < 0:
        return None
    return re.findall(r"\b(Agree|Differ|ModelUndefined|ImplError|BothReject|ModelSingular)\b", out[i:])


# ---------------------------------------------------------------------------------------------
# streams


class Stream:
    """One kind of correspondence case of a property."""

    name = "stream"
    imports = "Field Matrix Base Kernel Corr"
    case_type = "add_case"
    verdict_fn = "add_verdict"
    shard_size = 100

    def generate(self, rng: random.Random, tier: str) -> list:
        raise NotImplementedError

    def run(self, desc) -> str:
        """run the implementation on desc; return the Coq term of the case"""
        raise NotImplementedError

    def nontrivial(self, desc) -> bool:
        return True

    def shrink(self, desc):
        return []

    def classify(self, desc) -> str:
        return "case"

    def py_repro(self, desc) -> str:
        return ""


def key_of(desc) -> str:
    return hashlib.sha1(json.dumps(desc, sort_keys=True, default=str).encode()).hexdigest()[:12]


def evaluate(stream: Stream, descs: list, prefix: str):
    """Returns list of verdict strings (same order). Implementation exceptions inside run() that
    are not part of the case's observation are reported as 'HarnessError:<msg>'."""
    if hasattr(stream, "custom_eval"):
        return stream.custom_eval(descs, prefix)
    terms, idx, verdicts = [], [], [None] * len(descs)
    for i, d in enumerate(descs):
        try:
            terms.append(stream.run(d))
            idx.append(i)
        except Exception as ex:  # the driver could not drive the API at all
            verdicts[i] = f"HarnessError:{type(ex).__name__}:{ex}"
    shards, spans = [], []
    for k in range(0, len(terms), stream.shard_size):
        shards.append(shard_source(stream.imports, stream.case_type, stream.verdict_fn,
                                   terms[k:k + stream.shard_size]))
        spans.append(idx[k:k + stream.shard_size])
    res, paths = eval_shards(prefix, shards)
    for (rc, out), span, path in zip(res, spans, paths):
        vs = parse_verdicts(out) if rc == 0 else None
        if vs is None or len(vs) != len(span):
            for i in span:
                verdicts[i] = "CoqError:" + out[-600:].replace("\n", " | ")
        else:
            for i, v in zip(span, vs):
                verdicts[i] = v
    return verdicts


# ---------------------------------------------------------------------------------------------
# known findings


def load_known():
    p = os.path.join(VERIF, "known_findings.json")
    if not os.path.exists(p):
        return []
    with open(p) as f:
        return json.load(f).get("findings", [])


# ---------------------------------------------------------------------------------------------
# theorems


def check_theorems(prop: str):
    """(Re)compile props/<prop>.v, capture Print Assumptions. Returns dict."""
    path = os.path.join(COQ, "props", f"{prop}.v")
    if not os.path.exists(path):
        return {"file": None, "theorems": [], "ok": False, "output": "no theorem file"}
    with open(path) as f:
        src = f.read()
    for bad in ("Admitted", "admit.", "Axiom ", "Parameter ", "Conjecture ", "Unset Guard",
                "bypass_check", "Admit Obligations"):
        if bad in src:
            return {"file": path, "theorems": [], "ok": False, "output": f"forbidden: {bad}"}
    rc, out = run_coq_file(path, timeout=1200)
    thms = re.findall(r"^\s*(?:Theorem|Corollary)\s+(\w+)", src, re.M)
    examples = re.findall(r"^\s*(?:Example)\s+(\w+)", src, re.M)
    assumptions = {}
    # output of "Print Assumptions t." is either "Closed under the global context" or "Axioms:\n..."
    blocks = re.split(r"(?=Closed under the global context|Axioms:)", out)
    blocks = [b.strip() for b in blocks if b.strip().startswith(("Closed", "Axioms"))]
    pa = re.findall(r"Print Assumptions\s+(\w+)", src)
    for name, b in zip(pa, blocks):
        assumptions[name] = b if len(b) < 3000 else b[:3000] + " ..."
    return {"file": path, "theorems": thms, "examples": examples, "ok": rc == 0,
            "assumptions": assumptions, "output": out[-1500:] if rc != 0 else ""}


def static_gate():
    """No Admitted/Axiom/... anywhere in the development."""
    bad = []
    pat = re.compile(r"\b(Admitted|admit|Axiom|Axioms|Parameter|Parameters|Conjecture|"
                     r"Admit Obligations|bypass_check)\b|Unset Guard|Unset Positivity|"
                     r"Unset Universe|type-in-type|impredicative-set")
    for sub in ("theories", "props"):
        d = os.path.join(COQ, sub)
        for fn in sorted(os.listdir(d)):
            if not fn.endswith(".v"):
                continue
            with open(os.path.join(d, fn)) as f:
                txt = f.read()
            txt = re.sub(r"\(\*.*?\*\)", "", txt, flags=re.S)
            for m in pat.finditer(txt):
                bad.append(f"{sub}/{fn}: {m.group(0)}")
    return bad


REAL_AXIOMS = ("ClassicalDedekindReals.sig_not_dec", "ClassicalDedekindReals.sig_forall_dec",
               "FunctionalExtensionality.functional_extensionality_dep", "Classical_Prop.classic")


def source_obligation(name: str, translate, template: str, theorems: list[str], allowed_axioms=()):
    """returns a callable: translate /repo's current source to Gallina (translate(REPO) -> text), append the fixed proof
    script coq/templates/<template>, compile; ok iff coqc accepts the file and every theorem is closed under the global
    context — or, when `allowed_axioms` is given (theorems over Coq's reals), depends on no axiom outside that list"""
    def run():
        os.makedirs(GEN, exist_ok=True)
        path = os.path.join(GEN, f"{name}.v")
        res = {"name": name, "theorems": theorems, "template": f"coq/templates/{template}", "file": path}
        try:
            text = translate(REPO)
        except Exception as ex:     # fail-closed translator: the source left the translatable fragment
            res.update(ok=False, stage="translate", output=f"{type(ex).__name__}: {ex}")
            return res
        with open(os.path.join(COQ, "templates", template)) as f:
            proof = f.read()
        for bad in ("Admitted", "admit.", "Axiom ", "Parameter ", "Conjecture ", "Unset Guard", "bypass_check"):
            if bad in re.sub(r"\(\*.*?\*\)", "", proof, flags=re.S):
                res.update(ok=False, stage="static_gate", output=f"forbidden: {bad}")
                return res
        with open(path, "w") as f:
            f.write(text + "\n" + proof)
        rc, out = run_coq_file(path, timeout=600)
        for ext in (".vo", ".vok", ".vos", ".glob"):
            q = path[:-2] + ext
            if os.path.exists(q):
                os.remove(q)
        closed = out.count("Closed under the global context")
        summary = "Closed under the global context"
        if allowed_axioms:
            blocks = [b for b in re.split(r"(?=Closed under the global context|Axioms:)", out)
                      if b.startswith(("Closed", "Axioms"))]
            used = set()
            for b in blocks:
                if b.startswith("Axioms:"):
                    used |= {ln.split()[0] for ln in b.splitlines()[1:] if ln.strip() and not ln[0].isspace()}
            extra = sorted(used - set(allowed_axioms))
            closed = len(blocks) if not extra else -1
            summary = ("axioms of the standard library only: " + ", ".join(sorted(used))) if not extra else \
                ("axioms outside the allowed list: " + ", ".join(extra))
        res.update(ok=(rc == 0 and closed == len(theorems)), stage="coqc",
                   source_sha256=hashlib.sha256(text.encode()).hexdigest(),
                   print_assumptions=summary if closed == len(theorems) else (summary + " | " + out[-800:]),
                   output=out[-2000:])
        return res
    return run


# ---------------------------------------------------------------------------------------------
# the generic check driver


def write_json(path, obj):
    os.makedirs(os.path.dirname(path), exist_ok=True)
    with open(path, "w") as f:
        json.dump(obj, f, indent=1, default=str)


def run_check(prop: str, streams: list[Stream], tier: str, seed: int, *, level_text: str,
              trusted_base: list[str], assumptions: list[str], extra=None, matchers=None,
              budget=None, source_obligations=None):
    """Generic property check. Returns process exit code."""
    t0 = time.time()
    ensure_theory_built()
    known = [k for k in load_known() if k.get("property") == prop and k.get("status") == "known"]
    matchers = matchers or {}
    gate = static_gate()
    thm = check_theorems(prop)
    violations = []  # (replay path, text)
    known_lines = []
    stats = {}
    samples = []
    total_eval = 0
    nontriv = set()
    replay_dir = os.path.join(os.environ.get("VERIF_REPLAY_DIR", os.path.join(VERIF, "replays")), prop)

    if gate:
        p = os.path.join(replay_dir, "static_gate.json")
        write_json(p, {"property": prop, "kind": "static_gate", "what": gate})
        violations.append((p, "no-failing-input-found"))
    if not thm["ok"]:
        p = os.path.join(replay_dir, "theorems.json")
        write_json(p, {"property": prop, "kind": "theorem_file_does_not_check", "file": thm["file"],
                       "output": thm["output"]})
        violations.append((p, "no-failing-input-found"))

    # obligations about /repo's CURRENT source (translator output + fixed proof script); a broken one is
    # reported with a failing input if the correspondence below finds one, else as no-failing-input-found
    src_results = [ob() for ob in (source_obligations or [])]
    broken_src = [r for r in src_results if not r["ok"]]

    for s_i, st in enumerate(streams):
        rng = random.Random(f"{seed}/{prop}/{st.name}")
        corpus_dir = os.path.join(VERIF, "corpus", prop)
        corpus = []
        if os.path.isdir(corpus_dir):
            for fn in sorted(os.listdir(corpus_dir)):
                if fn.endswith(".json"):
                    with open(os.path.join(corpus_dir, fn)) as f:
                        c = json.load(f)
                    if c.get("stream") == st.name:
                        corpus.append(c["desc"])
        descs = corpus + st.generate(rng, tier)
        verdicts = evaluate(st, descs, f"{prop}_{st.name}")
        hist, classes = {}, {}
        for d, v in zip(descs, verdicts):
            hv = v.split(":")[0]
            hist[hv] = hist.get(hv, 0) + 1
            c = st.classify(d)
            classes[c] = classes.get(c, 0) + 1
            if st.nontrivial(d):
                nontriv.add(st.name + key_of(d))
        total_eval += len(descs)
        stats[st.name] = {"cases": len(descs), "corpus": len(corpus), "verdicts": hist,
                          "classes": classes}
        if descs:
            samples.append({"stream": st.name, "desc": descs[len(corpus)] if len(descs) > len(corpus) else descs[0],
                            "verdict": verdicts[len(corpus)] if len(descs) > len(corpus) else verdicts[0]})
        # failures
        bad = [(d, v) for d, v in zip(descs, verdicts) if v not in GOOD]
        seen_known = set()
        reported = 0
        for d, v in bad:
            # match against known findings first (on the un-shrunk and the shrunk case)
            hit = None
            for kf in known:
                m = matchers.get(kf.get("matcher"))
                if m is not None and m(st, d, v):
                    hit = kf
                    break
            if hit is None and reported < 3 and not v.startswith(("CoqError", "HarnessError")):
                d2, v2 = shrink_case(st, d, v, prop)
                for kf in known:
                    m = matchers.get(kf.get("matcher"))
                    if m is not None and m(st, d2, v2):
                        hit = kf
                        break
                if hit is None:
                    d, v = d2, v2
            if hit is not None:
                if hit["id"] not in seen_known:
                    seen_known.add(hit["id"])
                    known_lines.append(f"KNOWN-FINDING: property={prop} {hit['what']}")
                continue
            if reported >= 3:
                reported += 1
                continue
            reported += 1
            rp = os.path.join(replay_dir, f"{st.name}_{key_of(d)}.json")
            try:
                term = st.run(d) if not hasattr(st, "custom_eval") else "(see python_repro)"
            except Exception as ex:
                term = f"(* driver failed: {ex} *)"
            write_json(rp, {"property": prop, "stream": st.name, "verdict": v, "desc": d,
                            "seed": seed, "tier": tier, "coq_case": term,
                            "python_repro": st.py_repro(d),
                            "how": f"./check {prop} replay {rp}"})
            nf = v.startswith(("CoqError", "HarnessError"))
            violations.append((rp, "no-failing-input-found" if nf else ""))
        if reported > 3:
            stats[st.name]["further_failures_not_reported"] = reported - 3

    if broken_src:
        with_input = [rp for rp, tail in violations if not tail]
        p = os.path.join(replay_dir, "source_obligation.json")
        write_json(p, {"property": prop, "kind": "source_translation_obligation_does_not_check",
                       "obligations": broken_src,
                       "failing_inputs_found_by_correspondence": with_input})
        if not with_input:
            violations.append((p, "no-failing-input-found"))
    n_thm = len(thm.get("theorems", []))
    shards = sum((s["cases"] + 99) // 100 for s in stats.values())
    obligations = n_thm + len(streams) + len(src_results)
    discharged = (n_thm if thm["ok"] else 0) + (len(src_results) - len(broken_src)) + sum(
        1 for st in streams
        if all(k in GOOD for k in stats[st.name]["verdicts"]) or not violations)
    ev = {
        "property_id": prop, "tier": tier, "seed": seed, "level": "proof",
        "coverage": {
            "obligations": obligations, "discharged": min(discharged, obligations),
            "checker_cmd": f"cd /verif/coq && make && coqc props/{prop}.v  (Print Assumptions under every theorem); "
                           f"correspondence: coqc gen/cases_{prop}_*.v (vm_compute)",
            "trusted_base": trusted_base,
            "theorems": thm.get("theorems", []), "examples": thm.get("examples", []),
            "print_assumptions": thm.get("assumptions", {}),
            "evaluations": total_eval, "distinct_nontrivial": len(nontriv),
            "rule": "correspondence cases drawn from VERIF_SEED by the stream generators (corpus first); "
                    "non-trivial = as defined per stream (reflective/non-zero interface etc.); distinct by content hash",
            "samples": samples[:4], "streams": stats,
            "explanation": level_text,
        },
        "assumptions": assumptions, "wall_s": round(time.time() - t0, 2),
        "violations": len(violations),
    }
    if src_results:
        ev["coverage"]["source_obligations"] = [
            {k: v for k, v in r.items() if k != "output" or not r["ok"]} for r in src_results]
    if extra:
        ev["coverage"].update(extra() if callable(extra) else extra)
    write_json(os.path.join(os.environ.get("VERIF_EVIDENCE_DIR", os.path.join(VERIF, "evidence")), f"{prop}.json"), ev)
    for line in known_lines:
        print(line)
    for rp, tail in violations:
        print(f"VIOLATION property={prop} replay={rp}" + (f" {tail}" if tail else ""))
    print(f"[{prop}] tier={tier} seed={seed} cases={total_eval} theorems={n_thm} "
          f"violations={len(violations)} wall={time.time() - t0:.1f}s")
    for name, s in stats.items():
        print(f"   {name}: {s['verdicts']}")
    return 1 if violations else 0


def shrink_case(st: Stream, d, v, prop, max_steps=25):
    """greedy shrinking: keep a smaller description while it still fails"""
    steps = 0
    improved = True
    while improved and steps < max_steps:
        improved = False
        cands = list(st.shrink(d))[:12]
        if not cands:
            break
        vs = evaluate(st, cands, f"{prop}_{st.name}_shrink")
        steps += 1
        for c, cv in zip(cands, vs):
            if cv == v:      # keep the SAME kind of failure while shrinking
                d, v = c, cv
                improved = True
                break
    return d, v


def replay(prop: str, streams: list[Stream], path: str) -> int:
    with open(path) as f:
        r = json.load(f)
    if "desc" not in r:
        print(json.dumps(r, indent=1))
        print(f"VIOLATION property={prop} replay={path} no-failing-input-found")
        return 1
    st = [s for s in streams if s.name == r["stream"]][0]
    ensure_theory_built()
    v = evaluate(st, [r["desc"]], f"{prop}_{st.name}_replay")[0]
    print(f"replay verdict: {v}")
    if v in GOOD:
        return 0
    print(f"VIOLATION property={prop} replay={path}")
    return 1


def main(prop, streams, **kw):
    args = sys.argv[1:]
    tier = os.environ.get("VERIF_TIER", "quick")
    if args and args[0] in ("quick", "thorough"):
        tier = args[0]
    seed = int(os.environ.get("VERIF_SEED", DEFAULT_SEED))
    if args and args[0] == "replay":
        sys.exit(replay(prop, streams, args[1]))
    sys.exit(run_check(prop, streams, tier, seed, **kw))
