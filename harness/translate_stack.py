"""Translator: every use of the active-solver stack `sol_list` in the package (C17) -> Gallina.

The stack discipline of Stack.v rests on three facts about the source: `Solver.__enter__` pushes the solver,
`Solver.__exit__` pops, and every helper / placement routine only ever touches `sol_list[-1]` (the innermost active
solver) — and does so on THAT solver's own tables.  This module walks the `ast` of every module of the package,
classifies each occurrence of `sol_list` and emits, per function, the list of stack operations it performs:

    Push                      sol_list.append(self)
    Pop                       sol_list.pop()
    ActTop                    sol_list[-1].<method>(...) / sol_list[-1].default_params = ... / .default_params.update(...)

plus, for the module-level helpers of sol.py, that the body is nothing but that one delegation (so a helper can change
nothing else) and, for methods that are NOT helpers (e.g. Solver.set_param), that they do not go through the stack at all.
Any other use (an index other than -1, remove, a membership test, a loop over the stack, an alias) raises `Unsupported`.
coq/templates/StackSrcProof.v then proves that these operation lists, run on Stack.v's state, are exactly the clauses
of `Stack.exec` for `PWith` (enter; body; exit) and `PHelper` (log the top of the stack, leave the stack alone).
Trusted about Python: the `with` statement calls __enter__, the body, then __exit__ on normal and exceptional exit.
"""
from __future__ import annotations

import ast
import hashlib
import os

from translate_params import Unsupported, U

MODULES = ["__init__.py", "sol.py", "model.py", "pin.py", "structure.py", "scattering.py", "utils.py", "log.py"]
# methods of Solver that act on `self` and must not go through the stack
SELF_METHODS = ["set_param", "add_param", "add_structure", "connect", "connect_all", "map_pins", "maps_all_pins",
                "monitor_structure", "solve", "update_params", "cut_structure", "remove_structure", "prune", "split",
                "flatten", "flatten_top_level", "shallow_copy"]


HELPERS = ["putpin", "connect", "connect_all", "add_param", "set_default_params", "update_default_params", "raise_pins",
           "solve", "add_structure_to_monitors"]


def is_sol_list(node):
    t = ast.unparse(node)
    return t in ("sol_list", "lk.sol_list", "lekkersim.sol_list")


def classify(fn_name, fn_node):
    """list of ops performed by one function body (in source order)"""
    ops = []
    parents = {}
    for n in ast.walk(fn_node):
        for c in ast.iter_child_nodes(n):
            parents[c] = n
    for n in ast.walk(fn_node):
        if not ((isinstance(n, (ast.Name, ast.Attribute))) and is_sol_list(n)):
            continue
        if isinstance(n, ast.Name) and isinstance(parents.get(n), ast.Attribute) and is_sol_list(parents[n]):
            continue     # the Name inside lk.sol_list
        p = parents.get(n)
        # sol_list.append(self) / sol_list.pop()
        if isinstance(p, ast.Attribute) and p.value is n and isinstance(parents.get(p), ast.Call) and parents[p].func is p:
            call = parents[p]
            if p.attr == "append" and len(call.args) == 1 and ast.unparse(call.args[0]) == "self" and not call.keywords:
                ops.append((n.lineno, "Push"))
                continue
            if p.attr == "pop" and not call.args and not call.keywords:
                ops.append((n.lineno, "Pop"))
                continue
            raise U(call, f"{fn_name}: unsupported operation on the solver stack")
        # sol_list[-1] ...
        if isinstance(p, ast.Subscript) and p.value is n:
            if ast.unparse(p.slice) != "-1":
                raise U(p, f"{fn_name}: the stack is indexed with something else than -1")
            if isinstance(p.ctx, ast.Store) or isinstance(p.ctx, ast.Del):
                raise U(p, f"{fn_name}: the stack is assigned to")
            q = parents.get(p)
            if isinstance(q, ast.Attribute) and q.value is p:
                ops.append((n.lineno, "ActTop"))
                continue
            raise U(p, f"{fn_name}: sol_list[-1] used other than through an attribute")
        raise U(p if p is not None else n, f"{fn_name}: unsupported use of the solver stack")
    return [o for _, o in sorted(ops)]


def helper_shape(fn):
    """a module-level helper must be ONE statement: [return] sol_list[-1].<m>(<its own arguments>) or the two
    default_params forms"""
    body = [st for st in fn.body if not (isinstance(st, ast.Expr) and isinstance(st.value, ast.Constant))]
    if len(body) != 1:
        raise U(fn, f"helper {fn.name} is not a single delegation")
    st = body[0]
    t = ast.unparse(st)
    args = {a.arg for a in fn.args.args} | ({fn.args.kwarg.arg} if fn.args.kwarg else set())
    if isinstance(st, ast.Assign):
        if t != "sol_list[-1].default_params = dic":
            raise U(st, f"helper {fn.name}")
        return "default_params="
    v = st.value if isinstance(st, (ast.Expr, ast.Return)) else None
    if not (isinstance(v, ast.Call) and isinstance(v.func, ast.Attribute)):
        raise U(st, f"helper {fn.name}")
    recv = ast.unparse(v.func.value)
    if recv not in ("sol_list[-1]", "sol_list[-1].default_params"):
        raise U(st, f"helper {fn.name}: receiver {recv}")
    for n in ast.walk(v):
        if isinstance(n, ast.Name) and n.id not in args and n.id != "sol_list":
            raise U(st, f"helper {fn.name} uses the name {n.id}")
    return v.func.attr if recv == "sol_list[-1]" else "default_params." + v.func.attr


def translate(repo: str) -> str:
    srcs = {}
    for m in MODULES:
        with open(os.path.join(repo, "lekkersim", m)) as fh:
            srcs[m] = fh.read()
    h = hashlib.sha256("".join(srcs[m] for m in MODULES).encode()).hexdigest()
    funcs = []          # (qualified name, ops)
    helpers = []        # (name, delegated method)
    toplevel_ops = []
    for m in MODULES:
        tree = ast.parse(srcs[m])
        for node in tree.body:
            if isinstance(node, ast.FunctionDef):
                ops = classify(f"{m}:{node.name}", node)
                if m == "sol.py" and ops:
                    helpers.append((node.name, helper_shape(node)))
                    if ops != ["ActTop"]:
                        raise U(node, f"helper {node.name} touches the stack {ops}")
                if ops:
                    funcs.append((f"{m[:-3]}.{node.name}", ops))
            elif isinstance(node, ast.ClassDef):
                for f in node.body:
                    if isinstance(f, ast.FunctionDef):
                        ops = classify(f"{m}:{node.name}.{f.name}", f)
                        if ops:
                            funcs.append((f"{m[:-3]}.{node.name}.{f.name}", ops))
                        if node.name == "Solver" and f.name in SELF_METHODS:
                            if ops:
                                raise U(f, f"Solver.{f.name} acts on self and must not go through the solver stack")
                            for n in ast.walk(f):
                                if isinstance(n, ast.Call) and isinstance(n.func, ast.Name) and n.func.id in HELPERS:
                                    raise U(n, f"Solver.{f.name} acts on self and must not call the stack helper {n.func.id}")
            else:
                # module level statements: only `sol_list = []` and `sol_list.append(Solver())` may mention the stack
                t = ast.unparse(node)
                if "sol_list" in t:
                    if t in ("sol_list = []", "sol_list.append(Solver())", "from lekkersim import sol_list"):
                        toplevel_ops.append(t)
                    else:
                        raise U(node, "module-level use of the solver stack")
    want_delegation = {"putpin": "map_pins", "connect": "connect", "connect_all": "connect_all", "add_param": "add_param",
                       "set_default_params": "default_params=", "update_default_params": "default_params.update",
                       "raise_pins": "maps_all_pins", "solve": "solve", "add_structure_to_monitors": "monitor_structure"}
    if dict(helpers) != want_delegation:
        raise Unsupported(f"module-level helpers delegate differently: {sorted(set(dict(helpers).items()) ^ set(want_delegation.items()))}")
    if toplevel_ops.count("sol_list = []") != 1 or toplevel_ops.count("sol_list.append(Solver())") != 1:
        raise Unsupported("the stack must be created empty once and get the default solver once")

    def lit(ops):
        return "[" + "; ".join(ops) + "]"
    out = [f"(* GENERATED by harness/translate_stack.py from {repo}/lekkersim/*.py",
           f"   sha256 {h} — do not edit *)",
           "From Coq Require Import List Arith Bool String.",
           "From Lekkersim Require Import Stack.",
           "Import ListNotations.",
           "Open Scope string_scope.",
           "Inductive sop := Push | Pop | ActTop.",
           "(* every function of the package that touches lekkersim.sol_list, with what it does to it *)",
           "Definition stack_users : list (string * list sop) := ["]
    out.append(";\n".join(f'  ("{name}", {lit(ops)})' for name, ops in funcs))
    out.append("].")
    out.append("Definition helper_names : list string := [" + "; ".join(f'"sol.{n}"' for n, _ in helpers) + "].")
    return "\n".join(out) + "\n"


if __name__ == "__main__":
    import sys
    print(translate(sys.argv[1] if len(sys.argv) > 1 else "/repo"))
