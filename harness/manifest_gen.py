"""Regenerates MANIFEST.json from the table below (keeps it valid at all times)."""
import json, os
VERIF = os.path.dirname(os.path.dirname(os.path.abspath(__file__)))
props = [json.loads(l) for l in open(os.path.join(VERIF, "properties.jsonl"))]
ids = [p["id"] for p in props]

CHECKS = {
 "C09": dict(
   text="Proof (physics) + finite check (interface). props/C09.v proves over Coq's real numbers, for ALL parameter values in the stated "
        "range: waveguide / thermal shifter phase 2 pi n L / wl (+ pi PS) with |t| = 1 for a real index and power exp(-4 pi Im(n) L/wl) <= 1 "
        "for a lossy one; phase shifters pi PS, push-pull +/- half with opposite phases; attenuators 10^(-loss/10) resp. c in power and "
        "passive; mirror powers ref / 1-ref with orthogonal rows (unitary); beam splitter powers ratio / 1-ratio, lossless; 1x2 splitter "
        "1/2; polarisation rotator a rotation by pi*angle; power reciprocity of the non-symmetric blocks. The implementation is tied to "
        "these definitions on every run by ONE LEMMA PER SAMPLED MATRIX, proved with the interval tactic: every entry within 1e-9 of the "
        "real-analytic model (blocks bare and inside a solver, integer-typed arguments included). The interface half (place and wire by "
        "pin name, solve, str, print_S, show_free_pins, inspect for int and float arguments, every documented block) is an exhaustive "
        "enumeration of a finite table — finite checking, labelled so."
        " Blocks added after seeded changes were missed: BeamSplitter with explicit transmission t (boundary values) and UserWaveguide with two modes of different key sets. Coefficients are looked up BY PIN NAME in the documented pin order (not only as a raw matrix); UserWaveguide is sampled with modes declared in unsorted order; BeamSplitter with a transmission argument is covered. A phase shifter whose shift is given only through the constructor default (renamed parameter, nothing passed at solve time) is sampled too. For half of the samples a second instance of the block (other arguments) is built and solved before the sample is read."
        " On every run harness/translate_blocks.py executes the CURRENT source of Waveguide, PhaseShifter, PushPullPhaseShifter, TH_PhaseShifter, Attenuator, LinearAttenuator, Mirror, PerfectMirror, BeamSplitter (both forms), Splitter1x2 and PolRot (both forms) symbolically over the reals and coq/templates/BlocksSrcProof.v proves every entry equal to the Blocks.v definition for all parameter values (13 theorems; axioms: Coq reals + classic, checked)."
        " The interface half also parses what print_S prints (real part, imaginary part, default modulus) and compares it entry by entry with the matrix.",
   note="Trusted: Coq kernel; Coq.Reals axioms (ClassicalDedekindReals.sig_forall_dec, sig_not_dec, functional_extensionality_dep, "
        "Classical_Prop.classic) and what Interval/Flocq/Coquelicot add (listed per theorem and per generated lemma in the evidence); "
        "hand-written model Blocks.v; harness sampling. User index functions enter as their value. Follows the fixed code (F22-F24). The "
        "phase argument of BeamSplitter is documented 'in units of pi' but implemented as exp(2 pi i phase); only the power ratios are "
        "part of the property and the model follows the code.",
   technique="Coq proof over the reals (all parameter values) + source-to-Gallina translation of 11 closed-form blocks proved equal to Blocks.v for all parameter values on every run + interval-arithmetic lemma per sampled matrix; finite interface table", design="§5 C09, §3.3"),
 "C15": dict(
   text="Proof: props/C15.v (closed), for every solved model (any size, sweep length, non-symmetric matrix, any pin index map) and every "
        "complex excitation: the reported outputs are S.u with unmentioned pins as zero; superposition (additivity and scaling); a unit "
        "excitation reads out get_A; T = A * conj A; power mode is the squared modulus of the amplitude read-out; row k of every sweep "
        "table is the scalar read-out of point k. The tie builds random SolvedModels directly, excites random pin subsets by name and by "
        "Pin object (results must be identical) and compares get_output, every row of get_full_output, get_data (T, Amplitude), get_A "
        "and get_T in amplitude and power mode with the model. dB = 10 log10 T and phase = arg A are real-analytic: tied by interval "
        "arithmetic in the same run."
        " The full sweep table get_full_data (what export writes) is read too, with sweeps that start at a symmetric point; dark pin pairs (T = 0, dB = -inf) are included; dB and phase are tied by one generated interval lemma per sample. The solved model carries a swept and a length-1 parameter; the parameter columns of every table are checked (broadcast), also after the caller has overwritten the arrays it passed in. After the first read-outs two names of the result are swapped by pin_mapping: every accessor (by name and by Pin object) must follow the new labels. Half of the read-out models carry modes on their pins (excitations keyed by name and by moded Pin object)."
        " On every run harness/translate_readout.py translates the CURRENT source of get_A / get_T / get_PH / get_output / get_full_output / get_data / get_full_data / S2PD and of the block building the parameter columns to Gallina (symbolic execution, fail-closed) and coq/templates/ReadoutSrcProof.v proves the result equal to Readout.v's definitions for every model, excitation and sweep (11 theorems, closed; print_S is covered too). The stream also reads the named matrix S2PD() of models whose pins enter the pin dictionary in scrambled order.",
   note="Trusted: Coq kernel + vm_compute; Bignums primitives for the executed instance; model Readout.v tied by sampled correspondence; "
        "pandas exercised, not verified; for dB/phase the Coq.Reals axioms and Interval. Follows the fixed code (F19).",
   technique="Coq proof (linearity/definitional laws) + source-to-Gallina translation of the read-out helpers proved equal to the model on every run + vm_compute correspondence; interval lemmas for dB and phase", design="§5 C15, §3.3"),
 "C10": dict(
   text="Proof: props/C10.v (closed). For any circuit, any set of monitored components, any schedules of the two parts, any excitation and "
        "EVERY wave solution of the network equations, the read-out has exactly one entry per link between a monitored and a "
        "non-monitored component, names the pin on the monitored side, and reports as '_i' the wave entering and as '_o' the wave leaving "
        "the monitored side there (monitor_waves: the pair's network equations have a unique interface solution and int_complete returns "
        "it); the matrix obtained with monitors reports the network equations and therefore has the coefficients of a plain solve "
        "(monitor_transparent); for a lossless monitored part incoming and outgoing powers over its pins balance (monitor_balance). The "
        "tie declares every non-empty proper subset of small circuits (random subsets of larger ones) as monitors, excites random subsets "
        "of exposed pins with complex amplitudes in amplitude and power mode, compares the matrix and the SET of columns with the model; "
        "two further streams declare the monitors only after an earlier solve and re-read a result's monitor table after later solves "
        "with another parameter value."
        " Further streams: multi-mode circuits (expanded blocks wired by connect_all, one column pair per (pin, mode)) and pins exposed under two names with the excitation given through either. A sweep stream sweeps a phase shifter inside the circuit (second parameter scalar / length-1): row k of the monitor table and slice k of the external matrix against the model of point k, parameter columns included. Half of the results are first asked about the same pins with other amplitudes and in the other mode."
        " A quarter of the monitor cases place un-monitored components as sub-solvers of their own and flatten the circuit after the monitors are declared.",
   note="Trusted: Coq kernel + vm_compute; Bignums primitives for the executed instance; model Monitor.v tied by sampled correspondence; "
        "harness. Sweeps of monitored circuits reduce to the per-point statement (C04). Follows the fixed code (F25, F07).",
   technique="Coq proof (uniqueness of interface waves; two-group hierarchy) + vm_compute correspondence incl. late monitors and re-reads", design="§5 C10"),
 "C11": dict(
   text="Proof: props/C11.v (closed). Wiring: the flattened solver contains no sub-solvers and denotes the same single-level circuit "
        "(flatten_inline), so by the C02 theorem the hierarchy before and the solver after flatten both have the coefficients of any solve "
        "of that circuit, for any depth and re-use (flatten_same_matrix). Parameters: the renaming flatten installs on a lifted structure — "
        "the composition of the sub-solver placement's renaming with the structure's own — delivers under every parameter name that is "
        "not itself introduced by a renaming exactly what the two nested placements delivered, for every incoming assignment incl. the "
        "empty one (flatten_compose), provided the names introduced by the outer placement are used nowhere inside (hygienic renamings). "
        "The tie flattens hierarchies on /repo: wiring stream (matrix vs nested and flat model, absence of sub-solvers) and parameter "
        "stream (for {} / each single visible parameter / all of them: value used by every leaf after flatten vs model; default_params "
        "before/after). A third stream with non-hygienic renamings (shadowing, swaps, chains) exhibits known finding F28."
        " A further stream flattens hierarchies in which the same sub-solver is placed twice under different hygienic renamings.",
   note="Trusted: Coq kernel + vm_compute; models Hier.v/Params.v/Flatten.v tied by sampled correspondence; harness. Follows the fixed "
        "code (F12, F13, F14). Sub-solvers define no add_param parameters (documented limitation). KNOWN FINDING F28: with shadowing "
        "renamings flatten() cannot preserve parameter meaning (recorded, not repaired: needs a redesign of the renaming tables).",
   technique="Coq proof (flatten = inline + composition law of renamings) + vm_compute correspondence before/after flatten", design="§5 C11, §6 F28"),
 "C04": dict(
   text="Proof (normalisation) + oracle-parametrised tie (blocks). props/C04.v (closed): for ANY scalar solve function, the model's sweep "
        "returns at index k the scalar solve at the k-th value of every parameter with scalars and length-1 arrays broadcast "
        "(sweep_pointwise), all arrays longer than 1 share the sweep length, and two different lengths > 1 are rejected (sweep_reject). "
        "That numpy batching and every block's create_S implement 'slice by slice' is not a theorem but the tie: (i) solver hierarchies with "
        "probe/spy leaves are swept over random mixes of scalar / length-1 / length-n values and malformed mixes, every sweep index compared "
        "with the model; (ii) EVERY bare library block (also inside a solver, and mode-expanded) is swept over each of its parameters and "
        "must equal bit-for-bit the stack of its scalar solves."
        " Block table extended with UserWaveguide variants whose modes have different key sets, FPRGaussian with a callable slab index, and fine sweeps (values a few ppm apart, exact repeats). A third stream assigns SEVERAL parameters of every bare block at once (its own and ones it ignores) as scalar / length-1 / length-n mixes incl. inconsistent lengths; the model broadcasts and looks each point up in the table of /repo's scalar solves. On every run harness/translate_sweep.py also translates the CURRENT source of the sweep bookkeeping (Solver.solve: common length + broadcast; Model.solve: common length + the dictionary create_S sees at every point) to Gallina and coq/templates/SweepSrcProof.v proves it equal to Sweep.normalise / Sweep.sweep_solve for all assignments with distinct names (solver_normalise_src_is_normalise, model_sweep_src_is_sweep_solve; closed under the global context). Sweeps use complex parameter values (inside a solver and bare); the thermal phase shifter's index function depends on every documented argument (wl, R, w, pol) and each is swept. A fourth stream sweeps a phase section inside REFLECTIVE netlists (incl. reflector - phase - reflector chains) and compares slice k with the model's solve of the netlist of point k. Half of the even-length sweep arrays are passed as 2-D grids held in column-major memory order."
        " A further stream defines a solver parameter through add_param by a function whose result type depends on the value (real root for some sweep points, imaginary for others), flat and nested: sweep index k is still the scalar solve of the k-th value.",
   note="Trusted: Coq kernel + vm_compute; models Sweep.v/Params.v tied by sampled correspondence; for the block half the scalar solve of "
        "/repo is the oracle (its physics is C09's subject). Names re-defined by add_param at the solved level are not swept (they are no "
        "longer parameters). Follows the fixed code (F02, F27).",
   technique="Coq proof (normalisation/broadcast laws for any scalar solve) + vm_compute correspondence; block sweeps vs stacked scalar solves + source-to-Gallina translation of the sweep bookkeeping proved equal to the model on every run", design="§5 C04"),
 "C06": dict(
   text="Proof + observation. In the model a solve is a function of the circuit and the call's arguments (no state is threaded), so "
        "history-freedom of the VALUES holds by construction; props/C06.v proves (closed) that the one piece of state the code keeps "
        "between calls on the parameter path — a model's working dictionary — is, after the fix, determined by the defaults and the "
        "current call for every history and every previous content (history_free), formally refutes the as-found update (asfound_leaks = "
        "finding F05), and that solving leaves the wiring state unchanged. 'Results already returned keep their values' is a statement "
        "about Python aliasing and is OBSERVED: the tie solves a hierarchy and its shared sub-solvers in random order with random "
        "argument subsets and repeats, keeps every result alive, reads each right after its call and again at the end, compares both "
        "readings with the model's history-free value (spy leaves reveal every key they receive), and compares a fingerprint of every "
        "solver's structures, connections, exposed pins, renamings and defaults around each call. Monitor read-outs of earlier results are "
        "re-read in the C10 check."
        " The histories include twins and replaced defaults; a further stream re-reads an earlier result's monitor read-out after the solver was solved again. A third stream builds the same circuit again from fresh objects AFTER earlier solves (incl. blocks created without a parameter dictionary) and requires the model's answer for the defaults. Two further streams: every library block solved several times in a row on one object (each argument changed in turn) against freshly built blocks; hierarchies whose sub-solver is edited between two solves of the parent. A sixth stream overwrites the caller's sweep buffer right after a swept solve (the result's tables keep the solved values)."
        " A further stream (shared_later) solves a library block OBJECT inside circuit A (or a shallow copy of A) with explicit, swept values and then places it in circuit B built afterwards / solves the original: the later answer must be that of fresh objects.",
   note="Trusted: Coq kernel + vm_compute; model Params.v tied by sampled correspondence; harness. The immutability of returned objects "
        "is an observation over the histories run, not a theorem. Follows the fixed code (F05).",
   technique="Coq theorems (history-freedom of the retained state) + vm_compute correspondence over solve histories with results kept alive", design="§5 C06"),
 "C05": dict(
   text="Proof: props/C05.v (closed). For every renaming with distinct old names and every incoming dictionary, the model of "
        "Structure.update_params delivers under each key exactly the specified value (rename_shield_spec); hence renaming is independent "
        "of the order in which the pairs are listed — swaps and chains included (rename_simultaneous), a renamed parameter is controlled "
        "only through its new name and its old name is shielded (old_name_shielded), untouched names pass, nested placements compose "
        "(rename_compose); precedence at a model (arriving value, else model default), at a solver (add_param definition, else explicit "
        "value, else solver default) and for add_param arguments (explicit, else CURRENT solver default, else default at definition). The "
        "as-found sequential loop is formally refuted (rename_asfound_refuted, swap witness = finding F03). The tie builds hierarchies of "
        "solvers whose leaves are probes (transmission = parameter value), random injective renamings incl. swaps/chains in every "
        "listing order, defaults at all levels before/after add_param, explicit values, and compares the value each leaf used."
        " A second stream places the SAME model / solver object twice under different renamings and replaces the defaults after add_param (set_default_params), so that the definition defaults are reached. On every run harness/translate_params.py also translates the CURRENT source of Structure.update_params, Model.update_params, Solver.update_params, Solver.add_param and the default collection of Solver.add_structure to Gallina (symbolic execution over the ast, fail-closed) and coq/templates/ParamsSrcProof.v proves each equal, under every name and for all dictionaries with distinct keys, to rename_shield / model_update / solver_update / the node_defaults step / collect_defaults (5 theorems, closed). Streams now include add_param by introspection, several definitions per solver and constant (argument-less) functions (found F30). Half of the hierarchies apply their late solver defaults through Solver.set_param after the solver's with-block has been left.",
   note="Trusted: Coq kernel + vm_compute; model Params.v (incl. the recursive delivery through hierarchies, which is modelled and tied "
        "by correspondence; the declarative 'resolve' specification for whole hierarchies is not separately proved); harness. Follows the "
        "fixed code (F03, F04).",
   technique="Coq proof (renaming/precedence laws for all dictionaries) + source-to-Gallina translation of the five dictionary routines proved equal to the model on every run + vm_compute correspondence on probe hierarchies", design="§5 C05, §3.3"),
 "C12": dict(
   text="Proof: props/C12.v. For every graph of structures (trees, cycles, multiply linked pairs, isolated structures) and every "
        "declaration order, the model of split()'s incremental union returns pairwise disjoint sets that cover exactly the structures "
        "(split_partition) and two structures share a set exactly when a chain of connections links them (split_connected; invariant of "
        "the loop proved by induction over the declaration list). For every netlist, a part that no connection leaves, solved alone under "
        "any schedule, has for the pins it owns the coefficients of the original solver (split_behaves). Closed under the global context. "
        "The tie runs split() of /repo on random graphs incl. cycles, stars whose hub is declared last, multi-links and isolated "
        "structures, compares the partition as a set of sets and each returned solver's matrix with the model's solve of that part."
        " Further streams: split() after a structure was cut, added again and wired elsewhere; parametric parts whose FIRST solve is argument-less, with defaults changed after add_param. split() is also taken after remove_structure. Two refused links (occupied pin; structure outside the solver) are attempted right before split(). Some components are placed sub-solvers (exposures declared in reverse order). After its parts have been solved the original is solved again and must answer as before; part results are read only after all solves."
        " On every run harness/translate_split.py reads the CURRENT source of Solver.split (sets as lists up to membership, in-place add, list.remove by equality) and coq/templates/SplitSrcProof.v proves the sets it builds equal, set by set and in order, to Split.split_sets for every adjacency and structure list (3 theorems, closed).",
   note="Trusted: Coq kernel + vm_compute; Bignums primitives for the executed instance; model Split.v tied by sampled correspondence; "
        "harness. Follows the fixed code (F15). The 'defaults are handed over' half is checked in the C05/C06 parameter streams.",
   technique="Coq proof (loop invariant, all graphs and orders) + vm_compute correspondence of partitions and part matrices + source-to-Gallina translation of Solver.split proved equal to Split.split_sets on every run", design="§5 C12"),
 "C13": dict(
   text="Proof: props/C13.v. For every matrix, size and number of modes the expanded matrix's coefficient between (p, mode i) and "
        "(q, mode i') is the single-mode coefficient when i = i' and zero otherwise (expand_coeff), the index layout i*N+n is injective "
        "and onto 0..np*N-1; the waves around an expanded block satisfy its equations exactly when every mode's waves satisfy the "
        "single-mode block's equations: np independent copies (expand_independent), and a whole circuit of expanded blocks with every "
        "link replicated per mode solves exactly when every mode's waves solve the single-mode circuit (expanded_circuit_independent); connect_all links exactly the common modes, like "
        "with like (connect_all_pairs); the base-name / mode / pin queries return exactly those of the pins the object has. Closed under "
        "the global context. The tie expands every library block and random models to 1-5 modes in random order, with scalar parameters "
        "and sweeps, directly / through a solver / after an earlier solve; wires circuits of expanded blocks (equal, permuted, partially "
        "overlapping mode lists; sub-solvers exposing Pin(base, mode)) through connect_all and compares with the model's solve of the "
        "multi-mode netlist AND with independent per-mode solves and zero cross-mode coefficients; runs the queries on models, results, "
        "structures and placed sub-solvers."
        " The expansion stream includes blocks that refill one persistent buffer (CWA, FPR). Nested solvers and queries also use mode-major pin layouts (a_TE, b_TE, a_TM, b_TM). The expansion stream covers EVERY library block (constructors of the C04 table; found F31). Query cases use base names containing underscores (in_1, port_a1, o_1_2) and query their prefixes too. Half of the placed-structure query cases first lose all pins of one base name (a neighbour wired by connect_all is removed). A user waveguide declared without modes is expanded like any other block."
        " On every run harness/translate_modes.py translates the CURRENT source of Model.expand_mode, Model._expand_S, diag_blocks, Solver.connect_all and the four mode queries to Gallina and coq/templates/ModesSrcProof.v proves: the new pin dictionary is ((p, mode_i), i*N + n), the block-diagonal matrix equals Modes.expand_S at every index below np*N for every N, np, S, the links are exactly connect_all_links, the queries are pin_modes / pin_basenames (5 theorems, closed)."
        " The circuit stream also wires modes one by one with connect (all common modes, or only some of them with the rest exposed or completed by a later connect_all) and sends two modes of ONE port to two different partners; the model takes the per-link mode selection into account.",
   note="Trusted: Coq kernel + vm_compute; Bignums primitives for the executed instance; model Modes.v tied by sampled correspondence; "
        "harness. The circuit-level statement is proved for circuits whose blocks all carry the same mode list (every link replicated per "
        "mode); partially overlapping mode lists are covered by the per-mode comparison in Coq (tie), not by a theorem. Follows the fixed code (F17, F18). Expansion of an "
        "already solved model raises and is outside the model.",
   technique="Coq proof (index/block-diagonal algebra, wave-level independence per block, list lemmas) + source-to-Gallina translation of expand_mode / _expand_S / diag_blocks / connect_all / mode queries proved equal to Modes.v on every run + vm_compute correspondence", design="§5 C13, §3.3"),
 "C14": dict(
   text="Proof: props/C14.v. For every pin set (with or without modes), every index assignment, every matrix and every sweep point "
        "(first and last included) the loaded model has exactly the exported pins, each once, and holds between p and q the stored and "
        "re-read coefficient the exported model has between p and q — not q and p (roundtrip_coeff / roundtrip_grid; name clashes make "
        "the model's export return Err, so no well-formedness hypothesis); a loaded one-parameter model evaluates at every exported "
        "sweep value to that point's coefficient (eval_at_grid) and interpolates linearly between neighbours (eval_between, from "
        "interp_grid / interp_between for all strictly increasing grids) and is undefined outside; a mode mapping keeps exactly the "
        "mapped pins, renamed, and changes no kept coefficient (mode_select_ok); |z|^2 and arg z determine z (polar_roundtrip, over the "
        "reals). The tie exports hand-made and really solved sweeps with /repo, loads them with the real loader and compares pins and "
        "every coefficient at every exported point and at in-between values with the model."
        " Two-parameter files are also evaluated with the keywords in the reverse of the file's column order. Mode mappings include swaps and chains of mode names (new names overlapping old ones). Two-parameter files include fine scans (the first parameter moves by a few ppm). 30 % of the results are exported once under provisional port names, re-labelled and exported again. Real solves include a solver exported with one port unmapped (matrix larger than the pin table).",
   note="Trusted: Coq kernel + vm_compute; Bignums primitives; Coq.Reals axioms for polar_roundtrip only; model InPulse.v/Interp.v tied by "
        "sampled correspondence; YAML/CSV, decimal printing and parsing, numpy and scipy interpolators are modelled (enc/dec parameters, "
        "interp1) not verified — their joint effect is what the tie observes. Two-parameter files: grid points only. Follows the fixed "
        "code (F20, F21). A sweep in which a second parameter is constant is outside the property's quantifier (it cannot be loaded: "
        "DESIGN.md).",
   technique="Coq proof (codec/pin-table/matrix-assembly algebra for all models; interpolation lemmas over Q) + vm_compute correspondence against real export/import", design="§5 C14"),
 "C19": dict(
   text="Proof: props/C19.v, for all hierarchies (induction over the nested tree): after prune no dead branch — empty model, or solver "
        "containing (recursively) nothing else — is left at any level (prune_no_dead); a hierarchy without dead branches is returned "
        "unchanged, structures, connections and exposed pins included, so nothing else is removed and prune is idempotent; the returned "
        "flag is 'the solver is empty'; the surviving leaf components are exactly the non-empty ones in order; the pruned solver "
        "reports the network equations of the original circuit (prune_same_matrix, via C02). Closed under the global context. The tie "
        "inserts empty models and dead solvers (nested, shared between placements) at random places and depths, calls prune() on /repo "
        "and compares the returned flag, the tree of remaining structures at every level, and solve() after prune with the model."
        " Dead leaves include pin-less models that carry a matrix and unmapped solved results; after prune the free pins of every surviving level are compared with the unconnected ports of the surviving components. Dead branches that still own connected pins (a sub-solver wired while it had pins, emptied before prune()) are generated too; a prune() that raises is reported with the hierarchy as replay."
        " On every run harness/translate_prune.py reads the CURRENT source of Solver.prune and Model.is_empty and coq/templates/PruneSrcProof.v proves prune_src c = (Prune.prune c, Prune.dead c) for every hierarchy (closed)."
        " Wired dead branches and placed empty models are declared monitors in half of the cases: after prune() nothing of them may stay behind.",
   note="Trusted: Coq kernel + vm_compute; Bignums primitives for the executed instance; models Prune.v/Hier.v tied by sampled "
        "correspondence; harness. prune_same_matrix assumes dead sub-solvers hold no connections (nothing can be wired to a pin-less "
        "structure) and is conditional on the model returning Ok.",
   technique="Coq proof by induction over hierarchies + vm_compute correspondence (shape, flag, matrix) + source-to-Gallina translation of Solver.prune proved equal to Prune.prune / Prune.dead on every run", design="§5 C19"),
 "C17": dict(
   text="Proof: props/C17.v, by structural induction over ALL programs built from helper calls, sequencing, with-blocks, raise and "
        "try/except (any nesting depth, exceptions at any point, solvers re-entered while already active): the stack of active solvers "
        "after the program equals the stack before it, on normal and on exceptional exit (stack_restored); every helper acts on the solver "
        "of the innermost enclosing with-block (helpers_hit_innermost); effects recorded earlier are untouched (log_extends). Closed under "
        "the global context. The tie executes random such programs on /repo with every module-level helper (put, putpin, Pin.put, "
        "connect, connect_all, raise_pins, add_param, set/update_default_params, add_structure_to_monitors, solve) and compares the kind "
        "of exit, lekkersim.sol_list afterwards and, for each helper call, which solver actually changed."
        " All solvers of a program share one parameter name, so a helper that touches an enclosing solver's entry is seen. Programs also call Structure.raise_pins on placed models and placed sub-solvers; all solvers of a program own one common parameter name so that a helper reaching a wrong solver is visible. put is also exercised with a source pin and a target (Model.put and Solver.put by name); a stray lk.connect on an enclosing solver's free pins must be refused and change no solver. The solver of an enclosing, still open with-block may be placed into the innermost one (the placement belongs to the innermost solver). On every run harness/translate_stack.py also classifies EVERY occurrence of lekkersim.sol_list in the package (push in __enter__, pop in __exit__, use of sol_list[-1] elsewhere; any other use, a helper that is more than one delegation, or a Solver method that goes through the stack is rejected) and coq/templates/StackSrcProof.v proves that these operations are exactly the PWith / PHelper clauses of Stack.exec (enter_exit_src, with_src_is_PWith, users_act_on_top, helper_src_is_PHelper; closed under the global context). A placement whose connection is refused (error caught) must leave the stack of active solvers as it was. A few deep programs keep 9-12 with-blocks open at once.",
   note="Trusted: Coq kernel + vm_compute; CPython's with/try semantics as modelled; model Stack.v tied by sampled correspondence; harness "
        "(the changed solver is detected by fingerprinting all solvers before/after each helper).",
   technique="Coq proof by induction over programs + vm_compute correspondence of executed with-block programs + source-to-Gallina classification of every use of the solver stack proved to be the model's clauses on every run", design="§5 C17"),
 "C07": dict(
   text="Proof (props/C07.v, closed): the representation invariant Rep of the wiring state — every table of the solver (connections, "
        "connection list) and of every structure it ever held (conn_dict, connected_to) is a function of the list of present structures "
        "and the set of links; absent structures hold nothing; neighbour lists are exact and duplicate-free — holds initially and is "
        "preserved by EVERY operation (add, re-add, connect, cut, remove, prune, map, raise-all, solve; accepted or rejected), hence in "
        "every reachable state (invariant_everywhere, tables_consistent: nothing stale survives a cut or a remove, nothing is lost); solve "
        "is a query; the matrix of the circuit a state denotes is the exact solution of its network equations however it was declared "
        "(C01/C03 theorems), so the edited solver and a freshly built one solve alike; the pins reported free are, after any history, "
        "exactly and each once the unconnected pins of the present structures (free_pins_exact: pins freed by a cut are free again, pins "
        "facing a removed structure are gone, a re-added structure brings its pins back). The tie replays random histories, hub histories "
        "(cut/remove of a structure with >=2 neighbours, bypass, re-add), prune with empty models, shared pin names and re-mapped names "
        "on /repo and compares after EVERY call the observable state and at every solve the matrix with the model. Further: multi-link histories (two non-consecutive links to one neighbour, the neighbour removed, the structure cut / removed / re-added) and structures that are placed sub-solvers (25-40 % of the components). Further: expose-then-wire histories (a pin is exposed while free, wired, and the partner cut again). On every run harness/translate_edit.py also executes the CURRENT source of Solver.cut_structure and Solver.remove_structure symbolically (their loops over copies of the solver's tables become folds) and coq/templates/EditSrcProof.v proves them equal to Wiring.cut_op / Wiring.remove_op for every state whose link and exposure tables have distinct keys; Solver.connect is tied the same way (translate_wiring.py, WiringSrcProof.v), and so are Structure.add_conn, Structure.cut_connections the registration half of Solver.add_structure and Solver.maps_all_pins (translate_struct.py, StructSrcProof.v). 8 theorems, closed under the global context.",
   note="Trusted: Coq kernel + vm_compute; Bignums primitives for the executed instance; model Wiring.v tied by sampled correspondence; harness. "
        "The model follows the fixed code (F08, F09, F10 in known_findings.json).",
   technique="Coq proof (representation invariant preserved by every operation, induction over histories) + vm_compute state-by-state correspondence + source-to-Gallina translation of connect / cut_structure / remove_structure proved equal to the model's step on every run", design="§5 C07, §8"),
 "C16": dict(
   text="Proof (props/C16.v, closed): after ANY history of add / connect / cut / remove / prune / map / raise / solve calls a rejected connect "
        "or add leaves every table of the solver and of every structure exactly as it was (rejected_call_changes_nothing, through the "
        "representation invariant of C07); cut/remove are all-or-nothing (detach_all_or_nothing); in every state a connected pin is refused "
        "for any other partner in either argument position; repeating a connect in either orientation is a no-op; two distinct pins with the "
        "same printable name make the name table refuse (for all pin lists); an accepted table resolves every name to exactly its pin; renamed "
        "pins are addressable by the new names. The tie replays histories with 30 % invalid calls by Pin object and by name on /repo, "
        "comparing ok/error and the observable state after every call and the final solve, and random pin-name tables with renamings "
        "(swaps, chains, collisions) through Model.pin / Structure.pin. Renamings include ascending renumberings and swaps, after which every renamed pin must still address its own port; solver parameter defaults are part of the atomicity observation (a rejected add must not reset them). Model.put is addressed by Pin OBJECTS: own pins and foreign pins that merely print like an own pin; accepted iff the object is one of the model's pins (decided in Coq by pin_eqb), a refusal leaves the link tables untouched. On every run harness/translate_names.py also reads Pin (it must remain a frozen dataclass over (basename, mode_name) without hand-written equality or hash), Pin.name, Model.update_pins and Model.pin_mapping from the CURRENT source and coq/templates/NamesSrcProof.v proves them equal to Names.pin_name / update_pins / update_pins o rename_pins for all pin lists and renamings (3 theorems, closed under the global context). A placed structure's name table is read, the structure loses a pin (its neighbour is removed), and the table is read again. Likewise harness/translate_wiring.py executes the CURRENT source of Solver.connect symbolically (which tests, in which order, what has been written when the call is refused) and coq/templates/WiringSrcProof.v proves it equal to Wiring.step s (Connect x y) for every solver state and every pair of pins (connect_src_is_step, closed). Look-alike Pin objects are also addressed to get_A / get_T / get_output of the solved model."
        " A quarter of the histories start from a solver CONSTRUCTED with their leading adds and links; exposures are made by pin name, by Pin object, through map_pins and through lk.putpin, and are preceded now and then by the same call with a pin name the structure does not have (must be refused without trace).",
   note="Trusted: Coq kernel + vm_compute; models Wiring.v/Names.v tied by sampled correspondence; harness. Follows the fixed code (F01, F10, F11, F26).",
   technique="Coq proof (invariant + atomicity for all histories; name tables for all pin lists) + vm_compute correspondence of histories with invalid calls + source-to-Gallina translation of the name-table routines proved equal to the model on every run", design="§5 C16, §8"),
 "C20": dict(
   text="PARTIAL by nature. Proved (props/C20.v, all sizes, closed under the global context): a successful solve of n components "
        "performs exactly n-1 merges; a cascade of any number of reflection-free two-ports solves to the product of the transmissions "
        "with zero reflection under every schedule; nesting of any depth equals the flat circuit; circuits of passive components are "
        "passive whatever their size. Not provable in this family and therefore only exhibited: growth of floating-point round-off through "
        "thousands of LAPACK inversions, CPython recursion/time limits. The check runs /repo at the stated sizes (cascades 1000 quick / "
        "2000 thorough, nesting 40 / 80, meshes 100 / 400 couplers, lossy reflective chains 200 / 500) under a time limit against the "
        "proven closed forms (computed exactly, compared inside Coq) and the theorem-derived oracles T^H T = I, T = T^T, passivity."
        " Further streams: long lossy chains / deep lossy hierarchies compared in RELATIVE terms on the exact product (amplitudes down to 1e-40), coupler meshes against the product of their layer matrices, a 300-element sub-solver placed twice."
        " Large circuits are also given as a netlist to the Solver constructor (300 / 1500 elements) and with large placed parts flattened before the solve.",
   note="Trusted: Coq kernel + vm_compute; harness (builders, exact closed forms via fractions.Fraction). The runtime half is an "
        "observation at the sizes run, named as such in the evidence (coverage.partial = true).",
   technique="Coq proof of the exact-arithmetic half + execution of the implementation at scale against proven closed forms", design="§5 C20"),
 "C02": dict(
   text="Proof: props/C02.v states for hierarchies of ANY depth, any exposure subset at every level, any number of placements of a "
        "sub-circuit (each with its own leaf pins) and any per-level schedule rule: the nested solve (model of Structure.createS with a "
        "solver: recursive solve, adoption of the solved pins, restriction to the exposed pins) reports the network equations of the "
        "equivalent single-level circuit (hier_sound, by a custom induction over the nested tree) and therefore has exactly the "
        "coefficients of any solve of the flat circuit (hier_transparent); a bare component equals a solver containing only it with all "
        "pins raised (bare_equals_wrapped). Closed under the global context. The tie builds nested Solvers in /repo (shared sub-solvers "
        "placed several times, partial exposure, and a stream that edits a shared sub-solver between two solves of the parent) and "
        "compares the observed top-level matrix with both the nested model and the flat model."
        " Further streams: sub-solvers built with hand-named plus auto-raised pins (pin names shared between structures), and a placed sub-solver that exposes one more pin afterwards (the parent must answer as before). Sub-solvers may expose their pins under names that are a cyclic shift of the inner pin names, and may be wired at placement by name (SUB.put(name, (structure, pin))). A child all of whose ports are exposed may be raised in one Structure.raise_pins(pino=[...]) call; exposure names may be declared against alphabetical order."
        " On every run harness/translate_handover.py reads the CURRENT source of Structure.get_model, Model.__init__ and the sub-solver branch of Structure.createS (the hierarchy step) and coq/templates/HandoverSrcProof.v proves that a solved model reads, between two exposed names, the entry Hier.restrict defines (3 theorems, closed)."
        " A fourth stream places one PARAMETERISED sub-solver twice under different renamings (the twin cases of C05's stream) and requires the value the model computes leaf by leaf.",
   note="Trusted: Coq kernel + vm_compute; Bignums primitives for the executed instance; model tied by sampled correspondence; harness "
        "(resolution of pin names to leaf pins is done by the harness; name handling is C16's subject). Conditional on the model returning Ok.",
   technique="Coq proof (induction over arbitrary nesting) + vm_compute correspondence nested-vs-flat-vs-implementation + source-to-Gallina translation of the model hand-over (get_model / createS) proved equal to Hier.restrict on every run", design="§5 C02"),
 "C08": dict(
   text="Proof: props/C08.v states for every netlist and schedule with a defined result: all components passive => for every excitation "
        "of the exposed pins (any exposure subset) outgoing power <= incoming power; all lossless => equality (and S^H S = I implies the "
        "lossless premise); all reciprocal => the result is symmetric. Proved at network level (a flux that cancels over each connection "
        "and has a sign over each component) and transferred to the solved matrix via solve_sound + solve_complete. Closed under the global "
        "context. The tie runs /repo on circuits of exactly unitary (Cayley transform), contractive and symmetric rational components and "
        "lets Coq check, in exact arithmetic, agreement with the model AND T^H T = I / T = T^T / |Tu|^2 <= |u|^2 on the observed matrices. 30 % of the circuits declare a random subset (>= 2 structures where possible) as monitors before solving. 30 % of the circuits are built in two steps (all links but one, a solve, then the last link). 30 % of the circuits (monitored or not) are placed in a parent with all pins raised and read through it."
        " A quarter of the cases use components with four pins, with three or more links between one pair declared in scrambled pin order.",
   note="Trusted: Coq kernel + vm_compute; Bignums primitives for the executed instance; model tied by sampled correspondence; harness. "
        "Conditional on the model returning Ok. /repo receives the binary64 roundings of the exact rational components.",
   technique="Coq proof (network-level flux balance, all circuits) + vm_compute correspondence and oracle checks on observed matrices", design="§5 C08"),
 "C03": dict(
   text="Proof: props/C03.v states that for every netlist any two merge schedules for which the model returns a result yield the same "
        "remaining pins and the same coefficient for every pin pair (schedule_independent: soundness of both runs + existence of a wave "
        "solution by back-substitution), and that two declarations of the same circuit (components permuted, connections permuted and "
        "flipped, exposure permuted) yield the same coefficients (declaration_independent). Closed under the global context. The tie "
        "forces EVERY valid merge sequence of circuits with up to 4 (quick) / 5 (thorough) structures through a guarded hook in "
        "Solver.solve and compares each with the model run on the same sequence; declarations are permuted in both construction styles. 30 % of the declaration-permutation cases declare part of the circuit as monitors (another elimination order, the library's own pick). 30 % of the declaration-permutation cases give one port two external names (declared first or last).",
   note="Trusted: Coq kernel + vm_compute; Bignums primitives for the executed instance; model tied by sampled correspondence; the hook "
        "commit in /repo (add-only, guarded by LEKKERSIM_VERIF); harness. Conditional on both schedules being defined (inner systems invertible).",
   technique="Coq proof (all netlists, all schedule pairs) + exhaustive schedule forcing on small circuits vs model", design="§5 C03"),
 "C01": dict(
   text="Proof: props/C01.v states, for every netlist (any components, any complex matrices, any connections incl. feedback loops, "
        "multi-links, disconnected parts, one-port terminations, any exposure subset) and every merge schedule, that a result returned "
        "by the model of Structure.join / the elimination loop of Solver.solve reports the solution of the network equations at every "
        "remaining pin (join_sound, solve_sound), and that the model refuses a result if a connection was not eliminated. Closed under "
        "the global context. The same definitions run under vm_compute against Solver.solve of /repo on random reflective, "
        "non-reciprocal, lossy, multi-link, partially exposed circuits built through the public API in both styles, with scrambled pin "
        "index maps; Coq compares every coefficient between exposed pins within 1e-9."
        " The streams also map an external name twice (the last mapping counts) and link one pair of structures by 2-4 links in permuted pin order. Components are Models or bare Structures carrying their own matrix. Malformed netlists also give an occupied pin a second link (both building styles); placements may wire at once through Model.put(pin, (structure, pin)) with pins by name or as Pin objects. On every run harness/translate_join.py also translates the CURRENT source of the index bookkeeping around the star product (Structure.sel_output / sel_input / split_in_out / get_S_back) to Gallina and coq/templates/JoinSrcProof.v proves it equal to Solve.part / Solve.assemble / positions in ins ++ outs / Solve.keep for all matrices and pin lists, and the rest of Structure.join's bookkeeping: the pin list of the merged structure, the choice of the joined pins (get_out_to / get_in_from / pairing loop = Solve.links), the merged link table and neighbour list, the preservation of the table representation by a merge and the list of leaf structures (14 theorems, closed under the global context). Several pins of one component may be exposed in one Structure.raise_pins(pins, names) call listed against declaration order.",
   note="Trusted: Coq kernel + vm_compute; Bignums/Uint63 primitives for the executed instance only; hand-written model tied by sampled "
        "correspondence; harness. Theorems conditional on the model returning Ok (all inner systems met by the schedule invertible). "
        "The model follows the fixed code (F01: self-connections are rejected).",
   technique="Coq proof (all netlists, all schedules) + vm_compute correspondence vs implementation + source-to-Gallina translation of split_in_out / get_S_back / sel_* / the pin list of join proved equal to the model on every run", design="§5 C01"),
 "C18": dict(
   text="Proof: props/C18.v states, for every dimension triple and every scalar field satisfying the laws of Field.v, that "
        "the model of S_matrix.add is the exact elimination of the shared ports (soundness, existence and uniqueness of the "
        "interface waves), is associative, has the reflection-free through connection as neutral element, rejects mismatched "
        "dimensions, is slice-wise when batched, and that int_complete returns amplitudes satisfying both components' equations. "
        "All closed under the global context. The same Gallina definitions, instantiated with Gaussian rationals (bigQ), are run "
        "by vm_compute against S_matrix.add/int_complete of /repo on generated reflective blocks (incl. zero dimensions, batches, "
        "broadcast, mismatches); Coq decides agreement within 1e-9 in exact arithmetic. Half of the unbatched cases fill the S_matrix blocks in place after construction (complex dtype of the allocated blocks). On every run harness/translate_kernel.py also translates the CURRENT source of S_matrix.__init__/add/int_complete to Gallina (shape inference, fail-closed) and coq/templates/KernelSrcProof.v proves the translated source equal to Kernel.sadd / Kernel.int_complete for all operands (add_src_is_sadd, int_complete_src_is_model; closed under the global context): for the kernel the tie is not only sampled. The add stream contains structured zeros (the product of the facing reflections vanishes in one order only). In 30 % of the int_complete cases the first operand has met another partner before the measured call. matrix() and det() of every 2-D join are compared with the block matrix [[S11, S12], [S21, S22]].",
   note="Trusted: Coq kernel + vm_compute; Bignums/Uint63 primitives (only for the executed instance BQCf, not for the theorems); "
        "hand-written model tied by sampled correspondence; harness (generators, float->dyadic transport, emitter, parser). "
        "Theorems are conditional on the model returning Ok (inner systems invertible). numpy is exercised, not verified.",
   technique="Coq proof (generic field) + source-to-Gallina translation of the kernel proved equal to the model on every run + vm_compute correspondence vs implementation", design="§5 C18, §3.3"),
}

def main():
    checks = []
    for pid in ids:
        if pid not in CHECKS:
            continue
        c = CHECKS[pid]
        checks.append({
            "property_id": pid,
            "quick_cmd": f"./check {pid} quick",
            "thorough_cmd": f"./check {pid} thorough",
            "evidence_file": f"/verif/evidence/{pid}.json",
            "replay_cmd_template": f"./check {pid} replay {{path}}",
            "engine": "coq-model+correspondence",
            "level_claimed": {"category": "proof", "text": c["text"], "design_ref": c["design"]},
            "level_note": c["note"],
            "technique": c["technique"],
        })
    na = [{"property_id": pid,
           "reason": "not claimed yet: model/theorems/check for this property are still being built in this round (design in DESIGN.md §5); no other technique is substituted"}
          for pid in ids if pid not in CHECKS]
    hooks_commits = []
    hp = os.path.join(VERIF, "hooks_commits.txt")
    if os.path.exists(hp):
        hooks_commits = [l.strip() for l in open(hp) if l.strip()]
    man = {
        "version": 1,
        "setup_cmd": "cd /verif/coq && coq_makefile -f _CoqProject theories/*.v props/*.v -o Makefile >/dev/null 2>&1 && timeout 3000 make -j16",
        "hooks": {"guard": "LEKKERSIM_VERIF", "enable": "environment variable LEKKERSIM_VERIF=1 (set by ./check); pure Python, nothing to build",
                  "baseline_off_cmd": "cd /repo && env -u LEKKERSIM_VERIF /venv/bin/python -m pytest -ra -q -p no:cacheprovider --timeout=900 --continue-on-collection-errors",
                  "source_commits": hooks_commits, "add_only": True},
        "engines": [{"name": "coq-model+correspondence", "path": "/verif/coq, /verif/harness",
                     "serves_properties": [c["property_id"] for c in checks],
                     "kind_free_text": "Coq 8.16 development (model generic over a scalar field, theorems in props/) + Python harness that runs /repo and lets Coq (vm_compute) decide agreement with the model"}],
        "checks": checks,
        "not_applicable": na,
        "notes": "See DESIGN.md. Every check: rebuilds the Coq theory if stale, re-checks props/<id>.v (Print Assumptions captured), runs the implementation from /repo's working tree on generated cases and evaluates the model on them inside Coq.",
    }
    json.dump(man, open(os.path.join(VERIF, "MANIFEST.json"), "w"), indent=1)

if __name__ == "__main__":
    main()
