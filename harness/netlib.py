"""Random netlists, their construction through lekkersim's public API, and their Coq literals."""
from __future__ import annotations

import copy
import json
import math
import random

import numpy as np

from common import cf, clist, cmat, cnat, cq, rand_matrix, setup_repo_import

lk = setup_repo_import()
from lekkersim.pin import Pin  # noqa: E402
from lekkersim.structure import Structure  # noqa: E402


def m2j(A):
    return [[[float(x.real), float(x.imag)] for x in row] for row in np.asarray(A)]


def j2m(J):
    n = len(J)
    m = len(J[0]) if n else 0
    A = np.zeros((n, m), complex)
    for i in range(n):
        for j in range(m):
            A[i, j] = complex(J[i][j][0], J[i][j][1])
    return A


# ---------------------------------------------------------------------------------------------
# exactly unitary / symmetric / contractive rational matrices


def cayley_unitary(rng, n, den=4, symmetric=False):
    """exactly unitary matrix with Gaussian-rational entries: (I - iH)^-1 (I + iH), H Hermitian.
    Returned as (matrix of Fraction pairs) -> floats are NOT exact, so for exactness we return
    numerators/denominators separately."""
    from fractions import Fraction as Fr

    H = [[(Fr(0), Fr(0))] * n for _ in range(n)]
    for i in range(n):
        H[i][i] = (Fr(rng.randint(-3, 3), den), Fr(0))
        for j in range(i + 1, n):
            z = (Fr(rng.randint(-3, 3), den), Fr(0) if symmetric else Fr(rng.randint(-3, 3), den))
            H[i][j] = z
            H[j][i] = (z[0], -z[1])
    # exact Gaussian-rational linear algebra
    def cmul(a, b): return (a[0] * b[0] - a[1] * b[1], a[0] * b[1] + a[1] * b[0])
    def csub(a, b): return (a[0] - b[0], a[1] - b[1])
    def cadd(a, b): return (a[0] + b[0], a[1] + b[1])
    def cinv(a):
        d = a[0] * a[0] + a[1] * a[1]
        return (a[0] / d, -a[1] / d)
    I = [[(Fr(1), Fr(0)) if i == j else (Fr(0), Fr(0)) for j in range(n)] for i in range(n)]
    iH = [[cmul((Fr(0), Fr(1)), H[i][j]) for j in range(n)] for i in range(n)]
    A = [[csub(I[i][j], iH[i][j]) for j in range(n)] for i in range(n)]
    B = [[cadd(I[i][j], iH[i][j]) for j in range(n)] for i in range(n)]
    # solve A X = B by Gauss-Jordan
    M = [A[i] + B[i] for i in range(n)]
    for c in range(n):
        p = next(r for r in range(c, n) if M[r][c] != (0, 0))
        M[c], M[p] = M[p], M[c]
        inv = cinv(M[c][c])
        M[c] = [cmul(inv, x) for x in M[c]]
        for r in range(n):
            if r != c and M[r][c] != (0, 0):
                f = M[r][c]
                M[r] = [csub(x, cmul(f, y)) for x, y in zip(M[r], M[c])]
    return [row[n:] for row in M]


def frac_lit(z):
    """(Fraction, Fraction) or ("a/b", "c/d") -> Coq literal"""
    from fractions import Fraction as Fr
    a, b = Fr(z[0]), Fr(z[1])
    d = a.denominator * b.denominator // math.gcd(a.denominator, b.denominator)
    return f"(cq {zl(a.numerator * (d // a.denominator))} {zl(b.numerator * (d // b.denominator))} {d})"


def zl(n):
    return f"({n})" if n < 0 else str(n)


# ---------------------------------------------------------------------------------------------
# generation


def gen_netlist(rng: random.Random, max_comps=5, max_pins=4, kind="random", min_comps=1,
                expose_all=False):
    nc = rng.randint(min_comps, max_comps)
    comps = []
    for c in range(nc):
        n = rng.randint(1, max_pins)
        S = rand_matrix(rng, n, n, n)
        if kind == "symmetric":
            S = (S + S.T) / 2
        perm = list(range(n))
        rng.shuffle(perm)
        comp = {"n": n, "S": m2j(S), "perm": perm}
        if rng.random() < 0.12:
            comp["bare"] = True
        if kind in ("unitary", "unitary_sym", "contractive"):
            U = cayley_unitary(rng, n, symmetric=(kind == "unitary_sym"))
            if kind == "contractive":
                from fractions import Fraction as Fr
                dg = [Fr(rng.randint(0, 4), 4) for _ in range(n)]
                U = [[(U[i][j][0] * dg[j], U[i][j][1] * dg[j]) for j in range(n)] for i in range(n)]
            comp["Sfrac"] = [[[str(z[0]), str(z[1])] for z in row] for row in U]
            comp["S"] = [[[float(z[0]), float(z[1])] for z in row] for row in U]
        comps.append(comp)
    # two placements of ONE model object (they share their Pin objects), often linked through equally named pins
    twin = None
    if nc >= 2 and rng.random() < 0.3:
        b = rng.randrange(1, nc)
        a = rng.randrange(0, b)
        comps[a].pop("bare", None)
        comps[a]["shared"] = rng.randint(1, 10 ** 6)
        comps[b] = copy.deepcopy(comps[a])
        twin = (a, b)
    pins = [(c, k) for c in range(nc) for k in range(comps[c]["n"])]
    rng.shuffle(pins)
    conns = []
    target = rng.choice([0, 1, 2, 3, 4, 6, 8])
    used = set()
    if twin and rng.random() < 0.75:
        ks = list(range(comps[twin[0]]["n"]))
        rng.shuffle(ks)
        for k in ks[:rng.choice([1, 1, 2])]:
            conns.append([[twin[0], k], [twin[1], k]])
            used.add((twin[0], k))
            used.add((twin[1], k))
    # force some multi-links / cycles with fixed probability
    if nc >= 2 and rng.random() < 0.4:
        a, b = rng.sample(range(nc), 2)
        wide = [i for i in range(nc) if comps[i]["n"] >= 3]
        if len(wide) >= 2 and rng.random() < 0.6:
            a, b = rng.sample(wide, 2)         # three or more links between one pair, declared in scrambled pin order
        pa = [(a, k) for k in range(comps[a]["n"]) if (a, k) not in used]
        pb = [(b, k) for k in range(comps[b]["n"]) if (b, k) not in used]
        rng.shuffle(pa)
        rng.shuffle(pb)         # several links between one pair, in permuted pin order (3-cycles and longer included)
        for x, y in list(zip(pa, pb))[:rng.choice([2, 2, 3, 3, 4])]:
            conns.append([list(x), list(y)])
            used.add(x)
            used.add(y)
    free = [p for p in pins if p not in used]
    while len(conns) < target and len(free) >= 2:
        x = free.pop()
        cand = [p for p in free if p[0] != x[0]]
        if not cand:
            break
        y = rng.choice(cand)
        free.remove(y)
        conns.append([list(x), list(y)])
        used.add(x)
        used.add(y)
    free = [p for p in pins if p not in used]
    rng.shuffle(free)
    k = rng.randint(0, len(free)) if (rng.random() < 0.7 and not expose_all) else len(free)
    expo = [[p[0], p[1], f"x{i}"] for i, p in enumerate(sorted(free[:k]))]
    rng.shuffle(expo)
    return {"comps": comps, "conns": conns, "expo": expo,
            "style": rng.choice(["ctor", "with", "with"]),
            "perm_seed": rng.randint(0, 10 ** 9), "kind": kind}


# ---------------------------------------------------------------------------------------------
# building through the public API


def comp_model(c):
    if c.get("ps"):
        return lk.PhaseShifter().pin_mapping({Pin("a0"): Pin("p0"), Pin("b0"): Pin("p1")})
    n = c["n"]
    S = j2m(c["S"])
    perm = c.get("perm") or list(range(n))
    Spy = np.zeros((n, n), complex)
    for i in range(n):
        for j in range(n):
            Spy[perm[i], perm[j]] = S[i, j]
    pin_dic = {Pin(f"p{k}"): perm[k] for k in range(n)}
    return lk.Model(pin_dic=pin_dic, Smatrix=Spy)


def build(desc, shuffle=False):
    """returns (solver, [structures]) built from the description"""
    rng = random.Random(desc.get("perm_seed", 0))
    comps = desc["comps"]
    order = list(range(len(comps)))
    conns = [copy.deepcopy(c) for c in desc["conns"]]
    expo = list(desc["expo"])
    if shuffle:
        rng.shuffle(order)
        rng.shuffle(conns)
        conns = [c if rng.random() < 0.5 else [c[1], c[0]] for c in conns]
        rng.shuffle(expo)
    models = [comp_model(c) for c in comps]
    shared = {}
    for i, c in enumerate(comps):
        if c.get("shared") and not c.get("bare") and not c.get("ps"):
            key = (c["shared"], c["n"], json.dumps(c["S"]), tuple(c.get("perm") or []))
            models[i] = shared.setdefault(key, models[i])         # the SAME Model object placed again
    if desc.get("style", "ctor") == "ctor":
        sts = {i: Structure(model=models[i]) for i in order}
        connections = {}
        for (a, b) in conns:
            connections[sts[a[0]].pin[f"p{a[1]}"]] = sts[b[0]].pin[f"p{b[1]}"]
        sol = lk.Solver(structures=[sts[i] for i in order], connections=connections)
        sol.map_pins({name: sts[c].pin[f"p{k}"] for (c, k, name) in expo})
    else:
        sts = {}
        with lk.Solver() as sol:
            for i in order:
                if comps[i].get("bare") and comps[i].get("n", 0) > 0 and not comps[i].get("ps"):
                    # a bare Structure carrying its matrix (no Model object), added with add_structure
                    n = comps[i]["n"]
                    st = Structure(pin_list=[Pin(f"p{k}") for k in range(n)])
                    st.Smatrix = np.array([j2m(comps[i]["S"]).reshape(n, n)], complex)
                    sol.add_structure(st)
                    sts[i] = st
                else:
                    # placement may wire at once: Model.put(source pin, (placed structure, pin)), the source pin given by
                    # name or as a Pin object, the target pin likewise
                    cand = [c for c in conns if (c[0][0] == i and c[1][0] in sts and c[1][0] != i)
                            or (c[1][0] == i and c[0][0] in sts and c[0][0] != i)]
                    if cand and rng.random() < 0.4:
                        c = cand[0]
                        conns.remove(c)
                        me, other = (c[0], c[1]) if c[0][0] == i else (c[1], c[0])
                        src = f"p{me[1]}" if rng.random() < 0.5 else Pin(f"p{me[1]}")
                        tgt = f"p{other[1]}" if rng.random() < 0.5 else Pin(f"p{other[1]}")
                        sts[i] = models[i].put(src, (sts[other[0]], tgt))
                    elif comps[i].get("wrap") and comps[i].get("n", 0) > 0:
                        # the component placed as a SUB-SOLVER of its own (every pin exposed under its own name)
                        with lk.Solver(name=f"W{i}") as sub:
                            inner = models[i].put()
                            for k in range(comps[i]["n"]):
                                lk.Pin(f"p{k}").put(inner.pin[f"p{k}"])
                        sts[i] = sub.put()
                    else:
                        sts[i] = models[i].put()
            if desc.get("mon_early"):
                # monitors declared BEFORE the links are made (the links then name a monitored end first or second)
                for i in desc.get("mon", []):
                    lk.add_structure_to_monitors(sts[i], name=f"M{i}")
            for (a, b) in conns:
                lk.connect(sts[a[0]].pin[f"p{a[1]}"], sts[b[0]].pin[f"p{b[1]}"])
            # a component with several exposed pins may expose them in ONE call, listed against declaration order:
            # Structure.raise_pins([pins], [names])
            done = set()
            for c in sorted({x[0] for x in expo}):
                mine = [(k, name) for (cc, k, name) in expo if cc == c]
                if len(mine) >= 2 and len({k for k, _ in mine}) == len(mine) and rng.random() < 0.35 \
                        and not comps[c].get("bare"):
                    mine.sort(key=lambda t: -t[0])
                    pini = [Pin(f"p{k}") if rng.random() < 0.5 else f"p{k}" for k, _ in mine]
                    sts[c].raise_pins(pini, [name for _, name in mine])
                    done.add(c)
            for (c, k, name) in expo:
                if c in done:
                    continue
                if comps[c].get("n", 0) > 1 and not comps[c].get("ps") and rng.random() < 0.2:
                    # the name is first given to another pin of the structure, then mapped again: the last mapping counts
                    lk.putpin(name, sts[c].pin[f"p{(k + 1) % comps[c]['n']}"])
                if rng.random() < 0.5:
                    lk.Pin(name).put(sts[c].pin[f"p{k}"])
                else:
                    lk.putpin(name, sts[c].pin[f"p{k}"])
    return sol, [sts[i] for i in range(len(comps))]


def observe_expo(mod, expo_names, k=0):
    """matrix of coefficients between exposed names (in the given order) at sweep point k"""
    table = {p.name: i for p, i in mod.pin_dic.items()}     # by printable name (pins may carry modes)
    idx = [table[n] for n in expo_names]
    S = np.asarray(mod.S)
    return np.array([[S[k, i, j] for j in idx] for i in idx], complex).reshape(len(idx), len(idx))


def observe_s2pd(mod, expo_names):
    """the same matrix read through the library's own named view: S2PD() is labelled with the printable pin names"""
    tab = mod.S2PD()
    return np.array([[complex(tab.loc[a, b]) for b in expo_names] for a in expo_names], complex).reshape(
        len(expo_names), len(expo_names))


# ---------------------------------------------------------------------------------------------
# Coq literals


def spin(c, k):
    return f"({cnat(c)}, {cnat(k)})"


def comps_lit(desc, lit=None):
    out = []
    for i, c in enumerate(desc["comps"]):
        if "Sfrac" in c:
            mat = clist(clist(frac_lit(z) for z in row) for row in c["Sfrac"])
        else:
            mat = cmat(j2m(c["S"]).reshape(c["n"], c["n"]), cq)
        out.append(f"({cnat(i)}, {cnat(c['n'])}, {mat})")
    return clist(out)


def conns_lit(desc):
    return clist(f"({spin(*a)}, {spin(*b)})" for a, b in desc["conns"])


def expo_lit(desc):
    return clist(spin(c, k) for (c, k, _) in desc["expo"])


def sched_lit(s):
    if s is None:
        return "None"
    return "Some " + clist(f"({cnat(i)}, {cnat(j)})" for i, j in s)


def net_case_lit(desc, obs, sched=None):
    return ("{| nc_comps := %s; nc_conns := %s; nc_expo := %s; nc_sched := %s; nc_obs := %s |}"
            % (comps_lit(desc), conns_lit(desc), expo_lit(desc), sched_lit(sched), obs))


def obs_matrix_lit(M):
    n = M.shape[0]
    return "Obs " + cmat(M.reshape(n, n), cf)


def shrink_netlist(d):
    """smaller netlists: drop a component (with its links and exposures), a connection, an exposure"""
    out = []
    nc = len(d["comps"])
    for c in range(nc):
        if nc <= 1:
            break
        e = copy.deepcopy(d)
        del e["comps"][c]
        ren = lambda i: i if i < c else i - 1
        e["conns"] = [[[ren(a[0]), a[1]], [ren(b[0]), b[1]]] for a, b in e["conns"]
                      if a[0] != c and b[0] != c]
        e["expo"] = [[ren(x[0]), x[1], x[2]] for x in e["expo"] if x[0] != c]
        out.append(e)
    for i in range(len(d["conns"])):
        e = copy.deepcopy(d)
        del e["conns"][i]
        out.append(e)
    for i in range(len(d["expo"])):
        e = copy.deepcopy(d)
        del e["expo"][i]
        out.append(e)
    return out
