"""Translator: lekkersim/scattering.py (S_matrix.add, S_matrix.int_complete) -> Gallina.

The two kernel routines are straight-line numpy programs.  This module reads their CURRENT source with
Python's `ast`, infers the (symbolic) shape of every intermediate value, and emits Gallina definitions
`add_src` / `int_complete_src` over the operators of Matrix.v (mmul with the inferred inner dimension, madd,
msub, mid, the certified inverse).  The emitted file ends with a fixed proof script (coq/templates/
KernelSrcProof.v) showing, for EVERY scalar field and ALL operands, that the translated source equals the
hand-written model `Kernel.sadd` / `Kernel.int_complete` the C18 theorems are about.

Fail-closed: any construct outside the small grammar below raises `Unsupported` (reported by the check as a
broken obligation), so a change of the source can never be silently ignored.

Grammar (statements): docstring; `if <dim> != <dim>: raise ...`; `<name> = <expr>`; `<obj> = S_matrix(<dim>, <dim>)`;
`<obj>.S<ij> = <expr>`; `return <obj>` / `return (<expr>, <expr>)`.
Grammar (expressions): self.S<ij> / other.S<ij> / names; np.identity(<dim>[, complex]); np.matmul(a, b);
linalg.inv(a); linalg.solve(a, b); a + b; a - b; np.expand_dims(v, -1); np.squeeze(v, -1);
`<e> if len(<vec>) > 0 else np.zeros((<dim>, 1))`.
Trusted about numpy: matmul / inv / solve / identity / + / - mean the matrix operations of the same name
(slice-wise over a leading batch axis); `solve(E, r)` = `inv(E) r` whenever E is invertible.
"""
from __future__ import annotations

import ast
import hashlib
import os


class Unsupported(Exception):
    pass


BLOCK_SHAPES = {"S11": ("M", "N"), "S12": ("M", "M"), "S21": ("N", "N"), "S22": ("N", "M")}


class Tr:
    def __init__(self, fn: ast.FunctionDef, vec_args=()):
        self.fn = fn
        args = [a.arg for a in fn.args.args]
        if len(args) < 2:
            raise Unsupported("kernel routine must take self and a second operand")
        self.objs = {args[0]: "A", args[1]: "B"}
        self.vecs = {}
        for name, dim in zip(args[2:], vec_args):
            self.vecs[name] = dim
        if len(args) - 2 != len(vec_args):
            raise Unsupported(f"unexpected argument list {args}")
        self.parent = {}            # union-find over symbolic dims nA mA nB mB
        self.env = {}               # local name -> (coq term, shape)
        self.lines = []             # emitted Gallina binders
        self.fresh = 0
        self.result = None
        self.newobj = None          # (python name, dimN, dimM, {block: term})

    # ---- dims
    def find(self, d):
        while d in self.parent:
            d = self.parent[d]
        return d

    def unify(self, a, b):
        a, b = self.find(a), self.find(b)
        if a != b:
            # keep the representative that belongs to A (stable output)
            if a.endswith("B") and not b.endswith("B"):
                a, b = b, a
            self.parent[b] = a

    def same(self, a, b):
        return self.find(a) == self.find(b)

    def cdim(self, d):
        d = self.find(d)
        return {"nA": "(sN A)", "mA": "(sM A)", "nB": "(sN B)", "mB": "(sM B)"}[d]

    def dim_of(self, node):
        """self.N / s.M ... -> symbolic dim"""
        if isinstance(node, ast.Attribute) and isinstance(node.value, ast.Name) and node.value.id in self.objs \
                and node.attr in ("N", "M"):
            return ("n" if node.attr == "N" else "m") + self.objs[node.value.id]
        raise Unsupported(f"line {node.lineno}: not a dimension: {ast.unparse(node)}")

    # ---- expressions
    def is_call(self, node, mod, name):
        return (isinstance(node, ast.Call) and isinstance(node.func, ast.Attribute) and node.func.attr == name
                and isinstance(node.func.value, ast.Name) and node.func.value.id == mod)

    def expr(self, node):
        """returns (coq term, shape); shape = ('m', r, c) | ('v', n)"""
        if isinstance(node, ast.Name):
            if node.id in self.env:
                return self.env[node.id]
            if node.id in self.vecs:
                return node.id, ("v", self.vecs[node.id])
            raise Unsupported(f"line {node.lineno}: unknown name {node.id}")
        if isinstance(node, ast.Attribute) and isinstance(node.value, ast.Name) and node.value.id in self.objs \
                and node.attr in BLOCK_SHAPES:
            o = self.objs[node.value.id]
            r, c = BLOCK_SHAPES[node.attr]
            return f"({node.attr} {o})", ("m", r.lower() + o, c.lower() + o)
        if self.is_call(node, "np", "identity"):
            if len(node.args) not in (1, 2) or node.keywords:
                raise Unsupported(f"line {node.lineno}: identity arguments")
            if len(node.args) == 2 and not (isinstance(node.args[1], ast.Name) and node.args[1].id == "complex"):
                raise Unsupported(f"line {node.lineno}: identity dtype")
            d = self.dim_of(node.args[0])
            return "(@mid K)", ("m", d, d)
        if self.is_call(node, "np", "matmul"):
            if len(node.args) != 2 or node.keywords:
                raise Unsupported(f"line {node.lineno}: matmul arguments")
            (a, sa), (b, sb) = self.expr(node.args[0]), self.expr(node.args[1])
            if sa[0] != "m":
                raise Unsupported(f"line {node.lineno}: matmul with a vector on the left")
            if sb[0] == "m":
                if not self.same(sa[2], sb[1]):
                    raise Unsupported(f"line {node.lineno}: inner dimensions of matmul not known to agree")
                return f"(mmul {self.cdim(sa[2])} {a} {b})", ("m", sa[1], sb[2])
            if not self.same(sa[2], sb[1]):
                raise Unsupported(f"line {node.lineno}: inner dimensions of matmul not known to agree")
            return f"(mv {self.cdim(sa[2])} {a} {b})", ("v", sa[1])
        if self.is_call(node, "linalg", "inv"):
            if len(node.args) != 1 or node.keywords:
                raise Unsupported(f"line {node.lineno}: inv arguments")
            a, sa = self.expr(node.args[0])
            if sa[0] != "m" or not self.same(sa[1], sa[2]):
                raise Unsupported(f"line {node.lineno}: inverse of a non-square value")
            self.fresh += 1
            x = f"X{self.fresh}"
            self.lines.append(f"do {x} <- oinv {self.cdim(sa[1])} {a};")
            return x, sa
        if self.is_call(node, "linalg", "solve"):
            if len(node.args) != 2 or node.keywords:
                raise Unsupported(f"line {node.lineno}: solve arguments")
            a, sa = self.expr(node.args[0])
            b, sb = self.expr(node.args[1])
            if sa[0] != "m" or not self.same(sa[1], sa[2]) or sb[0] != "v" or not self.same(sa[2], sb[1]):
                raise Unsupported(f"line {node.lineno}: shapes of solve")
            self.fresh += 1
            x = f"X{self.fresh}"
            self.lines.append(f"do {x} <- oinv {self.cdim(sa[1])} {a};")
            return f"(mv {self.cdim(sa[1])} {x} {b})", ("v", sa[1])
        if isinstance(node, ast.BinOp) and isinstance(node.op, (ast.Add, ast.Sub)):
            (a, sa), (b, sb) = self.expr(node.left), self.expr(node.right)
            if sa[0] != sb[0] or not all(self.same(x, y) for x, y in zip(sa[1:], sb[1:])):
                raise Unsupported(f"line {node.lineno}: shapes of +/- not known to agree")
            plus = isinstance(node.op, ast.Add)
            if sa[0] == "m":
                return f"({'madd' if plus else 'msub'} {a} {b})", sa
            return f"({'vadd' if plus else 'vsub'} {a} {b})", sa
        if self.is_call(node, "np", "expand_dims") or self.is_call(node, "np", "squeeze"):
            if len(node.args) != 2 or node.keywords or ast.unparse(node.args[1]) != "-1":
                raise Unsupported(f"line {node.lineno}: expand_dims/squeeze only on the last axis")
            a, sa = self.expr(node.args[0])
            if sa[0] != "v":
                raise Unsupported(f"line {node.lineno}: expand_dims/squeeze of a matrix")
            return a, sa
        if isinstance(node, ast.IfExp):
            # <e> if len(<vec>) > 0 else np.zeros((<dim>, 1))
            t = node.test
            if not (isinstance(t, ast.Compare) and len(t.ops) == 1 and isinstance(t.ops[0], ast.Gt)
                    and isinstance(t.left, ast.Call) and isinstance(t.left.func, ast.Name) and t.left.func.id == "len"
                    and len(t.left.args) == 1 and isinstance(t.left.args[0], ast.Name)
                    and t.left.args[0].id in self.vecs and ast.unparse(t.comparators[0]) == "0"):
                raise Unsupported(f"line {node.lineno}: conditional expression")
            vdim = self.vecs[t.left.args[0].id]
            a, sa = self.expr(node.body)
            z = node.orelse
            if not (self.is_call(z, "np", "zeros") and len(z.args) == 1 and isinstance(z.args[0], ast.Tuple)
                    and len(z.args[0].elts) == 2 and ast.unparse(z.args[0].elts[1]) == "1"):
                raise Unsupported(f"line {node.lineno}: else-branch must be np.zeros((dim, 1))")
            zd = self.dim_of(z.args[0].elts[0])
            if sa[0] != "v" or not self.same(sa[1], zd):
                raise Unsupported(f"line {node.lineno}: branches of the conditional differ in shape")
            return f"(if Nat.eqb {self.cdim(vdim)} 0 then (@vzero K) else {a})", sa
        raise Unsupported(f"line {getattr(node, 'lineno', '?')}: unsupported expression {ast.unparse(node)}")

    # ---- statements
    def run(self):
        body = list(self.fn.body)
        if body and isinstance(body[0], ast.Expr) and isinstance(body[0].value, ast.Constant) \
                and isinstance(body[0].value.value, str):
            body = body[1:]
        guard = None
        for st in body:
            if self.result is not None:
                raise Unsupported(f"line {st.lineno}: statement after return")
            if isinstance(st, ast.If):
                t = st.test
                if not (guard is None and not self.lines and not self.env and not st.orelse and len(st.body) == 1
                        and isinstance(st.body[0], ast.Raise) and isinstance(t, ast.Compare) and len(t.ops) == 1
                        and isinstance(t.ops[0], ast.NotEq)):
                    raise Unsupported(f"line {st.lineno}: only a leading dimension guard may branch")
                d1, d2 = self.dim_of(t.left), self.dim_of(t.comparators[0])
                guard = f"if negb (Nat.eqb {self.cdim(d1)} {self.cdim(d2)}) then Err EDim else"
                self.unify(d1, d2)
                continue
            if isinstance(st, ast.Assign) and len(st.targets) == 1:
                tg = st.targets[0]
                if isinstance(tg, ast.Name):
                    v = st.value
                    if isinstance(v, ast.Call) and isinstance(v.func, ast.Name) and v.func.id == "S_matrix":
                        if len(v.args) != 2 or v.keywords or self.newobj is not None:
                            raise Unsupported(f"line {st.lineno}: result object construction")
                        self.newobj = (tg.id, self.dim_of(v.args[0]), self.dim_of(v.args[1]), {})
                        continue
                    if tg.id in self.env or tg.id in self.objs or tg.id in self.vecs:
                        raise Unsupported(f"line {st.lineno}: re-assignment of {tg.id}")
                    term, sh = self.expr(v)
                    cname = "v_" + tg.id
                    self.lines.append(f"let {cname} := {term} in")
                    self.env[tg.id] = (cname, sh)
                    continue
                if isinstance(tg, ast.Attribute) and isinstance(tg.value, ast.Name) and self.newobj is not None \
                        and tg.value.id == self.newobj[0] and tg.attr in BLOCK_SHAPES:
                    if tg.attr in self.newobj[3]:
                        raise Unsupported(f"line {st.lineno}: block {tg.attr} assigned twice")
                    term, sh = self.expr(st.value)
                    r, c = BLOCK_SHAPES[tg.attr]
                    want = (self.newobj[1] if r == "N" else self.newobj[2], self.newobj[1] if c == "N" else self.newobj[2])
                    if sh[0] != "m" or not self.same(sh[1], want[0]) or not self.same(sh[2], want[1]):
                        raise Unsupported(f"line {st.lineno}: shape of block {tg.attr}")
                    cname = f"r_{tg.attr}"
                    self.lines.append(f"let {cname} := {term} in")
                    self.newobj[3][tg.attr] = cname
                    continue
            if isinstance(st, ast.Return):
                v = st.value
                if isinstance(v, ast.Name) and self.newobj is not None and v.id == self.newobj[0]:
                    if set(self.newobj[3]) != set(BLOCK_SHAPES):
                        raise Unsupported(f"line {st.lineno}: not every block of the result is assigned")
                    b = self.newobj[3]
                    self.result = ("Ok {| sN := %s; sM := %s; S11 := %s; S12 := %s; S21 := %s; S22 := %s |}"
                                   % (self.cdim(self.newobj[1]), self.cdim(self.newobj[2]),
                                      b["S11"], b["S12"], b["S21"], b["S22"]))
                    continue
                if isinstance(v, ast.Tuple) and len(v.elts) == 2:
                    (a, sa), (b, sb) = self.expr(v.elts[0]), self.expr(v.elts[1])
                    if sa[0] != "v" or sb[0] != "v":
                        raise Unsupported(f"line {st.lineno}: returned pair must be two vectors")
                    self.result = f"Ok ({a}, {b})"
                    self.ret_dims = (self.cdim(sa[1]), self.cdim(sb[1]))
                    continue
            raise Unsupported(f"line {st.lineno}: unsupported statement {ast.unparse(st)[:80]}")
        if self.result is None:
            raise Unsupported("no return")
        return guard, self.lines, self.result


def check_init(fn: ast.FunctionDef):
    """the block shapes the translation relies on (BLOCK_SHAPES) are read off S_matrix.__init__: every block must be
    allocated as np.zeros((<r>, <c>), complex) — resp. (ns, <r>, <c>) in the batched branch — with exactly those shapes"""
    args = [a.arg for a in fn.args.args]
    if args[:3] != ["self", "N", "M"]:
        raise Unsupported(f"S_matrix.__init__ arguments {args}")
    seen = {}
    for node in ast.walk(fn):
        if isinstance(node, ast.Assign) and len(node.targets) == 1 and isinstance(node.targets[0], ast.Attribute) \
                and isinstance(node.targets[0].value, ast.Name) and node.targets[0].value.id == "self" \
                and node.targets[0].attr in BLOCK_SHAPES:
            v = node.value
            ok = (isinstance(v, ast.Call) and ast.unparse(v.func) == "np.zeros" and len(v.args) == 2 and not v.keywords
                  and isinstance(v.args[0], ast.Tuple) and ast.unparse(v.args[1]) == "complex")
            if not ok:
                raise Unsupported(f"line {node.lineno}: block allocation must be np.zeros(shape, complex)")
            dims = [ast.unparse(e) for e in v.args[0].elts]
            if len(dims) == 3 and dims[0] == "ns":
                dims = dims[1:]
            if tuple(dims) != BLOCK_SHAPES[node.targets[0].attr]:
                raise Unsupported(f"line {node.lineno}: shape of {node.targets[0].attr} is {dims}")
            seen[node.targets[0].attr] = seen.get(node.targets[0].attr, 0) + 1
    if set(seen) != set(BLOCK_SHAPES):
        raise Unsupported("S_matrix.__init__ does not allocate every block")
    # which branch allocates what: 2-D blocks exactly when no batch size is given (`ns is None`; a batch of size 0 is a batch),
    # stacks of ns matrices otherwise
    branch = [n for n in fn.body if isinstance(n, ast.If)]
    if len(branch) != 1 or ast.unparse(branch[0].test) != "ns is None":
        raise Unsupported("S_matrix.__init__: the choice between unbatched and batched blocks must be `if ns is None`")
    for part, rank in ((branch[0].body, 2), (branch[0].orelse, 3)):
        allocs = [n for n in part if isinstance(n, ast.Assign) and ast.unparse(n.targets[0])[5:] in BLOCK_SHAPES]
        if len(allocs) != len(BLOCK_SHAPES) or any(len(n.value.args[0].elts) != rank for n in allocs):
            raise Unsupported(f"S_matrix.__init__: the {'un' if rank == 2 else ''}batched branch must allocate every block with rank {rank}")
        if rank == 3 and any(ast.unparse(n.value.args[0].elts[0]) != "ns" for n in allocs):
            raise Unsupported("S_matrix.__init__: the leading axis of a batched block must be ns")
    for name in ("N", "M"):
        if not any(isinstance(n, ast.Assign) and ast.unparse(n.targets[0]) == f"self.{name}" and ast.unparse(n.value) == name
                   for n in fn.body):
            raise Unsupported(f"S_matrix.__init__ does not store {name}")


def translate(repo: str) -> str:
    """returns the Gallina text of the generated definitions (raises Unsupported)"""
    path = os.path.join(repo, "lekkersim", "scattering.py")
    with open(path) as f:
        src = f.read()
    tree = ast.parse(src)
    cls = [n for n in tree.body if isinstance(n, ast.ClassDef) and n.name == "S_matrix"]
    if len(cls) != 1:
        raise Unsupported("class S_matrix not found")
    fns = {n.name: n for n in cls[0].body if isinstance(n, ast.FunctionDef)}
    if "__init__" not in fns:
        raise Unsupported("S_matrix.__init__ not found")
    check_init(fns["__init__"])
    for need in ("add", "int_complete"):
        if need not in fns:
            raise Unsupported(f"S_matrix.{need} not found")
    out = [f"(* GENERATED by harness/translate_kernel.py from {path}",
           f"   sha256 {hashlib.sha256(src.encode()).hexdigest()} — do not edit *)",
           "From Coq Require Import List Arith Lia Bool.",
           "From Lekkersim Require Import Field Matrix Base Kernel.",
           "Section KernelSrc.", "Variable K : cfield.",
           "Definition oinv (k : nat) (E : mx K) : result (mx K) :=",
           "  match cinv k E with Some X => Ok X | None => Err ESingular end.", ""]
    t = Tr(fns["add"])
    guard, lines, res = t.run()
    out.append("Definition add_src (A B : smx K) : result (smx K) :=")
    if guard:
        out.append("  " + guard)
    out += ["  " + l for l in lines] + ["  " + res + ".", ""]
    t = Tr(fns["int_complete"], vec_args=("nA", "mB"))
    names = [a.arg for a in fns["int_complete"].args.args][2:]
    # int_complete is only called on operands that were joined before (M of self = N of the other): the model
    # takes k = sM A for both; the translation makes the same identification explicit
    t.unify("mA", "nB")
    guard, lines, res = t.run()
    if guard:
        raise Unsupported("int_complete: unexpected guard")
    out.append(f"Definition int_complete_src (A B : smx K) ({' '.join(names)} : vec K) : result (vec K * vec K) :=")
    out += ["  " + l for l in lines] + ["  " + res + ".", ""]
    out.append("End KernelSrc.")
    return "\n".join(out) + "\n"


if __name__ == "__main__":
    import sys
    print(translate(sys.argv[1] if len(sys.argv) > 1 else "/repo"))
