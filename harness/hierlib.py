"""Hierarchies of solvers: random definitions (a DAG, so sub-solvers are re-used), construction
through the public API, instantiation as a tree of leaf components for the Coq model."""
from __future__ import annotations

import copy
import random

import numpy as np

import netlib
from common import clist, cnat
from netlib import Pin, Structure, lk, m2j, rand_matrix


def gen_comp(rng, max_pins=3, kind="random"):
    n = rng.randint(1, max_pins)
    S = rand_matrix(rng, n, n, n)
    perm = list(range(n))
    rng.shuffle(perm)
    return {"n": n, "S": m2j(S), "perm": perm}


def nports(desc, ch):
    if "empty" in ch:
        return 0
    if "zombie" in ch:
        return 2
    return ch["leaf"]["n"] if "leaf" in ch else len(desc["defs"][ch["sub"]]["expo"])


def gen_hier(rng: random.Random, ndefs=3, max_children=3, max_pins=3, leaf_p=0.5):
    desc = {"defs": []}
    for k in range(ndefs):
        children = []
        nchild = rng.randint(1, max_children)
        for c in range(nchild):
            usable = [j for j in range(k) if len(desc["defs"][j]["expo"]) > 0]
            if usable and rng.random() > leaf_p:
                children.append({"sub": rng.choice(usable)})
            else:
                children.append({"leaf": gen_comp(rng, max_pins)})
        if k == ndefs - 1 and k > 0 and not any("sub" in ch for ch in children):
            usable = [j for j in range(k) if len(desc["defs"][j]["expo"]) > 0]
            if usable:
                children[0] = {"sub": usable[-1]}
        d = {"children": children, "conns": [], "expo": []}
        if nchild >= 2 and rng.random() < 0.2:
            d["mon"] = [rng.randrange(nchild)]       # one child is declared a monitor (the matrix must not notice)
        desc["defs"].append(d)
        ports = [(c, p) for c, ch in enumerate(children) for p in range(nports(desc, ch))]
        rng.shuffle(ports)
        free = list(ports)
        target = rng.choice([0, 1, 1, 2, 3])
        while len(d["conns"]) < target and len(free) >= 2:
            x = free.pop()
            cand = [p for p in free if p[0] != x[0]]
            if not cand:
                free.insert(0, x)
                break
            y = rng.choice(cand)
            free.remove(y)
            d["conns"].append([list(x), list(y)])
        used = {tuple(e) for c in d["conns"] for e in c}
        free = [p for p in ports if p not in used]
        rng.shuffle(free)
        kk = len(free) if rng.random() < 0.4 else rng.randint(1 if free else 0, len(free))
        d["expo"] = [[p[0], p[1], f"x{i}"] for i, p in enumerate(free[:kk])]
        if rng.random() < 0.3:      # declared against alphabetical order
            d["expo"] = [[p[0], p[1], f"x{kk - 1 - i}"] for i, p in enumerate(free[:kk])]
        if free and rng.random() < 0.3:
            # raise_pins style: some pins named by hand, ALL the other free pins raised under their own names
            # (possible when those names are distinct; a hand-named pin may share its internal name with them)
            nh = rng.randint(0, len(free) - 1)
            hand, rest = free[:nh], free[nh:]
            names = [port_name(desc, children[c], q) for c, q in rest]
            if len(set(names)) == len(names):
                d["expo"] = [[p[0], p[1], f"h{k}_{i}"] for i, p in enumerate(hand)] + \
                            [[p[0], p[1], nm] for p, nm in zip(rest, names)]
                d["auto"] = names
        elif len(d["expo"]) >= 2 and k < ndefs - 1 and rng.random() < 0.35:
            # exposure names that are a cyclic shift of the INNER names of the exposed pins: the sub-circuit's pin "p1" is,
            # say, its component's pin p0 — whoever resolves an external name must not look at inner names
            inner = [port_name(desc, children[c], q) for c, q, _ in d["expo"]]
            if len(set(inner)) == len(inner):
                d["expo"] = [[c, q, inner[(i + 1) % len(inner)]] for i, (c, q, _) in enumerate(d["expo"])]
    desc["top"] = ndefs - 1
    return desc


def port_name(desc, ch, port):
    if "leaf" in ch:
        return f"p{port}"
    if "zombie" in ch:
        return f"p{port}"          # the same pin names as the live leaves beside it
    return desc["defs"][ch["sub"]]["expo"][port][2]


def empty_model(kind):
    """a model without pins: the documented placeholder, a pin-less model that still carries a matrix, or the
    result of solving a circuit without exposing any pin"""
    if kind == 1:
        return lk.Model(Smatrix=np.array([[0.0, 1.0], [1.0, 0.0]], complex))
    if kind == 2:
        with lk.Solver() as hidden:
            lk.Waveguide(1.0).put()
        import logging
        return hidden.solve(wl=1.0)
    return lk.Model()


def build_all(desc):
    """build every definition as a Solver (lower indices first); returns {k: (solver, [structures])}"""
    built = {}
    for k, d in enumerate(desc["defs"]):
        sts = []
        with lk.Solver(name=f"def{k}") as S:
            conns = [c for c in d["conns"]]
            prng = random.Random(1000 * k + len(d["children"]))
            for ci, ch in enumerate(d["children"]):
                if "empty" in ch:
                    sts.append(empty_model(ch.get("ekind", 0)).put())
                elif "zombie" in ch:
                    # a sub-solver that is wired while it has pins and EMPTIED afterwards (the caller removes its only
                    # component once everything is built): a dead branch that still owns connected pins
                    zs = lk.Solver(name="zombie")
                    inner = Structure(model=netlib.comp_model(ch["zombie"]))
                    zs.add_structure(inner)
                    zs.map_pins({"p0": inner.pin["p0"], "p1": inner.pin["p1"]})
                    built.setdefault("zombies", []).append((zs, inner))
                    sts.append(zs.put())
                elif "leaf" in ch:
                    sts.append(netlib.comp_model(ch["leaf"]).put())
                else:
                    # a sub-solver may be wired at placement: SUB.put(<name of its exposed pin>, (placed structure, pin))
                    cand = [c for c in conns if (c[0][0] == ci and c[1][0] < ci) or (c[1][0] == ci and c[0][0] < ci)]
                    if cand and prng.random() < 0.5:
                        c = cand[0]
                        conns.remove(c)
                        me, other = (c[0], c[1]) if c[0][0] == ci else (c[1], c[0])
                        sts.append(built[ch["sub"]][0].put(
                            port_name(desc, ch, me[1]),
                            (sts[other[0]], port_name(desc, d["children"][other[0]], other[1]))))
                    else:
                        sts.append(built[ch["sub"]][0].put())
            for a, b in conns:
                lk.connect(sts[a[0]].pin[port_name(desc, d["children"][a[0]], a[1])],
                           sts[b[0]].pin[port_name(desc, d["children"][b[0]], b[1])])
            auto = set(d.get("auto", []))
            # a child ALL of whose ports are exposed here may be raised in one call that only gives the new names:
            # Structure.raise_pins(pino=[...]) pairs them with the child's pins in the child's own order
            whole = set()
            if not auto:
                for ci, ch in enumerate(d["children"]):
                    mine = sorted((port, name) for c, port, name in d["expo"] if c == ci)
                    np_ = nports(desc, ch)
                    ok = ("leaf" in ch and not ch["leaf"].get("bare")) or ("sub" in ch and not desc["defs"][ch["sub"]].get("auto"))
                    if ok and np_ >= 2 and [p for p, _ in mine] == list(range(np_)) and prng.random() < 0.5:
                        byport = {port_name(desc, ch, port): name for port, name in mine}
                        # the new names, listed in the order in which the placed child lists its own pins
                        sts[ci].raise_pins(pino=[byport[pin.name] for (_, pin) in sts[ci].pin_list])
                        whole.add(ci)
            for c, port, name in d["expo"]:
                if c in whole:
                    continue
                if name not in auto:
                    lk.Pin(name).put(sts[c].pin[port_name(desc, d["children"][c], port)])
            if auto:
                lk.raise_pins()
            for ci in d.get("mon", []):
                if ci < len(sts) and nports(desc, d["children"][ci]) > 0:
                    S.monitor_structure(sts[ci], name=f"M{k}_{ci}")
            # dead branches may be declared monitors too (a wired branch that is emptied later, a placed empty model):
            # when they are pruned away nothing of them may stay behind
            for ci, ch in enumerate(d["children"]):
                if ("zombie" in ch or "empty" in ch) and (k + ci) % 2 == 0 and len(d["children"]) >= 2:
                    S.monitor_structure(sts[ci], name=f"Z{k}_{ci}")
        built[k] = (S, sts)
    return built


def apply_edit_desc(desc, edit):
    """the description after the edit (insert a 2-port in series behind an exposed pin)"""
    d2 = copy.deepcopy(desc)
    if edit.get("kind") == "expose_more":
        # a sub-solver exposes one more pin AFTER it was placed: its placements do not own that pin, nothing
        # changes for the circuits that contain them
        return d2
    d = d2["defs"][edit["def"]]
    c, port, name = d["expo"][edit["expo"]]
    d["children"].append({"leaf": edit["comp"]})
    new = len(d["children"]) - 1
    d["conns"].append([[c, port], [new, 0]])
    d["expo"][edit["expo"]] = [new, 1, name]
    return d2


def apply_edit_py(desc, built, edit):
    S, sts = built[edit["def"]]
    d = desc["defs"][edit["def"]]
    if edit.get("kind") == "expose_more":
        c, port = edit["port"]
        S.map_pins({"extra_pin": sts[c].pin[port_name(desc, d["children"][c], port)]})
        return
    c, port, name = d["expo"][edit["expo"]]
    st = Structure(model=netlib.comp_model(edit["comp"]))
    S.add_structure(st)
    S.connect(sts[c], port_name(desc, d["children"][c], port), st, "p0")
    S.map_pins({name: (st, st.pin["p1"][1])})
    sts.append(st)


def instantiate(desc):
    """-> (Coq hcirc term of the top definition, list of leaf pins of its exposures, #leaves)"""
    counter = [0]

    def inst(k):
        d = desc["defs"][k]
        terms, ports = [], []
        for ch in d["children"]:
            if "empty" in ch or "zombie" in ch:
                i = counter[0]
                counter[0] += 1
                terms.append(f"HLeaf {cnat(i)} 0%nat []")
                ports.append([])
            elif "leaf" in ch:
                i = counter[0]
                counter[0] += 1
                comp = ch["leaf"]
                mat = netlib.cmat(netlib.j2m(comp["S"]).reshape(comp["n"], comp["n"]), netlib.cq)
                terms.append(f"HLeaf {cnat(i)} {cnat(comp['n'])} {mat}")
                ports.append([(i, p) for p in range(comp["n"])])
            else:
                t, ex = inst(ch["sub"])
                terms.append(t)
                ports.append(ex)
        zomb = {c for c, ch in enumerate(d["children"]) if "zombie" in ch}
        conns = clist(f"({netlib.spin(*ports[a[0]][a[1]])}, {netlib.spin(*ports[b[0]][b[1]])})"
                      for a, b in d["conns"] if a[0] not in zomb and b[0] not in zomb)   # its links vanish with it
        ex = [ports[c][p] for c, p, _ in d["expo"]]
        term = "HSub %s %s %s" % (clist("(" + t + ")" for t in terms), conns,
                                  clist(netlib.spin(*e) for e in ex))
        return term, ex

    term, ex = inst(desc["top"])
    return term, ex, counter[0]


def depth(desc, k=None):
    k = desc["top"] if k is None else k
    subs = [ch["sub"] for ch in desc["defs"][k]["children"] if "sub" in ch]
    return 1 + max([depth(desc, j) for j in subs], default=0)


def reuse_count(desc):
    cnt = {}
    for d in desc["defs"]:
        for ch in d["children"]:
            if "sub" in ch:
                cnt[ch["sub"]] = cnt.get(ch["sub"], 0) + 1
    return max(cnt.values(), default=0)
