"""C10 — monitors report the true internal waves and do not disturb the circuit."""
from __future__ import annotations

import copy
import itertools
import json
import re

import numpy as np

import netlib
from common import Stream, cf, clist, cnat, cq, main, rand_dyadic
from netlib import Pin, lk


def gen_case(rng, tier, late=False, reread=False):
    while True:
        d = netlib.gen_netlist(rng, max_comps=4 if tier == "quick" else 6, max_pins=3, min_comps=2)
        nc = len(d["comps"])
        if not d["conns"]:
            continue
        # every non-empty proper subset for <= 4 structures is enumerated by the caller; here: one
        k = rng.randint(1, nc - 1)
        d["mon"] = sorted(rng.sample(range(nc), k))
        d["style"] = "with"
        names = [x[2] for x in d["expo"]]
        exc = {}
        for n in names:
            if rng.random() < 0.6:
                z = rand_dyadic(rng, 16, 8)
                exc[n] = [z.real, z.imag]
        d["exc"] = exc
        d["power"] = rng.random() < 0.4
        d["aliases"] = []
        if d["expo"] and rng.random() < 0.3:
            # one structure pin exposed under a second name; the excitation may come through either name
            c, k, name = rng.choice(d["expo"])
            d["aliases"] = [[c, k, "al0", name]]
            if name in exc and rng.random() < 0.6:
                exc["al0"] = exc.pop(name)
            elif name not in exc and rng.random() < 0.6:
                z = rand_dyadic(rng, 16, 8)
                exc["al0"] = [z.real, z.imag]
        d["late"] = late
        d["reread"] = reread
        if not reread and rng.random() < 0.25:
            # some un-monitored components are placed as sub-solvers of their own and the circuit is FLATTENED after the
            # monitors are declared: the monitors of the other components must survive
            for i, c in enumerate(d["comps"]):
                if i not in d["mon"] and not c.get("bare") and not c.get("shared") and rng.random() < 0.7:
                    c["wrap"] = True
            d["flatten"] = any(c.get("wrap") for c in d["comps"])
        if reread:
            # one component is a phase shifter whose value changes between the solves
            t = {0.0: 1, 0.5: 1j, 1.0: -1, 1.5: -1j}
            d["ps_vals"] = rng.sample(sorted(t), 2)
            z = t[d["ps_vals"][0]]
            d["comps"][0] = {"n": 2, "ps": True, "perm": [0, 1],
                             "S": [[[0.0, 0.0], [z.real, z.imag]], [[z.real, z.imag], [0.0, 0.0]]]}
            keep = lambda e: not (e[0] == 0 and e[1] >= 2)
            d["conns"] = [c for c in d["conns"] if keep(c[0]) and keep(c[1])]
            d["expo"] = [x for x in d["expo"] if keep(x)]
            d["exc"] = {n: v for n, v in d["exc"].items() if n in [x[2] for x in d["expo"]]}
            d["aliases"] = []
            if not d["conns"]:
                continue
            if rng.random() < 0.5:
                d["mon"] = list(range(1, nc))     # the only non-monitored structure is the one whose matrix changes
            elif rng.random() < 0.5 and nc >= 2:
                d["mon"] = [0]                    # ... or it is the only monitored one
        return d


def run_python(d):
    """returns (external matrix, list of (comp, pin, value_i, value_o)) or raises"""
    sol, sts = netlib.build(d)
    ids = {id(st): i for i, st in enumerate(sts)}
    names = [x[2] for x in d["expo"]]
    if d.get("late"):
        sol.solve()                      # an earlier solve, before any monitor is declared
    for (c, k, al, _) in d.get("aliases", []):
        sol.map_pins({al: sts[c].pin[f"p{k}"]})
        names = names + [al]
    for i in d["mon"]:
        if (i + len(d["comps"])) % 2 == 0:
            # through the helper of the active solver, first under a provisional name, then under the final one: the last
            # declaration counts
            with sol:
                lk_ = netlib.lk
                lk_.add_structure_to_monitors(sts[i], name=f"TMP{i}")
                lk_.add_structure_to_monitors(sts[i], name=f"M{i}")
        else:
            sol.monitor_structure(sts[i], name=f"M{i}")
    kw = {"PS": d["ps_vals"][0]} if d.get("reread") else {}
    if d.get("flatten"):
        sol.flatten()
    mod = sol.solve(**kw)
    recorded = {k: np.array(v, copy=True) for k, v in mod.solved_params.items()} if d.get("reread") else None
    exc = {n: complex(*v) for n, v in d["exc"].items()}
    if len(d["comps"]) % 2 == 0:
        # the same result has been asked before about the same pins with OTHER amplitudes (and in the other mode)
        # ... once exciting EVERY exposed pin (also those the final read-out leaves out: they must count as zero then)
        mod.get_monitor({n: 0.375 - 0.5j for n in names}, power=d["power"])
        mod.get_monitor({n: (0.5 + 0.25j) * v + 0.125 for n, v in exc.items()}, power=not d["power"])
        mod.get_monitor({n: (0.5 + 0.25j) * v + 0.125 for n, v in exc.items()}, power=d["power"])
    tab = mod.get_monitor(dict(exc), power=d["power"])
    if d.get("reread"):
        # later solves with another parameter value (and another monitor read-out) must not change
        # what this result reports
        mod2 = sol.solve(PS=d["ps_vals"][1])
        mod2.get_monitor({n: 2 * v for n, v in exc.items()}, power=False)
        tab2 = mod.get_monitor(dict(exc), power=d["power"])
        if sorted(tab.columns) != sorted(tab2.columns) or not all(
                np.array_equal(np.asarray(tab[c]), np.asarray(tab2[c])) for c in tab.columns):
            raise ValueError("monitor read-out of an earlier result changed")
        # ... nor may the read-outs have written into the parameters the result recorded (C06: a result is a snapshot)
        now = mod.solved_params
        if sorted(now) != sorted(recorded) or not all(np.array_equal(np.asarray(now[k]), recorded[k]) for k in recorded):
            raise ValueError("recorded parameters of an earlier result changed by a monitor read-out")
    got = sorted(p.name for p in mod.pin_dic)
    if got != sorted(names):
        raise ValueError("exposed pin set differs")
    M = netlib.observe_expo(mod, [x[2] for x in d["expo"]])
    cols = {}
    for c in tab.columns:
        m = re.fullmatch(r"M(\d+)_p(\d+)_(i|o)", str(c))
        if not m:
            continue
        key = (int(m.group(1)), int(m.group(2)))
        cols.setdefault(key, {})[m.group(3)] = complex(np.asarray(tab[c])[0])
    read = []
    for (ci, pk), v in sorted(cols.items()):
        if "i" not in v or "o" not in v:
            raise ValueError("incomplete monitor column pair")
        read.append((ci, pk, v["i"], v["o"]))
    return M, read


class MonStream(Stream):
    name = "monitor"
    imports = "Field Matrix Base Kernel Network Solve Monitor Corr"
    case_type = "mon_case"
    verdict_fn = "mon_verdict"
    shard_size = 20
    late = False
    reread = False

    def generate(self, rng, tier):
        n = 150 if tier == "quick" else 2500
        out = []
        while len(out) < n:
            d = gen_case(rng, tier, self.late, self.reread)
            nc = len(d["comps"])
            if nc <= 3 and not self.late and not self.reread and rng.random() < 0.5:
                # all non-empty proper subsets of small circuits
                for k in range(1, nc):
                    for sub in itertools.combinations(range(nc), k):
                        e = copy.deepcopy(d)
                        e["mon"] = list(sub)
                        for i in sub:                       # only un-monitored components are wrapped
                            e["comps"][i].pop("wrap", None)
                        if e.get("flatten"):
                            e["flatten"] = any(c.get("wrap") for c in e["comps"])
                        out.append(e)
            else:
                out.append(d)
        return out[:n]

    def run(self, d):
        names = [x[2] for x in d["expo"]]
        try:
            M, read = run_python(d)
            obs = netlib.obs_matrix_lit(M)
            rd = "Obs " + clist("(%s, %s, %s)" % (netlib.spin(c, k), cf(a), cf(b)) for c, k, a, b in read)
        except Exception:
            obs, rd = "Raised", "Raised"
        byname = {n: (c, k) for (c, k, n) in d["expo"]}
        byname.update({al: (c, k) for (c, k, al, _) in d.get("aliases", [])})
        u = clist("(%s, %s)" % (netlib.spin(*byname[n]), cq(complex(*v))) for n, v in d["exc"].items() if n in byname)
        return ("{| mn_net := %s; mn_ids := %s; mn_u := %s; mn_power := %s; mn_read := %s |}"
                % (netlib.net_case_lit(d, obs), clist(cnat(i) for i in d["mon"]), u,
                   "true" if d["power"] else "false", rd))

    def nontrivial(self, d):
        mon = set(d["mon"])
        return any((a[0] in mon) != (b[0] in mon) for a, b in d["conns"]) and len(d["exc"]) > 0

    def classify(self, d):
        mon = set(d["mon"])
        cross = sum(1 for a, b in d["conns"] if (a[0] in mon) != (b[0] in mon))
        return "c%d/m%d/x%d%s" % (len(d["comps"]), len(mon), min(cross, 3), "/pow" if d["power"] else "")

    def shrink(self, d):
        out = []
        for e in netlib.shrink_netlist(d):
            nc = len(e["comps"])
            if nc != len(d["comps"]):
                continue     # keep component numbering (monitor ids)
            e["aliases"] = [a for a in d.get("aliases", []) if [a[0], a[1], a[3]] in [list(x) for x in e["expo"]]]
            e["exc"] = {n: v for n, v in d["exc"].items() if n in [x[2] for x in e["expo"]] + [a[2] for a in e["aliases"]]}
            out.append(e)
        for n in list(d["exc"]):
            e = copy.deepcopy(d)
            del e["exc"][n]
            out.append(e)
        return out

    def py_repro(self, d):
        return ("import sys; sys.path.insert(0,'/verif/harness'); import c10, json\n"
                f"d=json.loads({json.dumps(d)!r})\n"
                "M,read=c10.run_python(d); print(M); print(read)\n")


class LateStream(MonStream):
    """monitors declared only after an earlier solve (partition state survives between solves)"""
    name = "late"
    late = True

    def generate(self, rng, tier):
        return super().generate(rng, tier)[:60 if tier == "quick" else 800]


class RereadStream(MonStream):
    """the read-out of a result is re-read after later solves (C06: results are snapshots)"""
    name = "reread"
    reread = True

    def generate(self, rng, tier):
        return super().generate(rng, tier)[:60 if tier == "quick" else 800]


class SweepMonStream(MonStream):
    """sweeps: one component is a phase shifter whose PS value is swept (exact matrices 1, i, -1, -i), a second
    parameter is given as a scalar or a length-1 array; row k of the monitor table and slice k of the external
    matrix are compared with the model of the k-th point; the parameter columns of the table must carry the k-th
    value of every parameter"""
    name = "sweep"
    reread = True
    case_type = "mons_case"
    verdict_fn = "mons_verdict"
    shard_size = 10
    PSV = {0.0: 1, 0.5: 1j, 1.0: -1, 1.5: -1j}

    def generate(self, rng, tier):
        out = []
        for d in super().generate(rng, tier)[:50 if tier == "quick" else 800]:
            d["sweep"] = [rng.choice(sorted(self.PSV)) for _ in range(rng.randint(2, 4))]
            d["second"] = rng.choice(["none", "scalar", "len1"])
            for c in d["comps"]:
                c.pop("bare", None)      # bare structures carry ONE fixed matrix: not sweepable by construction
            out.append(d)
        return out

    def _point(self, d, k):
        e = copy.deepcopy(d)
        z = self.PSV[d["sweep"][k]]
        e["comps"][0]["S"] = [[[0.0, 0.0], [z.real, z.imag]], [[z.real, z.imag], [0.0, 0.0]]]
        return e

    def run_sweep(self, d):
        sol, sts = netlib.build(d)
        names = [x[2] for x in d["expo"]]
        for i in d["mon"]:
            sol.monitor_structure(sts[i], name=f"M{i}")
        buf = np.array(d["sweep"], float)
        kw = {"PS": buf}
        if d["second"] == "scalar":
            kw["wl"] = 1.25
        elif d["second"] == "len1":
            kw["wl"] = np.array([1.25])
        mod = sol.solve(**kw)
        buf += 0.25          # the caller re-uses its sweep buffer: the result is a snapshot of the values it was solved at
        exc = {n: complex(*v) for n, v in d["exc"].items()}
        tab = mod.get_monitor(dict(exc), power=d["power"])
        ns = len(d["sweep"])
        if len(tab) != ns or not np.array_equal(np.asarray(tab["PS"], float), np.array(d["sweep"])):
            raise ValueError("parameter column PS of the monitor table")
        if d["second"] != "none" and not np.array_equal(np.asarray(tab["wl"], float), np.full(ns, 1.25)):
            raise ValueError("parameter column wl of the monitor table")
        if sorted(p.name for p in mod.pin_dic) != sorted(names):
            raise ValueError("exposed pin set differs")
        rows = []
        for k in range(ns):
            M = netlib.observe_expo(mod, names, k)
            cols = {}
            for c in tab.columns:
                m = re.fullmatch(r"M(\d+)_p(\d+)_(i|o)", str(c))
                if m:
                    cols.setdefault((int(m.group(1)), int(m.group(2))), {})[m.group(3)] = complex(np.asarray(tab[c])[k])
            read = []
            for (ci, pk), v in sorted(cols.items()):
                if "i" not in v or "o" not in v:
                    raise ValueError("incomplete monitor column pair")
                read.append((ci, pk, v["i"], v["o"]))
            rows.append((M, read))
        return rows

    def run(self, d):
        try:
            rows = self.run_sweep(d)
        except Exception:
            rows = None
        byname = {n: (c, k) for (c, k, n) in d["expo"]}
        u = clist("(%s, %s)" % (netlib.spin(*byname[n]), cq(complex(*v))) for n, v in d["exc"].items() if n in byname)
        out = []
        for k in range(len(d["sweep"])):
            if rows is None:
                obs, rd = "Raised", "Raised"
            else:
                M, read = rows[k]
                obs = netlib.obs_matrix_lit(M)
                rd = "Obs " + clist("(%s, %s, %s)" % (netlib.spin(c, q), cf(a), cf(b)) for c, q, a, b in read)
            out.append("{| mn_net := %s; mn_ids := %s; mn_u := %s; mn_power := %s; mn_read := %s |}"
                       % (netlib.net_case_lit(self._point(d, k), obs), clist(cnat(i) for i in d["mon"]), u,
                          "true" if d["power"] else "false", rd))
        return clist(out)

    def classify(self, d):
        return "ns%d/%s%s" % (len(d["sweep"]), d["second"], "/pow" if d["power"] else "")

    def shrink(self, d):
        out = []
        for e in super().shrink(d):
            if e["comps"] and e["comps"][0].get("ps"):
                out.append(e)
        if len(d["sweep"]) > 2:
            for i in range(len(d["sweep"])):
                e = copy.deepcopy(d)
                del e["sweep"][i]
                out.append(e)
        return out

    def py_repro(self, d):
        return ("import sys; sys.path.insert(0,'/verif/harness'); import c10, json\n"
                f"d=json.loads({json.dumps(d)!r})\n"
                "print(c10.SweepMonStream().run_sweep(d))\n")


# ---------------------------------------------------------------------------------------------
# multi-mode circuits: monitored structures linked through pins that carry modes


def expand_desc(d):
    """the same circuit with every component expanded to d['modes'] (mode-major ports), as a plain netlist"""
    modes = d["modes"]
    npm = len(modes)
    e = {k: v for k, v in d.items() if k not in ("comps", "conns", "expo", "exc")}
    e["comps"] = []
    for c in d["comps"]:
        n = c["n"]
        S = netlib.j2m(c["S"]).reshape(n, n)
        big = np.zeros((n * npm, n * npm), complex)
        for mi in range(npm):
            big[mi * n:(mi + 1) * n, mi * n:(mi + 1) * n] = S
        e["comps"].append({"n": n * npm, "S": netlib.m2j(big), "perm": list(range(n * npm))})
    e["conns"] = [[[a[0], mi * d["comps"][a[0]]["n"] + a[1]], [b[0], mi * d["comps"][b[0]]["n"] + b[1]]]
                  for a, b in d["conns"] for mi in range(npm)]
    e["expo"] = [[c, mi * d["comps"][c]["n"] + k, f"{name}_{modes[mi]}"] for (c, k, name) in d["expo"]
                 for mi in range(npm)]
    e["exc"] = dict(d["exc"])
    return e


def run_python_modes(d):
    modes = d["modes"]
    sts = []
    with lk.Solver() as sol:
        for c in d["comps"]:
            sts.append(netlib.comp_model(c).expand_mode(list(modes)).put())
        for a, b in d["conns"]:
            lk.connect_all(sts[a[0]], f"p{a[1]}", sts[b[0]], f"p{b[1]}")
        for (c, k, name) in d["expo"]:
            for m in modes:
                lk.Pin(name, m).put(sts[c].pin[f"p{k}_{m}"])
    for i in d["mon"]:
        sol.monitor_structure(sts[i], name=f"M{i}")
    mod = sol.solve()
    exc = {n: complex(*v) for n, v in d["exc"].items()}
    tab = mod.get_monitor(dict(exc), power=d["power"])
    names = [f"{name}_{m}" for (_, _, name) in d["expo"] for m in modes]
    if sorted(p.name for p in mod.pin_dic) != sorted(names):
        raise ValueError("exposed pin set differs")
    e = expand_desc(d)
    M = netlib.observe_expo(mod, [x[2] for x in e["expo"]])
    cols = {}
    for c in tab.columns:
        m = re.fullmatch(r"M(\d+)_p(\d+)_(\w+?)_(i|o)", str(c))
        if not m:
            if re.fullmatch(r"M\d+_.*_(i|o)", str(c)):
                raise ValueError("monitor column without a mode: %s" % c)
            continue
        ci, k, mode = int(m.group(1)), int(m.group(2)), m.group(3)
        key = (ci, modes.index(mode) * d["comps"][ci]["n"] + k)
        cols.setdefault(key, {})[m.group(4)] = complex(np.asarray(tab[c])[0])
    read = []
    for (ci, pk), v in sorted(cols.items()):
        if "i" not in v or "o" not in v:
            raise ValueError("incomplete monitor column pair")
        read.append((ci, pk, v["i"], v["o"]))
    return M, read


class ModeMonStream(MonStream):
    """every component expanded to two or three modes and wired with connect_all: the read-out must list every
    (pin, mode) link of the monitored structures"""
    name = "modes"

    def generate(self, rng, tier):
        out = []
        while len(out) < (50 if tier == "quick" else 600):
            d = gen_case(rng, "quick")
            if len(d["comps"]) > 3:
                continue
            d["modes"] = rng.sample(["te", "tm", "x"], rng.choice([2, 2, 3]))
            names = [f"{x[2]}_{m}" for x in d["expo"] for m in d["modes"]]
            d["exc"] = {}
            for n in names:
                if rng.random() < 0.6:
                    z = rand_dyadic(rng, 16, 8)
                    d["exc"][n] = [z.real, z.imag]
            out.append(d)
        return out

    def run(self, d):
        e = expand_desc(d)
        try:
            M, read = run_python_modes(d)
            obs = netlib.obs_matrix_lit(M)
            rd = "Obs " + clist("(%s, %s, %s)" % (netlib.spin(c, k), cf(a), cf(b)) for c, k, a, b in read)
        except Exception:
            obs, rd = "Raised", "Raised"
        u = clist("(%s, %s)" % (netlib.spin(c, k), cq(complex(*d["exc"][n])))
                  for (c, k, n) in e["expo"] if n in d["exc"])
        return ("{| mn_net := %s; mn_ids := %s; mn_u := %s; mn_power := %s; mn_read := %s |}"
                % (netlib.net_case_lit(e, obs), clist(cnat(i) for i in d["mon"]), u,
                   "true" if d["power"] else "false", rd))

    def shrink(self, d):
        out = []
        if len(d["modes"]) > 2:
            for m in d["modes"]:
                e = copy.deepcopy(d)
                e["modes"].remove(m)
                e["exc"] = {n: v for n, v in e["exc"].items() if not n.endswith("_" + m)}
                out.append(e)
        for n in list(d["exc"]):
            e = copy.deepcopy(d)
            del e["exc"][n]
            out.append(e)
        return out

    def py_repro(self, d):
        return ("import sys; sys.path.insert(0,'/verif/harness'); import c10, json\n"
                f"d=json.loads({json.dumps(d)!r})\n"
                "M,read=c10.run_python_modes(d); print(M); print(read)\n")


TRUSTED = [
    "Coq 8.16.1 kernel + vm_compute", "Bignums/Uint63 primitives for the executed instance BQCf",
    "hand-written model Monitor.v tied to /repo by this correspondence run (sampled)",
    "harness: monitor subsets (all proper subsets of small circuits), excitations, column parsing",
]

if __name__ == "__main__":
    main("C10", [MonStream(), LateStream(), RereadStream(), ModeMonStream(), SweepMonStream()],
         level_text="props/C10.v; the tie declares every non-empty proper subset of small circuits (random subsets of larger "
                    "ones) as monitors, excites random subsets of the exposed pins with complex amplitudes (amplitude and power "
                    "mode), and compares the external matrix and the SET of read-out columns (a spurious or missing column is a "
                    "difference) with the model; monitors declared after an earlier solve; read-outs re-read after later solves.",
         trusted_base=TRUSTED, assumptions=["theorems conditional on the model returning Ok"])
