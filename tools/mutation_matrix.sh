#!/bin/bash
# usage: tools/mutation_matrix.sh [dir...]  — applies every seeded patch (in a scratch worktree of /repo's HEAD) and runs the
# quick check(s) of its property (plus extra checks listed below); prints one line per (patch, check)
cd /verif
extra() { case "$1" in C16r13) echo "C16 C07 C12";; C14r13) echo "C14";; C05r13) echo "C05 C10";; C09r13) echo "C09";; C11r13) echo "C11 C02";; C15r13) echo "C15";; C17r13) echo "C17";; C01r13) echo "C01 C02 C03";; C18r13) echo "C18 C04";; C02r13) echo "C02 C10 C06";; C03r13) echo "C03 C01 C08";; C04r13) echo "C04";; C06r13) echo "C06 C05";; C07r13) echo "C07 C16";; C08r13) echo "C08 C01";; C10r13) echo "C10";; C12r13) echo "C12 C19";; C13r13) echo "C13 C09";; C19r13) echo "C19 C07";; C20r13) echo "C20 C01";; C16r12) echo "C16 C17";; C18r12) echo "C18";; C14r12) echo "C14";; C17r12) echo "C17 C13";; C10r12) echo "C10 C11 C07";; C05r12) echo "C05 C04";; C15r12) echo "C15";; C09r12) echo "C09 C08";; C11r12) echo "C11 C02";; C06r12) echo "C06 C05";; C20r12) echo "C20 C01";; C12r12) echo "C12 C06";; C13r12) echo "C13 C17";; C01r12) echo "C01 C03";; C02r12) echo "C02 C05 C11";; C03r12) echo "C03 C15";; C04r12) echo "C04";; C07r12) echo "C07 C16";; C08r12) echo "C08 C01";; C19r12) echo "C19 C07";; C01r11) echo "C01 C08";; C02r11) echo "C02 C08";; C03r11) echo "C03 C10 C01";; C11r11) echo "C11 C02 C06";; C19r11) echo "C19";; C20r11) echo "C20 C02";; C04r11) echo "C04";; C05r11) echo "C05 C12";; C06r11) echo "C06 C10";; C07r11) echo "C07 C17";; C08r11) echo "C08 C18";; C09r11) echo "C09";; C10r11) echo "C10 C18";; C12r11) echo "C12 C06";; C13r11) echo "C13";; C14r11) echo "C14 C15";; C15r11) echo "C15";; C16r11) echo "C16 C15";; C17r11) echo "C17";; C18r11) echo "C18";; C02r10) echo "C02 C05 C06";; C11r10) echo "C11 C05";; C20r10) echo "C20";; C01r10) echo "C01 C03";; C03r10) echo "C03 C01";; C04r10) echo "C04 C18";; C05r10) echo "C05 C11";; C06r10) echo "C06 C02";; C07r10) echo "C07 C16";; C08r10) echo "C08 C02 C10";; C09r10) echo "C09";; C10r10) echo "C10 C06";; C12r10) echo "C12 C02";; C13r10) echo "C13 C07";; C14r10) echo "C14";; C15r10) echo "C15";; C16r10) echo "C16 C07";; C17r10) echo "C17";; C18r10) echo "C18 C10";; C19r10) echo "C19 C02";; C03r9) echo "C03 C10 C08";; C02r9) echo "C02 C17";; C20r9) echo "C20 C01 C08";; C19r9) echo "C19 C07";; C12r9) echo "C12 C07";; C04r9) echo "C04 C02";; C05r9) echo "C05 C17";; C06r9) echo "C06 C04 C09";; C07r9) echo "C07 C02";; C08r9) echo "C08 C07";; C09r9) echo "C09 C05";; C10r9) echo "C10 C08";; C11r9) echo "C11 C07";; C13r9) echo "C13 C14";; C15r9) echo "C15 C16";; C16r9) echo "C16 C13";; C17r9) echo "C17 C02";; C18r9) echo "C18 C01";; C01r9) echo "C01 C17";; C01r8) echo "C01 C16";; C02r8) echo "C02 C17";; C03r8) echo "C03 C01";; C07r8) echo "C07 C02";; C11r8) echo "C11 C07";; C12r8) echo "C12 C16 C07";; C20r8) echo "C20 C01";; C04r8) echo "C04 C03";; C19r8) echo "C19 C07 C12";; C08r8) echo "C08 C10";; C15r8) echo "C15 C06";; C18r8) echo "C18 C10";; C06r8) echo "C06 C05 C04";; C17r8) echo "C17 C16";; C01r5) echo "C01 C07 C16";; C01r7) echo "C01 C02";; C01*) echo "C01 C18";; C08r3) echo "C08 C01 C03";; C08r6) echo "C08 C11";; C08r7) echo "C08 C01 C03";; C08*) echo "C08 C01";; C10) echo "C10 C18";; C05r2) echo "C05 C06";; C02r3) echo "C02 C07 C16";; C02r7) echo "C02 C05 C04";; C03r5) echo "C03 C13";; C03r7) echo "C03 C18";; C03*) echo "C03 C01";; C18) echo "C18 C01";; C07r4) echo "C07 C19";; C19r5|C19r6|C19r7) echo "C19 C07";; C20r5) echo "C20 C01 C03";; C20r6) echo "C20 C02";; C06r5) echo "C06 C05";; C06r6|C06r7) echo "C06 C10";; C12r7) echo "C12 C07";; *) echo "${1:0:3}";; esac; }
dirs="${@:-$(ls seeded)}"
for d in $dirs; do
  [ -f seeded/$d/patch.diff ] || continue
  wt=/tmp/mm_$$_$d
  git -C /repo worktree add -q --detach $wt HEAD || continue
  if git -C $wt apply /verif/seeded/$d/patch.diff 2>/dev/null; then
    for id in $(extra $d); do
      out=$(LEKKERSIM_REPO=$wt VERIF_GEN_DIR=/tmp/gen_mm_$$ VERIF_EVIDENCE_DIR=/tmp/ev_mut_$$ VERIF_REPLAY_DIR=/tmp/rp_mut ./check $id quick 2>&1); e=$?
      v=$(echo "$out" | grep -c "^VIOLATION")
      echo "$d  check=$id  exit=$e  violations_reported=$v  $(echo "$out" | grep '^   ' | tr -s ' ' | tr '\n' ';' | cut -c1-200)"
    done
  else
    echo "$d  PATCH DOES NOT APPLY"
  fi
  git -C /repo worktree remove --force $wt
done
rm -rf /tmp/gen_mm_$$ /tmp/ev_mut_$$
