#!/bin/bash
# usage: confirm_mutation.sh <name> [<seeded dir name>]  — confirms an agent's mutation in its scratch worktree
# /tmp/mut/<name> (mutation applied), stores it under /verif/seeded/<dir>/ and removes the worktree.
name="$1"; dir="${2:-$1}"
wt=/tmp/mut/$name; out=/tmp/mut_out/$name
cd "$wt" || exit 2
export PYTHONPATH=$wt PYTHONDONTWRITEBYTECODE=1 MPLBACKEND=Agg
# do not trust the worktree state (git stash is shared between worktrees): rebuild it from patch.diff
git checkout -q -- . && git apply $out/patch.diff || { echo "REJECT: patch.diff does not apply to HEAD"; exit 1; }
t=$(/venv/bin/python -m pytest -q -p no:cacheprovider pytest 2>&1 | tail -1)
echo "tests with mutation: $t"
/venv/bin/python $out/demo.py >/dev/null 2>&1; m=$?
git apply -R $out/patch.diff
/venv/bin/python $out/demo.py >/dev/null 2>&1; o=$?
git apply $out/patch.diff
echo "demo exit: original=$o mutated=$m"
case "$t" in *"33 passed"*) ;; *) echo "REJECT: tests"; exit 1;; esac
if [ $o -ne 0 ] || [ $m -eq 0 ]; then echo "REJECT: demo"; exit 1; fi
mkdir -p /verif/seeded/$dir
cp $out/patch.diff $out/demo.py /verif/seeded/$dir/
python3 - "$name" "$dir" "$t" "$o" "$m" <<'PY'
import json,sys
name,dir,t,o,m=sys.argv[1:]
meta=json.load(open(f'/tmp/mut_out/{name}/meta.json'))
meta['confirmed_by_me']={'tests_with_mutation':t,'demo_exit_original':int(o),'demo_exit_mutated':int(m),
  'how':'tools/confirm_mutation.sh in a scratch worktree outside /repo and /verif'}
json.dump(meta,open(f'/verif/seeded/{dir}/meta.json','w'),indent=1)
PY
cd / && git -C /repo worktree remove --force $wt && echo "stored /verif/seeded/$dir, worktree removed"
