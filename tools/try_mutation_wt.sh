#!/bin/bash
# usage: try_mutation_wt.sh <patch.diff> <property id>...
# like try_mutation.sh but in a scratch worktree of /repo's HEAD under /tmp (used while a long run is using /repo);
# the registered checks themselves always run against /repo.
patch="$(readlink -f "$1")"; shift
wt=/tmp/trymut_$$
git -C /repo worktree add -q --detach $wt HEAD || exit 2
trap 'git -C /repo worktree remove --force '$wt'; rm -rf /tmp/gen_try_'$$ EXIT
git -C $wt apply "$patch" || { echo "patch does not apply"; exit 2; }
for id in "$@"; do
  echo "=== $id"
  (cd /verif && LEKKERSIM_REPO=$wt VERIF_GEN_DIR=/tmp/gen_try_$$ VERIF_EVIDENCE_DIR=/tmp/ev_mut VERIF_REPLAY_DIR=/tmp/rp_mut ./check "$id" quick 2>&1 | grep -E "VIOLATION|KNOWN|^\[|^   " | grep -v "^VIOLATION" | head -12)
done
