#!/usr/bin/env python3
"""Builds the markdown table of DESIGN.md §10 from seeded/*/meta.json and seeded/matrix_results.txt."""
import json, os, re, sys
root = os.path.join(os.path.dirname(os.path.abspath(__file__)), "..", "seeded")
res = {}
for line in open(os.path.join(root, "matrix_results.txt")):
    m = re.match(r"(\S+)\s+check=(\S+)\s+exit=(\d+)\s+violations_reported=(\d+)\s*(.*)", line)
    if m:
        name, chk, ex, v, rest = m.groups()
        bad = sum(int(x) for x in re.findall(r"'(?:Differ|ImplError|ModelUndefined|HarnessError)': (\d+)", rest))
        tot = sum(int(x) for x in re.findall(r"': (\d+)", rest))
        res.setdefault(name, []).append((chk, int(ex), int(v), bad, tot))
    elif "PATCH DOES NOT APPLY" in line:
        res.setdefault(line.split()[0], []).append(("-", -1, 0, 0, 0))
rows = []
for d in sorted(os.listdir(root)):
    mf = os.path.join(root, d, "meta.json")
    if not os.path.exists(mf):
        continue
    m = json.load(open(mf))
    what = m["summary"].split(". ")[0].replace("|", "/").replace("\n", " ")
    what = (what[:200] + "…") if len(what) > 200 else what
    needs = m.get("needs", "").split(". ")[0].replace("|", "/").replace("\n", " ")
    needs = (needs[:160] + "…") if len(needs) > 160 else needs
    cells = []
    for chk, ex, v, bad, tot in res.get(d, []):
        cells.append("%s: %s" % (chk, ("**caught** (%d/%d cases)" % (bad, tot)) if ex == 1 and bad else
                                 ("caught" if ex == 1 else ("patch does not apply" if ex < 0 else "not caught"))))
    rows.append("| %s | %s | %s | %s | %s |" % (d, m.get("property", d[:3]), what, needs, "; ".join(cells) or "(not run)"))
print("| dir | prop | change | needs | quick checks on the final tree |")
print("|-----|------|--------|-------|-------------------------------|")
print("\n".join(rows))
