#!/usr/bin/env python3
"""usage: make_mutation_prompts.py <round>   — writes /tmp/mut_out/prompt_<id>r<round>.txt for every property and creates the
scratch worktrees /tmp/mut/<id>r<round> of /repo's HEAD.  The prompt contains ONLY the property text, the way to run things
in the worktree and one-line summaries of the seeded changes that already exist (so that agents do not converge);
nothing about /verif's models, checks or harness."""
import glob, json, os, subprocess, sys
rnd = sys.argv[1]
props = [json.loads(l) for l in open('/verif/properties.jsonl')]
metas = {}
for d in sorted(glob.glob('/verif/seeded/*/meta.json')):
    m = json.load(open(d))
    metas.setdefault(m['property'], []).append(m['summary'])
TEMPLATE = open('/verif/tools/mutation_prompt.tmpl').read()
os.makedirs('/tmp/mut_out', exist_ok=True)
for p in props:
    pid = p['id']; name = f"{pid}r{rnd}"
    wt = f"/tmp/mut/{name}"
    if not os.path.isdir(wt):
        subprocess.run(['git', '-C', '/repo', 'worktree', 'add', '-q', '--detach', wt, 'HEAD'], check=True)
    os.makedirs(f'/tmp/mut_out/{name}', exist_ok=True)
    own = "\n".join("   * " + s[:320].replace("\n", " ") for s in metas.get(pid, []))
    other = "\n".join("   * [%s] %s" % (q, s[:150].replace("\n", " ")) for q in sorted(metas) if q != pid for s in metas[q])
    txt = TEMPLATE.format(name=name, pid=pid, title=p['title'], statement=p['statement'], quant=p['quantifier']['text'],
                          why=p['why_tests_cant'], files=", ".join(p['anchors']['files']), own=own, other=other)
    open(f'/tmp/mut_out/prompt_{name}.txt', 'w').write(txt)
print("ok")
