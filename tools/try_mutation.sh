#!/bin/bash
# usage: try_mutation.sh <patch.diff> <property id>...   (applies to /repo, runs quick checks, reverts)
patch="$(readlink -f "$1")"; shift
cd /repo || exit 2
if ! git diff --quiet; then echo "/repo dirty"; exit 2; fi
git apply "$patch" 2>/dev/null || git apply --3way "$patch" || { echo "patch does not apply"; git reset -q --hard HEAD; exit 2; }
trap 'git -C /repo reset -q HEAD -- . ; git -C /repo checkout -- .' EXIT
for id in "$@"; do
  echo "=== $id"
  (cd /verif && VERIF_EVIDENCE_DIR=/tmp/ev_mut VERIF_REPLAY_DIR=/tmp/rp_mut ./check "$id" quick 2>&1 | grep -E "VIOLATION|KNOWN|^\[|^   " | head -12)
done
