#!/bin/bash
# usage: tools/run_all.sh quick|thorough   — builds the theory, runs every check of that tier in turn, prints a summary
tier="${1:-quick}"
cd "$(dirname "$0")/.."
(cd coq && coq_makefile -f _CoqProject theories/*.v props/*.v -o Makefile >/dev/null 2>&1 && timeout 3000 make -j16 >/dev/null 2>&1) || { echo "BUILD FAILED"; exit 2; }
rc=0
for id in C18 C01 C03 C02 C08 C10 C07 C16 C05 C04 C06 C11 C12 C13 C14 C15 C17 C19 C09 C20; do
  s=$(date +%s)
  out=$(./check $id $tier 2>&1); e=$?
  echo "== $id exit=$e wall=$(( $(date +%s) - s ))s"
  echo "$out" | grep -E "^\[C|^   |^VIOLATION|^KNOWN-FINDING" | cut -c1-400
  [ $e -ne 0 ] && rc=1
done
echo "ALL DONE rc=$rc"
exit $rc
