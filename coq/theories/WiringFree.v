(* WiringFree.v — the free-pin list of the solver is, in every reachable state, exactly the list (without
   repetition) of the unconnected pins of the present structures (C07). *)
From Coq Require Import List Arith Lia Bool.
From Lekkersim Require Import Base Network Wiring WiringProofs WiringInv WiringRep WiringRep2.
Import ListNotations.

Definition ends (l : list (spin * spin)) : list spin := map fst l ++ map snd l.

Record FreeInv (s : wstate) : Prop := {
  f_nd      : NoDup (w_free s);
  f_exact   : forall p, In p (w_free s) <->
                nmem (fst p) (w_structs s) = true /\ In p (s_pins (getst s (fst p))) /\ ~ In p (w_clist s);
  f_pins_nd : forall m, NoDup (s_pins (getst s m));
  f_lpin    : forall z w, linked s z w -> In z (s_pins (getst s (fst z)));
  f_ends_nd : NoDup (ends (w_conns s))
}.

Lemma FreeInv_empty : FreeInv w_empty.
Proof.
  constructor; simpl.
  - constructor.
  - intros p. split; [intros [] | intros [H _]; discriminate].
  - intros m. constructor.
  - intros z w [[]|[]].
  - constructor.
Qed.

Lemma In_dec_spin (p : spin) l : In p l \/ ~ In p l.
Proof. destruct (mem p l) eqn:E; [left; apply mem_In; exact E | right; apply mem_nIn; exact E]. Qed.

(* states that differ only in the exposed-pin table *)
Lemma FreeInv_map_only s s' :
  w_structs s' = w_structs s -> w_store s' = w_store s -> w_conns s' = w_conns s -> w_clist s' = w_clist s ->
  w_free s' = w_free s -> FreeInv s -> FreeInv s'.
Proof.
  intros E1 E2 E3 E4 E5 F.
  assert (G : forall id, getst s' id = getst s id) by (intros id; unfold getst; rewrite E2; reflexivity).
  constructor.
  - rewrite E5. exact (f_nd s F).
  - intros p. rewrite E5, E1, E4, G. exact (f_exact s F p).
  - intros m. rewrite G. exact (f_pins_nd s F m).
  - intros z w H. rewrite G. apply (f_lpin s F z w). unfold linked in *. rewrite E3 in H. exact H.
  - rewrite E3. exact (f_ends_nd s F).
Qed.

(* ---- add ---- *)
Lemma NoDup_app_intro {A} (l l' : list A) : NoDup l -> NoDup l' -> (forall a, In a l -> ~ In a l') -> NoDup (l ++ l').
Proof.
  induction l as [|x r IH]; simpl; intros H1 H2 Hd; [exact H2|].
  inversion H1 as [|? ? Hx Hr]; subst. constructor.
  - rewrite in_app_iff. intros [H|H]; [exact (Hx H) | exact (Hd x (or_introl eq_refl) H)].
  - apply IH; [exact Hr | exact H2 | intros a Ha; apply Hd; right; exact Ha].
Qed.

Lemma fresh_pins_nd id n : NoDup (s_pins (fresh_struct id n)).
Proof.
  simpl. generalize (seq_NoDup n 0). generalize (seq 0 n) as l. intros l. induction l as [|a r IH]; simpl; intros H; [constructor|].
  inversion H as [|? ? Ha Hr]; subst. constructor; [|auto].
  intros Hin. apply in_map_iff in Hin. destruct Hin as (b & E & Hb). injection E as ->. contradiction.
Qed.

Lemma FreeInv_add s id n s' : Rep s -> FreeInv s -> step s (Add id n) = (s', None) -> FreeInv s'.
Proof.
  intros R F H. simpl in H. destruct (nmem id (w_structs s)) eqn:Eid; [discriminate|]. injection H as <-.
  set (t := match dget Nat.eqb id (w_store s) with Some t => t | None => fresh_struct id n end).
  assert (Ht : NoDup (s_pins t) /\ (forall p, In p (s_pins t) -> fst p = id) /\
               (forall p, fst p = id -> In p (s_pins (getst s id)) -> In p (s_pins t))).
  { unfold t. destruct (dget Nat.eqb id (w_store s)) as [t0|] eqn:E.
    - assert (Eg : getst s id = t0) by (unfold getst; rewrite E; reflexivity). rewrite <- Eg.
      split; [exact (f_pins_nd s F id)|]. split; [intros p Hp; exact (r_own s R id p Hp) | auto].
    - split; [apply fresh_pins_nd|]. split.
      + intros p Hp. simpl in Hp. apply in_map_iff in Hp. destruct Hp as (k & <- & _). reflexivity.
      + intros p _ Hp. unfold getst in Hp. rewrite E in Hp. destruct Hp. }
  destruct Ht as (Hnd & Hown & _).
  set (s' := {| w_structs := w_structs s ++ [id]; w_store := dset Nat.eqb id t (w_store s);
                w_conns := w_conns s; w_clist := w_clist s; w_free := w_free s ++ s_pins t; w_map := w_map s |}).
  assert (G : forall m, getst s' m = if Nat.eqb m id then t else getst s m).
  { intros m. unfold getst, s'; cbn [w_store]. destruct (Nat.eqb_spec m id) as [->|Hne].
    - rewrite ndget_dset_same. reflexivity.
    - rewrite ndget_dset_other by exact Hne. reflexivity. }
  assert (Hcl : forall p, In p (w_clist s) -> fst p <> id).
  { intros p Hp Eq. apply (r_clist s R) in Hp. destruct Hp as (w & Hl).
    destruct (r_link s R p w Hl) as [_ Hpres]. congruence. }
  constructor.
  - unfold s'; cbn [w_free]. apply NoDup_app_intro; [exact (f_nd s F) | exact Hnd|].
    intros a Ha Hb. apply (f_exact s F) in Ha. destruct Ha as [Hpres _]. rewrite (Hown a Hb) in Hpres. congruence.
  - intros p. unfold s'; cbn [w_free w_structs w_clist]. rewrite in_app_iff, G, nmem_app. simpl. rewrite orb_false_r.
    destruct (Nat.eqb_spec (fst p) id) as [Ep|Ep].
    + rewrite orb_true_r. split.
      * intros [Hp|Hp]; [apply (f_exact s F) in Hp; destruct Hp as [Hpres _]; congruence|].
        split; [reflexivity|]. split; [exact Hp|]. intros Hc. exact (Hcl p Hc Ep).
      * intros (_ & Hp & _). right. exact Hp.
    + rewrite orb_false_r. rewrite (f_exact s F p). split; [intros [H|H]; [exact H | exfalso; exact (Ep (Hown p H))] | auto].
  - intros m. rewrite G. destruct (Nat.eqb m id); [exact Hnd | exact (f_pins_nd s F m)].
  - intros z w Hl. rewrite G. pose proof (f_lpin s F z w Hl) as Hz.
    destruct (Nat.eqb_spec (fst z) id) as [Ez|]; [|exact Hz]. exfalso.
    destruct (r_link s R z w Hl) as [_ Hpres]. congruence.
  - exact (f_ends_nd s F).
Qed.

(* ---- connect ---- *)
From Coq Require Import Permutation.

Lemma ends_snoc l (x y : spin) : Permutation (ends (l ++ [(x, y)])) (x :: y :: ends l).
Proof.
  unfold ends. rewrite !map_app. simpl.
  eapply Permutation_trans; [apply Permutation_app; apply Permutation_sym, Permutation_cons_append|].
  simpl. constructor. apply Permutation_sym, Permutation_middle.
Qed.

Lemma ends_In s z : Rep s -> In z (ends (w_conns s)) -> In z (w_clist s).
Proof.
  intros R H. unfold ends in H. apply in_app_or in H. apply (r_clist s R).
  destruct H as [H|H]; apply in_map_iff in H; destruct H as ([a b] & E & Hab); simpl in E; subst.
  - exists b. left. exact Hab.
  - exists a. right. exact Hab.
Qed.

Lemma FreeInv_connect s x y s' : Rep s -> FreeInv s -> step s (Connect x y) = (s', None) -> FreeInv s'.
Proof.
  intros R F H. pose proof (Rep_Inv1 s R) as I.
  destruct (Nat.eqb (fst x) (fst y)) eqn:E0; [simpl in H; rewrite E0 in H; discriminate|].
  destruct (mem x (w_clist s)) eqn:Ex.
  { simpl in H. rewrite E0, Ex in H.
    assert (s' = s); [|subst; exact F].
    destruct (dget spin_eqb x (w_conns s)) as [y'|]; destruct (dget spin_eqb y (w_conns s)) as [x'|];
      repeat match type of H with context [if ?b then _ else _] => destruct b end;
      try discriminate; injection H as <-; reflexivity. }
  destruct (mem y (w_clist s)) eqn:Ey; [simpl in H; rewrite E0, Ex, Ey in H; discriminate|].
  destruct (mem x (w_free s)) eqn:Fx; [|simpl in H; rewrite E0, Ex, Ey, Fx in H; discriminate].
  destruct (mem y (w_free s)) eqn:Fy; [|simpl in H; rewrite E0, Ex, Ey, Fx, Fy in H; discriminate].
  destruct (connect_ok_shape s x y I E0 Ex Ey Fx Fy) as (t1 & t2 & C1 & P1 & C2 & P2 & T1 & T2 & Hs).
  rewrite Hs in H. injection H as <-. clear Hs.
  assert (Hne : fst y <> fst x) by (apply Nat.eqb_neq in E0; congruence).
  assert (Hxy : x <> y) by (intros ->; congruence).
  apply mem_nIn in Ex. apply mem_nIn in Ey. apply mem_In in Fx. apply mem_In in Fy.
  assert (Kx : dget spin_eqb x (w_conns s) = None) by (apply not_clist_no_key; assumption).
  set (s1 := {| w_structs := w_structs s; w_store := w_store s;
                w_conns := dset spin_eqb x y (w_conns s); w_clist := w_clist s ++ [x; y];
                w_free := remove1 y (remove1 x (w_free s)); w_map := w_map s |}).
  change (FreeInv (setst (setst s1 (fst x) t1) (fst y) t2)).
  set (s' := setst (setst s1 (fst x) t1) (fst y) t2).
  assert (GP : forall m, s_pins (getst s' m) = s_pins (getst s m)).
  { intros m. unfold s'. destruct (Nat.eqb_spec m (fst y)) as [->|H1]; [rewrite getst_setst_same; exact P2|].
    rewrite getst_setst_other by exact H1.
    destruct (Nat.eqb_spec m (fst x)) as [->|H2]; [rewrite getst_setst_same; exact P1|].
    rewrite getst_setst_other by exact H2. reflexivity. }
  assert (Cs : w_conns s' = w_conns s ++ [(x, y)]) by (unfold s', setst, s1; cbn [w_conns]; apply dset_fresh; exact Kx).
  assert (Es : w_structs s' = w_structs s) by reflexivity.
  assert (Ec : w_clist s' = w_clist s ++ [x; y]) by reflexivity.
  assert (Ef : w_free s' = remove1 y (remove1 x (w_free s))) by reflexivity.
  clearbody s'. clear s1.
  constructor.
  - rewrite Ef. apply remove1_NoDup, remove1_NoDup. exact (f_nd s F).
  - intros p. rewrite Ef, Es, Ec, GP.
    rewrite remove1_In_nd by (apply remove1_NoDup; exact (f_nd s F)). rewrite remove1_In_nd by exact (f_nd s F).
    rewrite (f_exact s F p), in_app_iff. simpl. split.
    + intros [[(A & B & C) Hpx] Hpy]. split; [exact A|]. split; [exact B|]. intros [Hc|[Hc|[Hc|[]]]]; congruence.
    + intros (A & B & C). split; [split; [split; [exact A|]; split; [exact B|]; intros Hc; apply C; auto|]|]; intros ->; apply C; auto.
  - intros m. rewrite GP. exact (f_pins_nd s F m).
  - intros z w Hl. rewrite GP. unfold linked in Hl. rewrite Cs, !in_app_iff in Hl. simpl in Hl.
    destruct Hl as [[Hl|[Hl|[]]]|[Hl|[Hl|[]]]].
    + exact (f_lpin s F z w (or_introl Hl)).
    + injection Hl as <- <-. apply (f_exact s F). exact Fx.
    + exact (f_lpin s F z w (or_intror Hl)).
    + injection Hl as <- <-. apply (f_exact s F). exact Fy.
  - rewrite Cs. eapply Permutation_NoDup; [apply Permutation_sym, ends_snoc|].
    constructor; [simpl; intros [Hc|Hc]; [congruence | exact (Ex (ends_In s x R Hc))]|].
    constructor; [intros Hc; exact (Ey (ends_In s y R Hc)) | exact (f_ends_nd s F)].
Qed.

(* ---- cut / remove ---- *)
Definition nb_spec2 (f : sstruct -> nat -> result sstruct) (pinsf : sstruct -> nat -> list spin) : Prop :=
  forall t i, nmem i (s_to t) = true ->
    exists t', f t i = Ok t' /\
      s_conn t' = filter (fun e => negb (Nat.eqb (fst (snd e)) i)) (s_conn t) /\
      s_to t' = nremove1 i (s_to t) /\ s_pins t' = pinsf t i.

Definition gone (t : sstruct) (i : nat) : list spin := map fst (filter (fun e => Nat.eqb (fst (snd e)) i) (s_conn t)).

Lemma cut_spec2 : nb_spec2 cut_connections (fun t _ => s_pins t).
Proof. intros t i H. unfold cut_connections. rewrite H. simpl. eexists. repeat split; reflexivity. Qed.
Lemma remove_spec2 : nb_spec2 remove_connections (fun t i => filter (fun p => negb (mem p (gone t i))) (s_pins t)).
Proof. intros t i H. unfold remove_connections. rewrite H. simpl. eexists. repeat split; reflexivity. Qed.

Lemma detach_shape f pinsf refree s id s' :
  nb_spec2 f pinsf -> Rep s -> detach_op f refree s id = (s', None) ->
  nmem id (w_structs s) = true /\ nmem id (s_to (getst s id)) = false /\
  w_structs s' = nremove1 id (w_structs s) /\
  w_conns s' = filter (fun c => negb (conn_touches id c)) (w_conns s) /\
  w_clist s' = fold_left (fun l c => remove1 (fst c) (remove1 (snd c) l)) (filter (conn_touches id) (w_conns s)) (w_clist s) /\
  w_free s' = filter (fun p => negb (Nat.eqb (fst p) id))
                     (if refree then w_free s ++ flat_map (fun c => [snd c; fst c]) (filter (conn_touches id) (w_conns s))
                      else w_free s) /\
  forall m, s_pins (getst s' m) = if Nat.eqb m id then s_pins (getst s id)
                                  else if nmem m (s_to (getst s id)) then pinsf (getst s m) id else s_pins (getst s m).
Proof.
  intros Hf R H. unfold detach_op in H. destruct (nmem id (w_structs s)) eqn:Eid; simpl in H; [|discriminate].
  set (s0 := {| w_structs := nremove1 id (w_structs s); w_store := w_store s; w_conns := w_conns s;
                w_clist := w_clist s; w_free := w_free s; w_map := w_map s |}) in *.
  assert (G0 : forall m, getst s0 m = getst s m) by reflexivity.
  set (ns := s_to (getst s id)).
  change (s_to (getst s0 id)) with ns in H.
  assert (Hid_ns : nmem id ns = false).
  { destruct (nmem id ns) eqn:E; [|reflexivity]. exfalso. apply (r_to s R) in E.
    destruct E as (z & w & Hl & Hz & Hw). destruct (r_link s R z w Hl) as [Hne _]. congruence. }
  assert (Hback : forall n, nmem n ns = true -> nmem id (s_to (getst s n)) = true).
  { intros n Hn. apply (r_to s R) in Hn. destruct Hn as (z & w & Hl & Hz & Hw).
    apply (r_to s R). exists w, z. split; [apply linked_sym; exact Hl | auto]. }
  destruct (for_neighbours_spec f id ns s0 (r_to_nd s R id)) as (s1 & E & E1 & E2 & E3 & E4 & E5 & G1).
  { intros n Hn. rewrite G0. destruct (Hf (getst s n) id (Hback n (proj2 (nmem_In n ns) Hn))) as (t' & Ht' & _).
    exists t'. exact Ht'. }
  rewrite E in H. injection H as <-.
  split; [reflexivity|]. split; [exact Hid_ns|].
  cbn [w_structs w_conns w_clist w_free setst]. rewrite E1, E2, E3, E4.
  split; [reflexivity|]. split; [reflexivity|]. split; [reflexivity|]. split; [reflexivity|].
  intros m. unfold getst at 1; cbn [w_store setst].
  destruct (Nat.eqb_spec m id) as [->|Hne].
  - rewrite ndget_dset_same. cbn [s_pins]. rewrite G1, Hid_ns, G0. reflexivity.
  - rewrite ndget_dset_other by exact Hne. fold (getst s1 m). rewrite G1.
    destruct (nmem m ns) eqn:Em; [|rewrite G0; reflexivity].
    rewrite G0. destruct (Hf (getst s m) id (Hback m Em)) as (t' & Ht' & _ & _ & Pp). rewrite Ht'. exact Pp.
Qed.

Lemma ends_cons a b (r : list (spin * spin)) : Permutation (ends ((a, b) :: r)) (a :: b :: ends r).
Proof. unfold ends. simpl. constructor. apply Permutation_sym, Permutation_middle. Qed.

Lemma ends_filter_In (P : spin * spin -> bool) l z : In z (ends (filter P l)) -> In z (ends l).
Proof.
  unfold ends. rewrite !in_app_iff, !in_map_iff. intros [(c & E & Hc)|(c & E & Hc)]; apply filter_In in Hc; [left|right]; exists c; tauto.
Qed.

Lemma ends_filter_nd (P : spin * spin -> bool) l : NoDup (ends l) -> NoDup (ends (filter P l)).
Proof.
  induction l as [|[a b] r IH]; simpl; [auto|]. intros H.
  apply (Permutation_NoDup (ends_cons a b r)) in H. inversion H as [|? ? Ha H']; subst. inversion H' as [|? ? Hb Hr]; subst.
  destruct (P (a, b)); [|apply IH; exact Hr].
  apply (Permutation_NoDup (Permutation_sym (ends_cons a b (filter P r)))).
  constructor; [simpl; intros [E|Hin]; [apply Ha; left; exact E | apply Ha; right; apply (ends_filter_In P); exact Hin]|].
  constructor; [intros Hin; apply Hb; apply (ends_filter_In P); exact Hin | apply IH; exact Hr].
Qed.

Lemma flat_ends_perm (l : list (spin * spin)) : Permutation (flat_map (fun c => [snd c; fst c]) l) (ends l).
Proof.
  induction l as [|[a b] r IH]; simpl; [constructor|].
  eapply Permutation_trans; [|apply Permutation_sym, ends_cons]. simpl.
  eapply Permutation_trans; [apply perm_swap|]. constructor. constructor. exact IH.
Qed.

Section Detach.
Variable s : wstate.
Variable id : nat.
Hypothesis R : Rep s.
Let hit := filter (conn_touches id) (w_conns s).

Definition hitendb (z : spin) : bool := existsb (fun c => spin_eqb (fst c) z || spin_eqb (snd c) z) hit.

Lemma hitendb_true z : hitendb z = true <-> exists w, linked s z w /\ (fst z = id \/ fst w = id).
Proof.
  unfold hitendb. rewrite existsb_exists. split.
  - intros ([a b] & Hc & E). unfold hit in Hc. apply filter_In in Hc. destruct Hc as [Hc Ht].
    unfold conn_touches in Ht. cbn [fst snd] in *. apply orb_true_iff in Ht. rewrite !Nat.eqb_eq in Ht.
    apply orb_true_iff in E. destruct E as [E|E].
    + destruct (spin_eqb_spec a z) as [->|]; [|discriminate]. exists b. split; [left; exact Hc | tauto].
    + destruct (spin_eqb_spec b z) as [->|]; [|discriminate]. exists a. split; [right; exact Hc | tauto].
  - intros (w & [Hc|Hc] & Ht).
    + exists (z, w). split; [unfold hit; apply filter_In; split; [exact Hc|]; unfold conn_touches; cbn [fst snd];
        apply orb_true_iff; rewrite !Nat.eqb_eq; exact Ht|]. cbn [fst snd]. rewrite spin_eqb_refl. reflexivity.
    + exists (w, z). split; [unfold hit; apply filter_In; split; [exact Hc|]; unfold conn_touches; cbn [fst snd];
        apply orb_true_iff; rewrite !Nat.eqb_eq; tauto|]. cbn [fst snd]. rewrite spin_eqb_refl. apply orb_true_r.
Qed.

Lemma hitendb_false z : hitendb z = false <-> forall c, In c hit -> z <> fst c /\ z <> snd c.
Proof.
  unfold hitendb. split.
  - intros H c Hc. assert (E : spin_eqb (fst c) z || spin_eqb (snd c) z = false).
    { destruct (spin_eqb (fst c) z || spin_eqb (snd c) z) eqn:E; [|reflexivity].
      assert (existsb (fun c => spin_eqb (fst c) z || spin_eqb (snd c) z) hit = true) by (apply existsb_exists; eauto). congruence. }
    apply orb_false_iff in E. destruct E as [E1 E2].
    split; intros ->; [rewrite spin_eqb_refl in E1 | rewrite spin_eqb_refl in E2]; discriminate.
  - intros H. destruct (existsb _ hit) eqn:E; [|reflexivity]. apply existsb_exists in E. destruct E as (c & Hc & E).
    destruct (H c Hc) as [A B]. apply orb_true_iff in E.
    destruct E as [E|E]; [destruct (spin_eqb_spec (fst c) z); [congruence | discriminate] | destruct (spin_eqb_spec (snd c) z); [congruence | discriminate]].
Qed.

Lemma clist_after z :
  In z (fold_left (fun l c => remove1 (fst c) (remove1 (snd c) l)) hit (w_clist s)) <-> In z (w_clist s) /\ hitendb z = false.
Proof. rewrite (proj1 (fold_remove_In hit (w_clist s) z (r_clist_nd s R))), hitendb_false. tauto. Qed.

Lemma flat_hit_In z : In z (flat_map (fun c => [snd c; fst c]) hit) <-> hitendb z = true.
Proof.
  rewrite in_flat_map. unfold hitendb. rewrite existsb_exists. split; intros (c & Hc & E); exists c; (split; [exact Hc|]).
  - simpl in E. apply orb_true_iff. destruct E as [E|[E|[]]]; subst; rewrite spin_eqb_refl; auto.
  - simpl. apply orb_true_iff in E. destruct E as [E|E]; [destruct (spin_eqb_spec (fst c) z) | destruct (spin_eqb_spec (snd c) z)]; try discriminate; auto.
Qed.

Lemma linked_after (s' : wstate) :
  w_conns s' = filter (fun c => negb (conn_touches id c)) (w_conns s) ->
  forall z w, linked s' z w <-> linked s z w /\ fst z <> id /\ fst w <> id.
Proof.
  intros Cs z w. unfold linked. rewrite Cs, !filter_In. unfold conn_touches. cbn [fst snd].
  rewrite !negb_true_iff, !orb_false_iff, !Nat.eqb_neq. tauto.
Qed.
End Detach.

Lemma FreeInv_cut s id s' : Rep s -> FreeInv s -> cut_op s id = (s', None) -> FreeInv s'.
Proof.
  intros R F H.
  destruct (detach_shape cut_connections (fun t _ => s_pins t) true s id s' cut_spec2 R H)
    as (Eid & Hns & Ss & Cs & Cl & Fr & Pn).
  assert (GP : forall m, m <> id -> s_pins (getst s' m) = s_pins (getst s m)).
  { intros m Hm. rewrite Pn. destruct (Nat.eqb_spec m id); [contradiction|]. destruct (nmem m (s_to (getst s id))); reflexivity. }
  assert (GP0 : s_pins (getst s' id) = s_pins (getst s id)) by (rewrite Pn, Nat.eqb_refl; reflexivity).
  pose proof (linked_after s id s' Cs) as L.
  constructor.
  - rewrite Fr. apply NoDup_filter. apply NoDup_app_intro; [exact (f_nd s F)| |].
    + eapply Permutation_NoDup; [apply Permutation_sym, flat_ends_perm|]. apply ends_filter_nd. exact (f_ends_nd s F).
    + intros a Ha Hb. apply (f_exact s F) in Ha. destruct Ha as (_ & _ & Hc). apply Hc.
      apply flat_hit_In, (hitendb_true s id) in Hb. destruct Hb as (w & Hl & _). apply (r_clist s R). eauto.
  - intros p. rewrite Fr, filter_In, in_app_iff, negb_true_iff, Nat.eqb_neq, Ss, Cl.
    rewrite (nremove1_nmem_nd id (fst p) (w_structs s) (r_structs s R)). rewrite (clist_after s id R). split.
    + intros [[Hp|Hp] Hne].
      * apply (f_exact s F) in Hp. destruct Hp as (A & B & C). rewrite GP by exact Hne. tauto.
      * apply flat_hit_In in Hp. pose proof Hp as Hp'. apply (hitendb_true s id) in Hp'. destruct Hp' as (w & Hl & _).
        rewrite GP by exact Hne. split; [split; [exact (proj2 (r_link s R p w Hl)) | exact Hne]|].
        split; [exact (f_lpin s F p w Hl)|]. intros [_ Hf]. congruence.
    + intros ((A & Hne) & B & C). split; [|exact Hne]. rewrite GP in B by exact Hne.
      destruct (hitendb s id p) eqn:Eh; [right; apply flat_hit_In; exact Eh|]. left. apply (f_exact s F).
      split; [exact A|]. split; [exact B|]. intros Hc. apply C. auto.
  - intros m. destruct (Nat.eqb_spec m id) as [->|Hm]; [rewrite GP0 | rewrite GP by exact Hm]; exact (f_pins_nd s F _).
  - intros z w Hl. apply L in Hl. destruct Hl as (Hl & Hz & _). rewrite GP by exact Hz. exact (f_lpin s F z w Hl).
  - rewrite Cs. apply ends_filter_nd. exact (f_ends_nd s F).
Qed.

Lemma gone_In s m id p : Rep s ->
  In p (gone (getst s m) id) <-> fst p = m /\ exists w, linked s p w /\ fst w = id.
Proof.
  intros R. unfold gone. rewrite in_map_iff. split.
  - intros ([a b] & E & Hc). simpl in E. subst a. apply filter_In in Hc. destruct Hc as [Hc Ht]. cbn [snd] in Ht.
    apply Nat.eqb_eq in Ht.
    assert (Ee : entry s m p = Some b) by (apply In_dget; [exact (r_keys s R m) | exact Hc]).
    apply (r_entry s R) in Ee. destruct Ee as [Em Hl]. split; [exact Em|]. exists b. auto.
  - intros (Em & w & Hl & Hw). exists (p, w). split; [reflexivity|]. apply filter_In. split.
    + apply dget_In. apply (r_entry s R). auto.
    + cbn [snd]. apply Nat.eqb_eq. exact Hw.
Qed.

Lemma FreeInv_remove s id s' : Rep s -> FreeInv s -> remove_op s id = (s', None) -> FreeInv s'.
Proof.
  intros R F H.
  destruct (detach_shape remove_connections _ false s id s' remove_spec2 R H)
    as (Eid & Hns & Ss & Cs & Cl & Fr & Pn).
  pose proof (linked_after s id s' Cs) as L.
  assert (Pin : forall m p, m <> id -> (In p (s_pins (getst s' m)) <->
              In p (s_pins (getst s m)) /\ ~ (nmem m (s_to (getst s id)) = true /\ In p (gone (getst s m) id)))).
  { intros m p Hm. rewrite Pn. destruct (Nat.eqb_spec m id); [contradiction|].
    destruct (nmem m (s_to (getst s id))) eqn:Em.
    - rewrite filter_In, negb_true_iff. split; intros [A B]; (split; [exact A|]).
      + intros [_ Hg]. apply mem_nIn in B. contradiction.
      + apply mem_nIn. intros Hg. apply B. auto.
    - split; [intros Hp; split; [exact Hp | intros [Hc _]; discriminate] | tauto]. }
  assert (Hto : forall p w, linked s p w -> fst w = id -> nmem (fst p) (s_to (getst s id)) = true).
  { intros p w Hl Hw. apply (r_to s R). exists w, p. split; [apply linked_sym; exact Hl | auto]. }
  constructor.
  - rewrite Fr. apply NoDup_filter. exact (f_nd s F).
  - intros p. rewrite Fr, filter_In, negb_true_iff, Nat.eqb_neq, Ss, Cl.
    rewrite (nremove1_nmem_nd id (fst p) (w_structs s) (r_structs s R)). rewrite (clist_after s id R). split.
    + intros [Hp Hne]. apply (f_exact s F) in Hp. destruct Hp as (A & B & C).
      split; [tauto|]. split; [|tauto]. apply Pin; [exact Hne|]. split; [exact B|].
      intros [_ Hg]. apply (gone_In s (fst p) id p R) in Hg. destruct Hg as (_ & w & Hl & _).
      apply C. apply (r_clist s R). eauto.
    + intros ((A & Hne) & B & C). split; [|exact Hne]. apply Pin in B; [|exact Hne]. destruct B as [B NG].
      apply (f_exact s F). split; [exact A|]. split; [exact B|]. intros Hc.
      destruct (hitendb s id p) eqn:Eh; [|apply C; auto].
      apply (hitendb_true s id) in Eh. destruct Eh as (w & Hl & [Ep|Ew]); [contradiction|].
      apply NG. split; [exact (Hto p w Hl Ew)|]. apply (gone_In s (fst p) id p R). split; [reflexivity|]. eauto.
  - intros m. rewrite Pn. destruct (Nat.eqb m id); [exact (f_pins_nd s F id)|].
    destruct (nmem m (s_to (getst s id))); [apply NoDup_filter|]; exact (f_pins_nd s F m).
  - intros z w Hl. apply L in Hl. destruct Hl as (Hl & Hz & Hw). apply Pin; [exact Hz|]. split; [exact (f_lpin s F z w Hl)|].
    intros [_ Hg]. apply (gone_In s (fst z) id z R) in Hg. destruct Hg as (_ & w' & Hl' & Hw').
    rewrite (Rep_functional s z w' w R Hl' Hl) in Hw'. contradiction.
  - rewrite Cs. apply ends_filter_nd. exact (f_ends_nd s F).
Qed.

(* ---- every operation; every reachable state ---- *)
Lemma Both_remove s id : Rep s -> FreeInv s -> Rep (fst (remove_op s id)) /\ FreeInv (fst (remove_op s id)).
Proof.
  intros R F. destruct (remove_op s id) as [s' e] eqn:E. simpl.
  destruct (Rep_detach remove_connections false s id s' e remove_connections_spec R E) as [(_ & -> & _)|[-> R']]; [auto|].
  split; [exact R' | exact (FreeInv_remove s id s' R F E)].
Qed.

Lemma Both_prune_ops ids emp s : Rep s -> FreeInv s -> FreeInv (fst (prune_ops ids emp s)).
Proof.
  revert s. induction ids as [|id r IH]; intros s R F; simpl; [exact F|].
  destruct (nmem id emp); [|apply IH; assumption].
  destruct (Both_remove s id R F) as [R' F']. destruct (remove_op s id) as [s' [e|]] eqn:E; simpl in *; [exact F'|].
  apply IH; assumption.
Qed.

Theorem FreeInv_step s o : Rep s -> FreeInv s -> FreeInv (fst (step s o)).
Proof.
  intros R F. destruct o as [id n|x y|id|id|name x| |emp|].
  - destruct (step s (Add id n)) as [s' [e|]] eqn:E; simpl.
    + rewrite (add_atomic s id n s' e E). exact F.
    + exact (FreeInv_add s id n s' R F E).
  - destruct (step s (Connect x y)) as [s' [e|]] eqn:E; simpl.
    + rewrite (connect_atomic s x y s' e (Rep_Inv1 s R) E). exact F.
    + exact (FreeInv_connect s x y s' R F E).
  - simpl. destruct (cut_op s id) as [s' e] eqn:E. simpl.
    destruct (Rep_detach cut_connections true s id s' e cut_connections_spec R E) as [(_ & -> & _)|[-> _]]; [exact F|].
    exact (FreeInv_cut s id s' R F E).
  - simpl. exact (proj2 (Both_remove s id R F)).
  - simpl. eapply FreeInv_map_only; [..|exact F]; reflexivity.
  - simpl.
    match goal with |- FreeInv (fst (let (m', e) := ?g in _)) => destruct g as [m' e] end.
    simpl. eapply FreeInv_map_only; [..|exact F]; reflexivity.
  - simpl. apply Both_prune_ops; assumption.
  - simpl. exact F.
Qed.

Theorem FreeInv_reachable ops : FreeInv (run w_empty ops).
Proof.
  assert (G : forall s, Rep s -> FreeInv s -> FreeInv (run s ops)).
  { induction ops as [|o r IH]; intros s R F; simpl; [exact F|]. apply IH; [apply Rep_step; exact R | apply FreeInv_step; assumption]. }
  apply G; [exact Rep_empty | exact FreeInv_empty].
Qed.

(* C07: after ANY history the pins the solver reports as free are exactly — each once — the pins of the present
   structures that take part in no connection; in particular pins freed by a cut are free again, pins that faced
   a removed structure are gone, and a structure that was cut and added again brings all its pins back *)
Theorem free_pins_exact ops p :
  let s := run w_empty ops in
  NoDup (w_free s) /\
  (In p (w_free s) <->
   nmem (fst p) (w_structs s) = true /\ In p (s_pins (getst s (fst p))) /\ ~ exists w, linked s p w).
Proof.
  intros s. pose proof (FreeInv_reachable ops) as F. pose proof (Rep_reachable ops) as R. fold s in F, R.
  split; [exact (f_nd s F)|]. rewrite (f_exact s F p), (r_clist s R p). tauto.
Qed.
