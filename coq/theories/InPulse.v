(* InPulse.v — export of a solved sweep to the InPulse S-matrix format and its import (C14).
   model.py: get_full_data / _build_metadata / _build_data / export_InPulse (599-724) and
   Model_from_InPulse (1608-1770).

   What is modelled: the pin table written as port_modes, the (pin_in, pin_out) -> column map, the
   columns, the pin table and the matrix assembly of the loader, the mode selection, and the
   piecewise-linear interpolation along one parameter.  What is a parameter of the model: the stored
   representation of a coefficient ([enc] : |z|^2 and arg z printed as decimal text, [dec] : parsed
   and recombined) — Polar.v shows over the reals that dec o enc is the identity. *)
From Coq Require Import List String Bool Arith QArith Lia.
From Lekkersim Require Import Base Names Modes.
Import ListNotations.
Open Scope string_scope.

Definition C := (Q * Q)%type.
Definition ceq (a b : C) : Prop := fst a == fst b /\ snd a == snd b.
Definition czero : C := (0, 0).
Definition cadd (a b : C) : C := (fst a + fst b, snd a + snd b).
Definition csub (a b : C) : C := (fst a - fst b, snd a - snd b).
Definition cscal (t : Q) (a : C) : C := (t * fst a, t * snd a).

Definition colname (p q : pin) : string := pin_name p ++ "//" ++ pin_name q.

Fixpoint pin_pos (p : pin) (l : list pin) : nat :=
  match l with [] => 0 | x :: r => if pin_eqb x p then 0 else S (pin_pos p r) end.
Definition pin_mem (p : pin) (l : list pin) : bool := existsb (pin_eqb p) l.
Fixpoint pin_nodupb (l : list pin) : bool :=
  match l with [] => true | x :: r => negb (pin_mem x r) && pin_nodupb r end.
Fixpoint str_nodupb (l : list string) : bool :=
  match l with [] => true | x :: r => negb (smem x r) && str_nodupb r end.

(* ---- interp1d: piecewise-linear interpolation on a strictly increasing grid ---- *)
Fixpoint strictly_inc (xs : list Q) : bool :=
  match xs with
  | x0 :: ((x1 :: _) as r) => (match Qcompare x0 x1 with Lt => true | _ => false end) && strictly_inc r
  | _ => true
  end.

Definition lerp (x0 x1 : Q) (y0 y1 : C) (x : Q) : C :=
  cadd y0 (cscal ((x - x0) / (x1 - x0)) (csub y1 y0)).

Fixpoint interp1 (pts : list (Q * C)) (x : Q) : option C :=
  match pts with
  | (x0, y0) :: (((x1, y1) :: _) as r) =>
      if Qle_bool x0 x && Qle_bool x x1 then Some (lerp x0 x1 y0 y1 x) else interp1 r x
  | _ => None
  end.

Section Codec.
Variable W : Type.                 (* a stored coefficient: the two decimal strings abs2 / phase *)
Variable enc : C -> W.
Variable dec : W -> C.

(* a solved sweep: pins, their matrix indices, one matrix per sweep point *)
Record solved := { s_pins : list pin; s_idx : pin -> nat; s_S : list (nat -> nat -> C) }.

(* the exported file.  The nested smatrix_map of the YAML header is the list of its leaves. *)
Record file := {
  f_ports : list (string * list (option string));        (* port_modes *)
  f_map   : list (pin * pin * string);                   (* (pin_in, pin_out) -> column name *)
  f_cols  : list (string * list W)                       (* column -> stored value per sweep point *)
}.

Definition pairs (pins : list pin) : list (pin * pin) :=
  flat_map (fun p => map (fun q => (p, q)) pins) pins.

(* [order]: the order in which the base names end up in the header (Python: list(set(..)), then
   yaml.dump sorts the keys) — any order of the base names without repetition *)
Definition encode (order : list string -> list string) (m : solved) : result file :=
  let pins := s_pins m in
  let cols := map (fun pq => colname (fst pq) (snd pq)) (pairs pins) in
  if negb (pin_nodupb pins) then Err EShape
  else if negb (str_nodupb cols) then Err ENameClash      (* two pin pairs would share a column *)
  else Ok {|
    f_ports := map (fun b => (b, pin_modes b pins)) (order (pin_basenames pins));
    f_map   := map (fun pq => (fst pq, snd pq, colname (fst pq) (snd pq))) (pairs pins);
    f_cols  := map (fun pq => (colname (fst pq) (snd pq),
                               map (fun S => enc (S (s_idx m (fst pq)) (s_idx m (snd pq)))) (s_S m)))
                   (pairs pins) |}.

(* ---- the loader ---- *)
Definition ports_pins (ports : list (string * list (option string))) : list pin :=
  flat_map (fun bm => map (fun m => {| basename := fst bm; mode_name := m |}) (snd bm)) ports.

Fixpoint col_lookup (c : string) (cols : list (string * list W)) : option (list W) :=
  match cols with [] => None | (k, v) :: r => if String.eqb k c then Some v else col_lookup c r end.

(* create_S: every (pin_in, pin_out) -> column entry is written at [pd pin_in, pd pin_out]; a later
   entry overwrites an earlier one; everything else stays zero *)
Definition entry_for (pins : list pin) (entries : list (pin * pin * string)) (i j : nat)
  : option (pin * pin * string) :=
  find (fun e => Nat.eqb (pin_pos (fst (fst e)) pins) i && Nat.eqb (pin_pos (snd (fst e)) pins) j)
       (rev entries).

Record loaded := { l_pins : list pin; l_entries : list (pin * pin * string); l_cols : list (string * list W) }.

Definition decode (f : file) : loaded :=
  {| l_pins := ports_pins (f_ports f); l_entries := f_map f; l_cols := f_cols f |}.

(* coefficient [i, j] at sweep point k *)
Definition coeff_at (L : loaded) (k i j : nat) : option C :=
  match entry_for (l_pins L) (l_entries L) i j with
  | None => Some czero
  | Some e => match col_lookup (snd e) (l_cols L) with
              | Some vals => option_map dec (nth_error vals k)
              | None => None
              end
  end.

(* coefficient [i, j] at parameter value x of a one-parameter file whose sweep values are xs:
   every column goes through interp1d *)
Definition coeff_interp (L : loaded) (xs : list Q) (x : Q) (i j : nat)
  : option C :=
  match entry_for (l_pins L) (l_entries L) i j with
  | None => Some czero
  | Some e => match col_lookup (snd e) (l_cols L) with
              | Some vals => interp1 (combine xs (map dec vals)) x
              | None => None
              end
  end.

(* ---- mode selection at load time (mode_mapping) ---- *)
Definition mode_key (p : pin) : string := match mode_name p with Some m => m | None => "" end.

Fixpoint mm_get (k : string) (mm : list (string * string)) : option string :=
  match mm with [] => None | (a, b) :: r => if String.eqb a k then Some b else mm_get k r end.

Definition mm_target (mm : list (string * string)) (p : pin) : option pin :=
  match mm_get (mode_key p) mm with
  | None => None
  | Some m' => Some (if String.eqb m' "" then {| basename := basename p; mode_name := None |}
                     else {| basename := basename p; mode_name := Some m' |})
  end.

Definition select_modes (mm : list (string * string)) (L : loaded) : result loaded :=
  let kept := flat_map (fun p => match mm_target mm p with Some t => [t] | None => [] end) (l_pins L) in
  if negb (pin_nodupb kept) then Err ENameClash else
  Ok {| l_pins := kept;
        l_entries := flat_map (fun e => match mm_target mm (fst (fst e)), mm_target mm (snd (fst e)) with
                                        | Some a, Some b => [(a, b, snd e)]
                                        | _, _ => []
                                        end) (l_entries L);
        l_cols := l_cols L |}.
End Codec.


