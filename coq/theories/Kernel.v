(* Kernel.v — model of lekkersim/scattering.py: S_matrix, add (Redheffer star product),
   int_complete. Block meaning for the first operand A (self): S21 = A_kk, S22 = A_kl, S11 = A_lk,
   S12 = A_ll; for the second operand B (s): S21 = B_ll, S22 = B_lk, S11 = B_kl, S12 = B_kk
   (k = kept pins, l = pins facing the other operand).  Shapes as in S_matrix.__init__:
   S11 : M x N, S12 : M x M, S21 : N x N, S22 : N x M. *)
From Coq Require Import List Arith Lia Bool.
From Lekkersim Require Import Field Matrix Base.
Import ListNotations.

Section Kernel.
Variable K : cfield.

Record smx := { sN : nat; sM : nat; S11 : mx K; S12 : mx K; S21 : mx K; S22 : mx K }.

(* scattering.py:64-72, given the two inverses *)
Definition sadd_blocks (A B : smx) (X1 X2 : mx K) : smx :=
  let k := sM A in
  let T1 := tab (sM B) k (mmul k (S11 B) X1) in
  let T2 := tab (sN A) k (mmul k (S22 A) X2) in
  {| sN := sN A; sM := sM B;
     S21 := tab (sN A) (sN A) (madd (S21 A) (mmul k (mmul k T2 (S21 B)) (S11 A)));
     S11 := tab (sM B) (sN A) (mmul k T1 (S11 A));
     S12 := tab (sM B) (sM B) (madd (S12 B) (mmul k (mmul k T1 (S12 A)) (S22 B)));
     S22 := tab (sN A) (sM B) (mmul k T2 (S22 B)) |}.

Definition sadd (A B : smx) : result smx :=
  if negb (Nat.eqb (sM A) (sN B)) then Err EDim else
  let k := sM A in
  match cinv k (msub mid (mmul k (S12 A) (S21 B))),
        cinv k (msub mid (mmul k (S21 B) (S12 A))) with
  | Some X1, Some X2 => Ok (sadd_blocks A B X1 X2)
  | _, _ => Err ESingular
  end.

(* reflection-free through connection on n ports *)
Definition thru (n : nat) : smx :=
  {| sN := n; sM := n; S11 := mid; S12 := mzero; S21 := mzero; S22 := mid |}.

(* scattering.py:113-141 *)
Definition int_complete (A B : smx) (u d : vec K) : result (vec K * vec K) :=
  let k := sM A in
  let ut := tabv k (mv (sN A) (S11 A) u) in
  let dt := tabv k (mv (sM B) (S22 B) d) in
  match cinv k (msub mid (mmul k (S12 A) (S21 B))),
        cinv k (msub mid (mmul k (S21 B) (S12 A))) with
  | Some X1, Some X2 =>
      Ok (tabv k (mv k X1 (vadd ut (mv k (S12 A) dt))),
          tabv k (mv k X2 (vadd dt (mv k (S21 B) ut))))
  | _, _ => Err ESingular
  end.

(* a batched join is the join of each slice (numpy broadcasting over the leading axis) *)
Fixpoint sadd_batch (As Bs : list smx) : result (list smx) :=
  match As, Bs with
  | [], [] => Ok []
  | A :: As', B :: Bs' =>
      do C <- sadd A B; do Cs <- sadd_batch As' Bs'; Ok (C :: Cs)
  | _, _ => Err EShape
  end.

(* blockwise equality *)
Definition smx_eq (A B : smx) : Prop :=
  sN A = sN B /\ sM A = sM B /\
  meq (sM A) (sN A) (S11 A) (S11 B) /\ meq (sM A) (sM A) (S12 A) (S12 B) /\
  meq (sN A) (sN A) (S21 A) (S21 B) /\ meq (sN A) (sM A) (S22 A) (S22 B).

(* the network equations of the pair: aL/bL waves at A's kept pins, aR/bR at B's kept pins,
   y enters A (= leaves B) and x leaves A (= enters B) at the shared ports *)
Definition star_eqs (A B : smx) (aL y x aR bL bR : vec K) : Prop :=
  veq (sN A) bL (vadd (mv (sN A) (S21 A) aL) (mv (sM A) (S22 A) y)) /\
  veq (sM A) x  (vadd (mv (sN A) (S11 A) aL) (mv (sM A) (S12 A) y)) /\
  veq (sN B) y  (vadd (mv (sN B) (S21 B) x) (mv (sM B) (S22 B) aR)) /\
  veq (sM B) bR (vadd (mv (sN B) (S11 B) x) (mv (sM B) (S12 B) aR)).

Definition outL (C : smx) (aL aR : vec K) : vec K :=
  vadd (mv (sN C) (S21 C) aL) (mv (sM C) (S22 C) aR).
Definition outR (C : smx) (aL aR : vec K) : vec K :=
  vadd (mv (sN C) (S11 C) aL) (mv (sM C) (S12 C) aR).

End Kernel.

Arguments sN {K}. Arguments sM {K}. Arguments S11 {K}. Arguments S12 {K}.
Arguments S21 {K}. Arguments S22 {K}. Arguments sadd {K}. Arguments sadd_blocks {K}.
Arguments thru {K}. Arguments int_complete {K}. Arguments sadd_batch {K}.
Arguments smx_eq {K}. Arguments star_eqs {K}. Arguments outL {K}. Arguments outR {K}.
