(* WiringRep2.v — the representation invariant is preserved by cut_structure / remove_structure / prune, which
   moreover never fail half-way in a state that satisfies it (C07 / C16). *)
From Coq Require Import List Arith Lia Bool.
From Lekkersim Require Import Base Network Wiring WiringProofs WiringInv WiringRep.
Import ListNotations.

(* ---- lists ---- *)
Lemma dget_filter {V} (P : spin * V -> bool) (z : spin) l : NoDup (map fst l) ->
  dget spin_eqb z (filter P l) = match dget spin_eqb z l with Some w => if P (z, w) then Some w else None | None => None end.
Proof.
  induction l as [|[a b] r IH]; simpl; [reflexivity|]. intros Hnd. inversion Hnd as [|? ? Hn Hr]; subst.
  destruct (spin_eqb_spec a z) as [->|Hne].
  - destruct (P (z, b)) eqn:EP; simpl; [rewrite spin_eqb_refl; reflexivity|].
    rewrite IH by exact Hr. assert (Hz : dget spin_eqb z r = None) by (apply dget_None_notin; exact Hn).
    rewrite Hz. reflexivity.
  - destruct (P (a, b)); simpl; [destruct (spin_eqb_spec a z); [contradiction|] |]; apply IH; exact Hr.
Qed.

Lemma NoDup_keys_filter {V} (P : spin * V -> bool) l : NoDup (map fst l) -> NoDup (map fst (filter P l)).
Proof.
  induction l as [|[a b] r IH]; simpl; [auto|]. intros Hnd. inversion Hnd as [|? ? Hn Hr]; subst.
  destruct (P (a, b)); simpl; [constructor; [|auto] | auto].
  intros Hin. apply Hn. apply in_map_iff in Hin. destruct Hin as (e & E & He). apply filter_In in He.
  apply in_map_iff. exists e. tauto.
Qed.

Lemma remove1_In_nd (x z : spin) l : NoDup l -> (In z (remove1 x l) <-> In z l /\ z <> x).
Proof.
  induction l as [|y r IH]; simpl; [tauto|]. intros Hnd. inversion Hnd as [|? ? Hy Hr]; subst.
  destruct (spin_eqb_spec y x) as [->|Hne].
  - split; [intros H; split; [auto | intros ->; contradiction] | intros [[E|H] Hz]; [congruence | exact H]].
  - simpl. rewrite IH by exact Hr. split.
    + intros [E|[H1 H2]]; [subst; auto | auto].
    + intros [[E|H1] H2]; [auto | auto].
Qed.
Lemma remove1_NoDup (x : spin) l : NoDup l -> NoDup (remove1 x l).
Proof.
  induction l as [|y r IH]; simpl; [auto|]. intros Hnd. inversion Hnd as [|? ? Hy Hr]; subst.
  destruct (spin_eqb y x); [exact Hr|]. constructor; [|auto]. intros Hin. apply In_remove1 in Hin. contradiction.
Qed.

Lemma fold_remove_In (hit : list (spin * spin)) l z : NoDup l ->
  (In z (fold_left (fun l c => remove1 (fst c) (remove1 (snd c) l)) hit l) <->
   In z l /\ forall c, In c hit -> z <> fst c /\ z <> snd c) /\
  NoDup (fold_left (fun l c => remove1 (fst c) (remove1 (snd c) l)) hit l).
Proof.
  revert l. induction hit as [|c r IH]; intros l Hnd; simpl.
  - split; [split; [intros H; split; [exact H | intros c []] | tauto] | exact Hnd].
  - assert (Hnd' : NoDup (remove1 (fst c) (remove1 (snd c) l))) by (apply remove1_NoDup, remove1_NoDup; exact Hnd).
    destruct (IH _ Hnd') as [H1 H2]. split; [|exact H2].
    rewrite H1. rewrite remove1_In_nd by (apply remove1_NoDup; exact Hnd). rewrite remove1_In_nd by exact Hnd.
    split.
    + intros [[[Hz Hs] Hf] Hr]. split; [exact Hz|]. intros c' [<-|Hc']; [auto | apply Hr; exact Hc'].
    + intros [Hz Hall]. destruct (Hall c (or_introl eq_refl)) as [Hf Hs].
      split; [auto|]. intros c' Hc'. apply Hall. right. exact Hc'.
Qed.

Lemma nremove1_nmem_nd x n l : NoDup l -> (nmem n (nremove1 x l) = true <-> nmem n l = true /\ n <> x).
Proof.
  induction l as [|y r IH]; simpl; [intros _; split; [discriminate | intros [H _]; discriminate]|].
  intros Hnd. inversion Hnd as [|? ? Hy Hr]; subst.
  destruct (Nat.eqb_spec y x) as [->|Hne].
  - destruct (Nat.eqb_spec n x) as [->|Hnx]; simpl.
    + split; [intros H; apply nmem_In in H; contradiction | intros [_ H]; congruence].
    + split; [intros H; auto | intros [H _]; exact H].
  - simpl. destruct (Nat.eqb_spec n y) as [->|Hny]; simpl; [split; [auto | reflexivity]|]. apply IH. exact Hr.
Qed.
Lemma nremove1_NoDup x l : NoDup l -> NoDup (nremove1 x l).
Proof.
  induction l as [|y r IH]; simpl; [auto|]. intros Hnd. inversion Hnd as [|? ? Hy Hr]; subst.
  destruct (Nat.eqb y x); [exact Hr|]. constructor; [|auto].
  intros Hin. apply Hy. clear - Hin. induction r as [|a r IH]; simpl in *; [tauto|].
  destruct (Nat.eqb a x); [auto|]. destruct Hin; auto.
Qed.

(* ---- the loop over the neighbours ---- *)
Lemma for_neighbours_spec f id ns s :
  NoDup ns -> (forall n, In n ns -> exists t', f (getst s n) id = Ok t') ->
  exists s1, for_neighbours f id ns s = (s1, None) /\
    w_structs s1 = w_structs s /\ w_conns s1 = w_conns s /\ w_clist s1 = w_clist s /\
    w_free s1 = w_free s /\ w_map s1 = w_map s /\
    forall m, getst s1 m = if nmem m ns then match f (getst s m) id with Ok t' => t' | Err _ => getst s m end
                           else getst s m.
Proof.
  revert s. induction ns as [|n r IH]; intros s Hnd Hok; simpl.
  - exists s. repeat split; reflexivity.
  - inversion Hnd as [|? ? Hn Hr]; subst.
    destruct (Hok n (or_introl eq_refl)) as (t' & Ht'). rewrite Ht'.
    destruct (IH (setst s n t') Hr) as (s1 & E & E1 & E2 & E3 & E4 & E5 & G).
    { intros n' Hn'. assert (n' <> n) by (intros ->; contradiction).
      rewrite getst_setst_other by assumption. apply Hok. right. exact Hn'. }
    exists s1. split; [exact E|]. repeat split; try assumption.
    intros m. rewrite G. destruct (Nat.eqb_spec m n) as [->|Hmn]; simpl.
    + assert (Hnr : nmem n r = false) by (destruct (nmem n r) eqn:Er; [apply nmem_In in Er; contradiction | reflexivity]).
      rewrite Hnr, getst_setst_same, Ht'. reflexivity.
    + rewrite getst_setst_other by exact Hmn. reflexivity.
Qed.

(* what cut_connections and remove_connections have in common *)
Definition nb_spec (f : sstruct -> nat -> result sstruct) : Prop :=
  forall t id, nmem id (s_to t) = true ->
    exists t', f t id = Ok t' /\
      s_conn t' = filter (fun e => negb (Nat.eqb (fst (snd e)) id)) (s_conn t) /\
      s_to t' = nremove1 id (s_to t) /\ (forall p, In p (s_pins t') -> In p (s_pins t)).

Lemma cut_connections_spec : nb_spec cut_connections.
Proof.
  intros t id H. unfold cut_connections. rewrite H. simpl. eexists. split; [reflexivity|].
  simpl. repeat split; auto.
Qed.
Lemma remove_connections_spec : nb_spec remove_connections.
Proof.
  intros t id H. unfold remove_connections. rewrite H. simpl. eexists. split; [reflexivity|].
  simpl. repeat split; auto. intros p Hp. apply filter_In in Hp. tauto.
Qed.

Lemma nmem_false_notin n l : nmem n l = false <-> ~ In n l.
Proof. split; [intros H Hin; apply nmem_In in Hin; congruence | intros H; destruct (nmem n l) eqn:E; [apply nmem_In in E; contradiction | reflexivity]]. Qed.

Lemma Rep_detach f refree s id s' e :
  nb_spec f -> Rep s -> detach_op f refree s id = (s', e) ->
  (e = Some ENotPresent /\ s' = s /\ nmem id (w_structs s) = false) \/ (e = None /\ Rep s').
Proof.
  intros Hf R H. unfold detach_op in H. destruct (nmem id (w_structs s)) eqn:Eid; simpl in H.
  2:{ injection H as <- <-. left. auto. }
  right.
  set (s0 := {| w_structs := nremove1 id (w_structs s); w_store := w_store s; w_conns := w_conns s;
                w_clist := w_clist s; w_free := w_free s; w_map := w_map s |}) in *.
  assert (G0 : forall m, getst s0 m = getst s m) by reflexivity.
  set (ns := s_to (getst s id)).
  change (s_to (getst s0 id)) with ns in H.
  assert (Hself : forall z w, linked s z w -> fst z = id -> fst w = id -> False).
  { intros z w Hl E1 E2. destruct (r_link s R z w Hl) as [Hne _]. congruence. }
  assert (Hid_ns : nmem id ns = false).
  { destruct (nmem id ns) eqn:E; [|reflexivity]. exfalso. apply (r_to s R) in E.
    destruct E as (z & w & Hl & Hz & Hw). exact (Hself z w Hl Hz Hw). }
  assert (Hback : forall n, nmem n ns = true -> nmem id (s_to (getst s n)) = true).
  { intros n Hn. apply (r_to s R) in Hn. destruct Hn as (z & w & Hl & Hz & Hw).
    apply (r_to s R). exists w, z. split; [apply linked_sym; exact Hl | auto]. }
  destruct (for_neighbours_spec f id ns s0 (r_to_nd s R id)) as (s1 & E & E1 & E2 & E3 & E4 & E5 & G1).
  { intros n Hn. rewrite G0. destruct (Hf (getst s n) id (Hback n (proj2 (nmem_In n ns) Hn))) as (t' & Ht' & _).
    exists t'. exact Ht'. }
  rewrite E in H. injection H as <- <-. split; [reflexivity|].
  set (hit := filter (conn_touches id) (w_conns s)).
  set (me := {| s_pins := s_pins (getst s1 id); s_conn := []; s_to := [] |}).
  match goal with |- Rep ?X => set (s' := X) end.
  (* the structure tables afterwards *)
  assert (Gm : forall m, getst s' m = if Nat.eqb m id then me else getst s1 m).
  { intros m. unfold getst, s'; cbn [w_store setst]. destruct (Nat.eqb_spec m id) as [->|Hne].
    - rewrite ndget_dset_same. reflexivity.
    - rewrite ndget_dset_other by exact Hne. reflexivity. }
  assert (Gn : forall m, nmem m ns = true -> exists t', getst s1 m = t' /\
              s_conn t' = filter (fun e => negb (Nat.eqb (fst (snd e)) id)) (s_conn (getst s m)) /\
              s_to t' = nremove1 id (s_to (getst s m)) /\ (forall p, In p (s_pins t') -> In p (s_pins (getst s m)))).
  { intros m Hm. rewrite G1, Hm, G0. destruct (Hf (getst s m) id (Hback m Hm)) as (t' & Ht' & A & B & C).
    rewrite Ht'. exists t'. auto. }
  assert (GC : forall m, s_conn (getst s' m) = if Nat.eqb m id then [] else if nmem m ns
              then filter (fun e => negb (Nat.eqb (fst (snd e)) id)) (s_conn (getst s m)) else s_conn (getst s m)).
  { intros m. rewrite Gm. destruct (Nat.eqb_spec m id); [reflexivity|].
    destruct (nmem m ns) eqn:Em; [destruct (Gn m Em) as (t' & -> & A & _); exact A | rewrite G1, Em, G0; reflexivity]. }
  assert (GT : forall m, s_to (getst s' m) = if Nat.eqb m id then [] else if nmem m ns
              then nremove1 id (s_to (getst s m)) else s_to (getst s m)).
  { intros m. rewrite Gm. destruct (Nat.eqb_spec m id); [reflexivity|].
    destruct (nmem m ns) eqn:Em; [destruct (Gn m Em) as (t' & -> & _ & B & _); exact B | rewrite G1, Em, G0; reflexivity]. }
  assert (GP : forall m p, In p (s_pins (getst s' m)) -> In p (s_pins (getst s m))).
  { intros m p. rewrite Gm. destruct (Nat.eqb_spec m id) as [->|Hne].
    - unfold me; cbn [s_pins]. rewrite G1, Hid_ns, G0. auto.
    - destruct (nmem m ns) eqn:Em; [destruct (Gn m Em) as (t' & -> & _ & _ & C); apply C | rewrite G1, Em, G0; auto]. }
  assert (Ss : w_structs s' = nremove1 id (w_structs s)) by (unfold s'; cbn [w_structs setst]; rewrite E1; reflexivity).
  assert (Cs : w_conns s' = filter (fun c => negb (conn_touches id c)) (w_conns s)) by (unfold s'; cbn [w_conns setst]; rewrite E2; reflexivity).
  assert (Cl : w_clist s' = fold_left (fun l c => remove1 (fst c) (remove1 (snd c) l)) hit (w_clist s)).
  { unfold s', hit; cbn [w_clist w_conns setst]. rewrite E2, E3. reflexivity. }
  assert (Fr : forall p, In p (w_free s') -> fst p <> id /\ (In p (w_free s) \/ exists c, In c hit /\ (p = snd c \/ p = fst c))).
  { intros p. unfold s', hit; cbn [w_free w_conns setst]. rewrite E2, E4. intros Hp. apply filter_In in Hp.
    destruct Hp as [Hp Hne]. split; [intros Eq; rewrite Eq, Nat.eqb_refl in Hne; discriminate|].
    destruct refree; [|auto]. apply in_app_or in Hp. destruct Hp as [Hp|Hp]; [auto|].
    right. apply in_flat_map in Hp. destruct Hp as (c & Hc & [Hp|[Hp|[]]]); exists c; auto. }
  clearbody s'. clear me Gm Gn G1 E E1 E2 E3 E4 E5.
  (* links afterwards *)
  assert (L : forall z w, linked s' z w <-> linked s z w /\ fst z <> id /\ fst w <> id).
  { intros z w. unfold linked. rewrite Cs, !filter_In. unfold conn_touches. cbn [fst snd].
    rewrite !negb_true_iff, !orb_false_iff, !Nat.eqb_neq. tauto. }
  assert (Hit : forall c, In c hit <-> In c (w_conns s) /\ (fst (fst c) = id \/ fst (snd c) = id)).
  { intros c. unfold hit. rewrite filter_In. unfold conn_touches. rewrite orb_true_iff, !Nat.eqb_eq. tauto. }
  (* entries afterwards *)
  assert (K : forall m z, entry s' m z = match entry s m z with
              | Some w => if Nat.eqb m id || Nat.eqb (fst w) id then None else Some w | None => None end).
  { intros m z. unfold entry. rewrite GC. destruct (Nat.eqb_spec m id) as [->|Hm]; simpl.
    - destruct (dget spin_eqb z (s_conn (getst s id))); reflexivity.
    - destruct (nmem m ns) eqn:Em.
      + rewrite dget_filter by exact (r_keys s R m). cbn [snd]. destruct (dget spin_eqb z (s_conn (getst s m))) as [w|]; [|reflexivity].
        destruct (Nat.eqb (fst w) id); reflexivity.
      + destruct (dget spin_eqb z (s_conn (getst s m))) as [w|] eqn:Ew; [|reflexivity].
        destruct (Nat.eqb_spec (fst w) id) as [Ewi|]; [|reflexivity]. exfalso.
        destruct (proj1 (r_entry s R m z w) Ew) as [Ez Hl].
        assert (nmem m ns = true); [|congruence]. apply (r_to s R). exists w, z. split; [apply linked_sym; exact Hl | auto]. }
  constructor.
  - rewrite Ss. apply nremove1_NoDup. exact (r_structs s R).
  - intros m z w. rewrite K, L. destruct (entry s m z) as [w0|] eqn:Ew.
    + destruct (proj1 (r_entry s R m z w0) Ew) as [Ez Hl].
      destruct (Nat.eqb_spec m id) as [Hm|Hm]; simpl.
      * split; [discriminate|]. intros [Ez' [_ [Hn _]]]. congruence.
      * destruct (Nat.eqb_spec (fst w0) id) as [Hw|Hw].
        -- split; [discriminate|]. intros [_ [Hl' [_ Hn]]]. rewrite (Rep_functional s z w0 w R Hl Hl') in Hw. contradiction.
        -- split; [intros Hq; injection Hq as <-; repeat split; auto; congruence|].
           intros [_ [Hl' _]]. f_equal. exact (Rep_functional s z w0 w R Hl Hl').
    + split; [discriminate|]. intros [Ez [Hl _]].
      assert (entry s m z = Some w) by (apply (r_entry s R); auto). congruence.
  - intros m. rewrite GC. destruct (Nat.eqb m id); [constructor|].
    destruct (nmem m ns); [apply NoDup_keys_filter|]; exact (r_keys s R m).
  - rewrite Cs. apply NoDup_keys_filter. exact (r_ckeys s R).
  - intros z. rewrite Cl. destruct (fold_remove_In hit (w_clist s) z (r_clist_nd s R)) as [Hin _]. rewrite Hin. split.
    + intros [Hz Hall]. apply (r_clist s R) in Hz. destruct Hz as (w & Hl). exists w. apply L. split; [exact Hl|].
      destruct Hl as [Hc|Hc].
      * split; intros Eq; destruct (Hall (z, w)) as [A B]; try (apply Hit; cbn [fst snd]; auto); cbn [fst snd] in *; congruence.
      * split; intros Eq; destruct (Hall (w, z)) as [A B]; try (apply Hit; cbn [fst snd]; auto); cbn [fst snd] in *; congruence.
    + intros (w & Hl). apply L in Hl. destruct Hl as (Hl & Hz & Hw). split; [apply (r_clist s R); eauto|].
      intros c Hc. apply Hit in Hc. destruct Hc as [Hc Ht]. destruct c as [a b]. cbn [fst snd] in *.
      split; intros ->.
      * assert (b = w) by (apply (Rep_functional s a b w R); [left; exact Hc | exact Hl]). subst. tauto.
      * assert (a = w) by (apply (Rep_functional s b a w R); [right; exact Hc | exact Hl]). subst. tauto.
  - rewrite Cl. exact (proj2 (fold_remove_In hit (w_clist s) (0, 0)%nat (r_clist_nd s R))).
  - intros z w Hl. apply L in Hl. destruct Hl as (Hl & Hz & Hw). destruct (r_link s R z w Hl) as [A B].
    split; [exact A|]. rewrite Ss. apply nremove1_nmem_nd; [exact (r_structs s R) | auto].
  - intros m k. rewrite GT.
    assert (Q : nmem k (if Nat.eqb m id then [] else if nmem m ns then nremove1 id (s_to (getst s m)) else s_to (getst s m)) = true
                <-> nmem k (s_to (getst s m)) = true /\ m <> id /\ k <> id).
    { destruct (Nat.eqb_spec m id) as [Hm|Hm]; [split; [discriminate | intros [_ [Hn _]]; contradiction]|].
      destruct (nmem m ns) eqn:Em.
      - rewrite nremove1_nmem_nd by exact (r_to_nd s R m). tauto.
      - split; [|tauto]. intros Hk. split; [exact Hk|]. split; [exact Hm|]. intros ->.
        apply (r_to s R) in Hk. destruct Hk as (z & w & Hl & Hz & Hw).
        assert (nmem m ns = true); [|congruence]. apply (r_to s R). exists w, z. split; [apply linked_sym; exact Hl | auto]. }
    rewrite Q, (r_to s R m k). split.
    + intros [(z & w & Hl & Hz & Hw) [Hm Hk]]. exists z, w. split; [apply L; repeat split; congruence | auto].
    + intros (z & w & Hl & Hz & Hw). apply L in Hl. destruct Hl as (Hl & A & B). split; [eauto|]. split; congruence.
  - intros m. rewrite GT. destruct (Nat.eqb m id); [constructor|].
    destruct (nmem m ns); [apply nremove1_NoDup|]; exact (r_to_nd s R m).
  - intros p Hp. destruct (Fr p Hp) as [Hne [Hin|(c & Hc & Hpc)]]; rewrite Ss; apply nremove1_nmem_nd; try exact (r_structs s R).
    + split; [exact (r_free s R p Hin) | exact Hne].
    + apply Hit in Hc. destruct Hc as [Hc _]. destruct c as [a b]. cbn [fst snd] in Hpc. split; [|exact Hne].
      destruct Hpc as [->| ->].
      * exact (proj2 (r_link s R b a (or_intror Hc))).
      * exact (proj2 (r_link s R a b (or_introl Hc))).
  - intros m p Hp. exact (r_own s R m p (GP m p Hp)).
Qed.

(* ---- every operation preserves the invariant; every reachable state satisfies it ---- *)
Lemma Rep_prune_ops ids emp s : Rep s -> Rep (fst (prune_ops ids emp s)).
Proof.
  revert s. induction ids as [|id r IH]; intros s R; simpl; [exact R|].
  destruct (nmem id emp); [|apply IH; exact R].
  destruct (remove_op s id) as [s' [e|]] eqn:E.
  - simpl. destruct (Rep_detach remove_connections false s id s' (Some e) remove_connections_spec R E) as [(_ & -> & _)|[H _]];
      [exact R | discriminate].
  - apply IH. destruct (Rep_detach remove_connections false s id s' None remove_connections_spec R E) as [(H & _)|[_ R']];
      [discriminate | exact R'].
Qed.

Theorem Rep_step s o : Rep s -> Rep (fst (step s o)).
Proof.
  intros R. destruct o as [id n|x y|id|id|name x| |emp|].
  - destruct (step s (Add id n)) as [s' [e|]] eqn:E; simpl.
    + rewrite (add_atomic s id n s' e E). exact R.
    + exact (Rep_add s id n s' R E).
  - destruct (step s (Connect x y)) as [s' [e|]] eqn:E; simpl.
    + rewrite (connect_atomic s x y s' e (Rep_Inv1 s R) E). exact R.
    + exact (Rep_connect s x y s' R E).
  - simpl. destruct (cut_op s id) as [s' e] eqn:E. simpl.
    destruct (Rep_detach cut_connections true s id s' e cut_connections_spec R E) as [(_ & -> & _)|[_ R']]; assumption.
  - simpl. destruct (remove_op s id) as [s' e] eqn:E. simpl.
    destruct (Rep_detach remove_connections false s id s' e remove_connections_spec R E) as [(_ & -> & _)|[_ R']]; assumption.
  - simpl. eapply Rep_map_only; [..|exact R]; reflexivity.
  - simpl.
    match goal with |- Rep (fst (let (m', e) := ?g in _)) => destruct g as [m' e] end.
    simpl. eapply Rep_map_only; [..|exact R]; reflexivity.
  - simpl. apply Rep_prune_ops. exact R.
  - simpl. exact R.
Qed.

Theorem Rep_reachable ops : Rep (run w_empty ops).
Proof.
  assert (G : forall s, Rep s -> Rep (run s ops)).
  { induction ops as [|o r IH]; intros s R; simpl; [exact R|]. apply IH. apply Rep_step. exact R. }
  apply G. exact Rep_empty.
Qed.

(* C16, full strength: after ANY history (add, connect, cut, remove, prune, map, raise, solve in any order, accepted
   or rejected), a rejected connect or add leaves every table of the solver and of every structure as it was *)
Theorem rejected_call_changes_nothing_anywhere ops o s' e :
  (exists x y, o = Connect x y) \/ (exists id n, o = Add id n) ->
  step (run w_empty ops) o = (s', Some e) -> s' = run w_empty ops.
Proof.
  intros [(x & y & ->)|(id & n & ->)] H.
  - exact (connect_atomic _ x y s' e (Rep_Inv1 _ (Rep_reachable ops)) H).
  - exact (add_atomic _ id n s' e H).
Qed.

(* cut_structure / remove_structure never stop half-way: in every reachable state they either reject an absent
   structure, changing nothing, or complete *)
Theorem detach_all_or_nothing ops id s' e :
  step (run w_empty ops) (Cut id) = (s', Some e) \/ step (run w_empty ops) (Remove id) = (s', Some e) ->
  s' = run w_empty ops /\ e = ENotPresent.
Proof.
  intros [H|H]; simpl in H.
  - destruct (Rep_detach cut_connections true _ id s' (Some e) cut_connections_spec (Rep_reachable ops) H)
      as [(E & -> & _)|[E _]]; [injection E as ->; auto | discriminate].
  - destruct (Rep_detach remove_connections false _ id s' (Some e) remove_connections_spec (Rep_reachable ops) H)
      as [(E & -> & _)|[E _]]; [injection E as ->; auto | discriminate].
Qed.

(* in every reachable state: the per-structure tables, the connection list and the link set agree *)
Theorem tables_consistent ops z w :
  let s := run w_empty ops in
  (entry s (fst z) z = Some w <-> linked s z w) /\
  (In z (w_clist s) <-> exists w', linked s z w') /\
  (linked s z w -> nmem (fst z) (w_structs s) = true /\ nmem (fst w) (s_to (getst s (fst z))) = true).
Proof.
  intros s. pose proof (Rep_reachable ops) as R. fold s in R. split; [|split].
  - rewrite (r_entry s R). tauto.
  - exact (r_clist s R z).
  - intros Hl. split; [exact (proj2 (r_link s R z w Hl))|]. apply (r_to s R). exists z, w. auto.
Qed.
