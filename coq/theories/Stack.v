(* Stack.v — the active-solver stack (lekkersim.sol_list) under nested with-blocks (C17).
   __enter__ = append, __exit__ = pop (called on normal and exceptional exit, exception
   propagates); every module-level helper acts on sol_list[-1]. *)
From Coq Require Import List Arith Lia Bool.
Import ListNotations.

Inductive prog :=
| PHelper (h : nat)               (* any module-level helper: acts on the active solver *)
| PSeq (p q : prog)
| PWith (sol : nat) (p : prog)    (* with sol: p *)
| PRaise                          (* an exception is raised here *)
| PTry (p : prog).                (* try: p  except: pass *)

Inductive outcome := Normal | Exc.

Record st := { stack : list nat; log : list (nat * nat * nat) }.
(* log entry: (helper, solver it acted on = last of the stack, innermost enclosing with-block) *)

Definition top (stk : list nat) : nat := last stk 0.

Fixpoint exec (p : prog) (cur : nat) (s : st) : outcome * st :=
  match p with
  | PHelper h => (Normal, {| stack := stack s; log := log s ++ [(h, top (stack s), cur)] |})
  | PSeq p q =>
      match exec p cur s with
      | (Normal, s') => exec q cur s'
      | (Exc, s') => (Exc, s')
      end
  | PWith sol p =>
      let s1 := {| stack := stack s ++ [sol]; log := log s |} in
      let (o, s2) := exec p sol s1 in
      (o, {| stack := removelast (stack s2); log := log s2 |})
  | PRaise => (Exc, s)
  | PTry p => let (o, s') := exec p cur s in (Normal, s')
  end.

Lemma removelast_snoc {A} (l : list A) x : removelast (l ++ [x]) = l.
Proof. apply removelast_last. Qed.

Lemma last_snoc {A} (l : list A) x d : last (l ++ [x]) d = x.
Proof. apply last_last. Qed.

(* after any program — normal or exceptional exit — the stack is what it was *)
Theorem stack_restored p : forall cur s, stack (snd (exec p cur s)) = stack s.
Proof.
  induction p as [h|p IHp q IHq|sol p IH| |p IH]; intros cur s; simpl.
  - reflexivity.
  - specialize (IHp cur s). destruct (exec p cur s) as [[|] s'] eqn:E; simpl in *.
    + rewrite IHq. exact IHp.
    + exact IHp.
  - specialize (IH sol {| stack := stack s ++ [sol]; log := log s |}).
    destruct (exec p sol _) as [o s2]; simpl in *. rewrite IH. apply removelast_snoc.
  - reflexivity.
  - specialize (IH cur s). destruct (exec p cur s) as [o s']. exact IH.
Qed.

(* every helper acts on the innermost enclosing with-block's solver *)
Definition log_ok (l : list (nat * nat * nat)) : Prop :=
  forall e, In e l -> snd (fst e) = snd e.

Theorem helpers_hit_innermost p : forall cur s,
  top (stack s) = cur -> log_ok (log s) -> log_ok (log (snd (exec p cur s))).
Proof.
  induction p as [h|p IHp q IHq|sol p IH| |p IH]; intros cur s Htop Hlog; simpl.
  - intros e He. apply in_app_or in He. destruct He as [He|[<-|[]]]; [apply Hlog; exact He|].
    simpl. exact Htop.
  - pose proof (IHp cur s Htop Hlog) as H1. pose proof (stack_restored p cur s) as S1.
    destruct (exec p cur s) as [[|] s'] eqn:E; simpl in *.
    + apply IHq; [rewrite S1; exact Htop | exact H1].
    + exact H1.
  - set (s1 := {| stack := stack s ++ [sol]; log := log s |}).
    assert (T1 : top (stack s1) = sol) by (unfold top, s1; simpl; apply last_snoc).
    pose proof (IH sol s1 T1 Hlog) as H. destruct (exec p sol s1) as [o s2]. exact H.
  - exact Hlog.
  - pose proof (IH cur s Htop Hlog) as H. destruct (exec p cur s) as [o s']. exact H.
Qed.

(* frame: a program only appends to the log *)
Theorem log_extends p : forall cur s, exists l', log (snd (exec p cur s)) = log s ++ l'.
Proof.
  induction p as [h|p IHp q IHq|sol p IH| |p IH]; intros cur s; simpl.
  - eexists. reflexivity.
  - destruct (IHp cur s) as (l1 & E1). destruct (exec p cur s) as [[|] s'] eqn:E; simpl in *.
    + destruct (IHq cur s') as (l2 & E2). exists (l1 ++ l2). rewrite E2, E1, app_assoc. reflexivity.
    + exists l1. exact E1.
  - destruct (IH sol {| stack := stack s ++ [sol]; log := log s |}) as (l1 & E1).
    destruct (exec p sol _) as [o s2]. simpl in *. exists l1. exact E1.
  - exists []. rewrite app_nil_r. reflexivity.
  - destruct (IH cur s) as (l1 & E1). destruct (exec p cur s) as [o s']. exists l1. exact E1.
Qed.
