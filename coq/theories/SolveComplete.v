(* SolveComplete.v — existence of wave solutions (back-substitution through the elimination
   loop) and, from it, independence of the result from the schedule (C01 completeness, C03). *)
From Coq Require Import List Arith Lia Bool Field Ring Setoid Morphisms Permutation.
From Lekkersim Require Import Field Matrix Base Kernel KernelProofs Network Solve SolveProofs.
Import ListNotations.

(* ---- list surgery ---- *)
Lemma remove_nth_perm {A} (d : A) i l : (i < length l)%nat ->
  Permutation l (nth i l d :: remove_nth i l).
Proof.
  revert i. induction l as [|x r IH]; intros i H; simpl in *; [lia|].
  destruct i as [|i]; [reflexivity|].
  change (remove_nth (S i) (x :: r)) with (x :: remove_nth i r).
  eapply Permutation_trans; [apply perm_skip; apply (IH i); lia|]. apply perm_swap.
Qed.

Lemma nth_remove_nth_lt {A} (d : A) lo hi l : (lo < hi)%nat ->
  nth lo (remove_nth hi l) d = nth lo l d.
Proof.
  revert lo hi. induction l as [|x r IH]; intros lo hi H; simpl.
  - destruct hi; destruct lo; reflexivity.
  - destruct hi as [|hi]; [lia|]. destruct lo as [|lo]; [reflexivity|]. simpl. apply IH. lia.
Qed.

Lemma length_remove_nth {A} i (l : list A) : (i < length l)%nat ->
  length (remove_nth i l) = (length l - 1)%nat.
Proof.
  revert i. induction l as [|x r IH]; intros i H; simpl in *; [lia|].
  destruct i as [|i]; simpl; [lia|]. rewrite IH by lia. lia.
Qed.

Lemma two_removed_perm {A} (d : A) i j l : i <> j -> (i < length l)%nat -> (j < length l)%nat ->
  Permutation l (nth i l d :: nth j l d :: remove_nth (Nat.min i j) (remove_nth (Nat.max i j) l)).
Proof.
  intros Hne Hi Hj.
  assert (G : forall lo hi, (lo < hi)%nat -> (hi < length l)%nat ->
            Permutation l (nth hi l d :: nth lo l d :: remove_nth lo (remove_nth hi l))).
  { intros lo hi Hlt Hhi.
    eapply Permutation_trans; [apply (remove_nth_perm d hi l Hhi)|]. apply perm_skip.
    rewrite <- (nth_remove_nth_lt d lo hi l Hlt). apply remove_nth_perm.
    rewrite length_remove_nth by exact Hhi. lia. }
  destruct (Nat.lt_ge_cases i j) as [Hlt|Hge].
  - rewrite Nat.min_l, Nat.max_r by lia.
    eapply Permutation_trans; [apply (G i j Hlt Hj)|]. apply perm_swap.
  - assert (Hlt : (j < i)%nat) by lia. rewrite Nat.min_r, Nat.max_l by lia.
    apply (G j i Hlt Hi).
Qed.

Section Complete.
Variable K : cfield.
Hypothesis KL : cfield_laws K.

Notation "0" := (f0 K).
Notation "1" := (f1 K).
Infix "+" := (fadd K).
Infix "*" := (fmul K).
Infix "==" := (feq K) (at level 70).

Add Field Kfield4 : (F_ft K KL) (setoid (feq_equiv K KL) (F_ext K KL)).

Lemma allpins_perm (l l' : list (lst K)) : Permutation l l' -> Permutation (allpins l) (allpins l').
Proof.
  unfold allpins. induction 1 as [|x l l' _ IH|x y l|l l' l'' _ IH1 _ IH2]; simpl.
  - constructor.
  - apply Permutation_app_head. exact IH.
  - rewrite !app_assoc. apply Permutation_app_tail. apply Permutation_app_comm.
  - eapply Permutation_trans; eassumption.
Qed.

Lemma allpins_app (l l' : list (lst K)) : allpins (l ++ l') = allpins l ++ allpins l'.
Proof. unfold allpins. rewrite map_app, concat_app. reflexivity. Qed.

(* ---- Sem depends only on the waves at the structure's pins ---- *)
Lemma Sem_ext (L : lst K) a b a' b' :
  (forall p, In p (l_pins L) -> a' p == a p /\ b' p == b p) -> Sem L a b -> Sem L a' b'.
Proof.
  intros H HS i Hi.
  destruct (H (nth i (l_pins L) dpin) (nth_In _ _ Hi)) as [_ Hb]. rewrite Hb, (HS i Hi).
  apply (bigsum_ext K KL). intros j Hj.
  destruct (H (nth j (l_pins L) dpin) (nth_In _ _ Hj)) as [Ha _]. rewrite Ha. reflexivity.
Qed.

(* ---- rows of a partitioned structure give Sem back ---- *)
Lemma Sem_of_rows (A : lst K) a b ins outs :
  NoDup (l_pins A) -> Permutation (l_pins A) (ins ++ outs) ->
  let PA := part A ins outs in
  let vin := fun i => a (nth i ins dpin) in let vout := fun i => a (nth i outs dpin) in
  veq (length ins) (fun i => b (nth i ins dpin))
      (vadd (mv (length ins) (S21 PA) vin) (mv (length outs) (S22 PA) vout)) ->
  veq (length outs) (fun i => b (nth i outs dpin))
      (vadd (mv (length ins) (S11 PA) vin) (mv (length outs) (S12 PA) vout)) ->
  Sem A a b.
Proof.
  intros Hnd Hperm PA vin vout R1 R2. set (P := l_pins A) in *.
  intros i Hi. fold P in Hi |- *.
  set (p := nth i P dpin).
  assert (Hp : In p P) by (apply nth_In; exact Hi).
  assert (Hpos : pos p P = i) by (apply pos_nth; assumption).
  (* the full row as the two partial sums *)
  assert (ROW : bigsum (length P) (fun j => l_S A i j * a (nth j P dpin))
                == bigsum (length ins) (fun j => l_S A i (pos (nth j ins dpin) P) * a (nth j ins dpin))
                 + bigsum (length outs) (fun j => l_S A i (pos (nth j outs dpin) P) * a (nth j outs dpin))).
  { set (g := fun q => l_S A i (pos q P) * a q).
    rewrite (bigsum_ext K KL (length P) _ (fun j => g (nth j P dpin))).
    2:{ intros j Hj. unfold g. rewrite (pos_nth j P Hnd Hj). reflexivity. }
    rewrite (bigsum_nth K KL). rewrite (lsum_perm K KL _ _ g Hperm), (lsum_app K KL).
    rewrite <- !(bigsum_nth K KL). reflexivity. }
  rewrite ROW.
  assert (Hin : In p (ins ++ outs)) by (eapply Permutation_in; eassumption).
  apply in_app_or in Hin. destruct Hin as [Hin|Hin]; apply (In_nth _ _ dpin) in Hin;
    destruct Hin as (k & Hk & Ek).
  - specialize (R1 k Hk). cbv beta in R1. rewrite Ek in R1. rewrite R1. unfold vadd, mv.
    rewrite (bigsum_ext K KL (length ins) (fun l => S21 PA k l * vin l)
               (fun j => l_S A i (pos (nth j ins dpin) P) * a (nth j ins dpin))).
    2:{ intros j Hj. unfold PA. rewrite part_S21 by assumption. rewrite Ek. fold P. rewrite Hpos. reflexivity. }
    rewrite (bigsum_ext K KL (length outs) (fun l => S22 PA k l * vout l)
               (fun j => l_S A i (pos (nth j outs dpin) P) * a (nth j outs dpin))).
    2:{ intros j Hj. unfold PA. rewrite part_S22 by assumption. rewrite Ek. fold P. rewrite Hpos. reflexivity. }
    reflexivity.
  - specialize (R2 k Hk). cbv beta in R2. rewrite Ek in R2. rewrite R2. unfold vadd, mv.
    rewrite (bigsum_ext K KL (length ins) (fun l => S11 PA k l * vin l)
               (fun j => l_S A i (pos (nth j ins dpin) P) * a (nth j ins dpin))).
    2:{ intros j Hj. unfold PA. rewrite part_S11 by assumption. rewrite Ek. fold P. rewrite Hpos. reflexivity. }
    rewrite (bigsum_ext K KL (length outs) (fun l => S12 PA k l * vout l)
               (fun j => l_S A i (pos (nth j outs dpin) P) * a (nth j outs dpin))).
    2:{ intros j Hj. unfold PA. rewrite part_S12 by assumption. rewrite Ek. fold P. rewrite Hpos. reflexivity. }
    reflexivity.
Qed.

(* ---- the composite's equations give the outputs of the joined partitioned matrix ---- *)
Lemma Sem_assemble_inv (P : smx K) ins outs a b :
  sN P = length ins -> sM P = length outs ->
  Sem {| l_pins := ins ++ outs; l_S := assemble P |} a b ->
  veq (length ins) (fun i => b (nth i ins dpin))
      (outL P (fun i => a (nth i ins dpin)) (fun i => a (nth i outs dpin))) /\
  veq (length outs) (fun i => b (nth i outs dpin))
      (outR P (fun i => a (nth i ins dpin)) (fun i => a (nth i outs dpin))).
Proof.
  intros EN EM HS. unfold Sem in HS; cbn [l_pins l_S] in HS. rewrite app_length in HS.
  set (n := length ins) in *. set (m := length outs) in *.
  split; intros i Hi.
  - specialize (HS i ltac:(lia)). rewrite app_nth1 in HS by exact Hi. rewrite HS.
    rewrite (bigsum_split K KL). unfold outL, vadd, mv. rewrite EN, EM. fold n m.
    rewrite (bigsum_ext K KL n (fun j => assemble P i j * a (nth j (ins ++ outs) dpin))
               (fun l => S21 P i l * a (nth l ins dpin))).
    2:{ intros j Hj. rewrite (assemble_entry K) by lia. rewrite EN. fold n.
        destruct (Nat.ltb_spec i n); [|lia]. destruct (Nat.ltb_spec j n); [|lia].
        rewrite app_nth1 by exact Hj. reflexivity. }
    rewrite (bigsum_ext K KL m (fun j => assemble P i (n + j)%nat * a (nth (n + j)%nat (ins ++ outs) dpin))
               (fun l => S22 P i l * a (nth l outs dpin))).
    2:{ intros j Hj. rewrite (assemble_entry K) by lia. rewrite EN. fold n.
        destruct (Nat.ltb_spec i n); [|lia]. destruct (Nat.ltb_spec (n + j)%nat n); [lia|].
        rewrite app_nth2 by (fold n; lia). fold n.
        replace (n + j - n)%nat with j by lia. reflexivity. }
    reflexivity.
  - specialize (HS (n + i)%nat ltac:(lia)). rewrite app_nth2 in HS by (fold n; lia). fold n in HS.
    replace (n + i - n)%nat with i in HS by lia. rewrite HS.
    rewrite (bigsum_split K KL). unfold outR, vadd, mv. rewrite EN, EM. fold n m.
    rewrite (bigsum_ext K KL n (fun j => assemble P (n + i)%nat j * a (nth j (ins ++ outs) dpin))
               (fun l => S11 P i l * a (nth l ins dpin))).
    2:{ intros j Hj. rewrite (assemble_entry K) by lia. rewrite EN. fold n.
        destruct (Nat.ltb_spec (n + i)%nat n); [lia|]. destruct (Nat.ltb_spec j n); [|lia].
        rewrite app_nth1 by exact Hj. replace (n + i - n)%nat with i by lia. reflexivity. }
    rewrite (bigsum_ext K KL m (fun j => assemble P (n + i)%nat (n + j)%nat * a (nth (n + j)%nat (ins ++ outs) dpin))
               (fun l => S12 P i l * a (nth l outs dpin))).
    2:{ intros j Hj. rewrite (assemble_entry K) by lia. rewrite EN. fold n.
        destruct (Nat.ltb_spec (n + i)%nat n); [lia|]. destruct (Nat.ltb_spec (n + j)%nat n); [lia|].
        rewrite app_nth2 by (fold n; lia). fold n.
        replace (n + j - n)%nat with j by lia. replace (n + i - n)%nat with i by lia. reflexivity. }
    reflexivity.
Qed.

(* ---- connections: one per pin ---- *)
Lemma partner_of_In cs x y : NoDup (conn_ends cs) -> In (x, y) cs ->
  partner cs x = Some y /\ partner cs y = Some x.
Proof.
  unfold conn_ends. induction cs as [|[a b] r IH]; intros Hnd Hin; [destruct Hin|].
  simpl in Hnd. inversion Hnd as [|? ? Ha Hr]; subst.
  assert (Hb : ~ In b (map fst r ++ map snd r) /\ NoDup (map fst r ++ map snd r) /\ a <> b).
  { split; [|split].
    - intros Hb. apply NoDup_remove_2 in Hr. apply Hr. exact Hb.
    - apply NoDup_remove_1 in Hr. exact Hr.
    - intros ->. apply Ha. apply in_or_app. right. left. reflexivity. }
  destruct Hb as (Hb & Hr' & Hab).
  assert (Ha' : ~ In a (map fst r ++ map snd r)).
  { intros H. apply Ha. apply in_app_or in H. apply in_or_app. destruct H; [left|right; right]; assumption. }
  destruct Hin as [E|Hin].
  - injection E as <- <-. simpl. rewrite spin_eqb_refl.
    destruct (spin_eqb_spec a b); [contradiction|]. rewrite spin_eqb_refl. split; reflexivity.
  - assert (Hx : In x (map fst r ++ map snd r)).
    { apply in_or_app. left. apply in_map_iff. exists (x, y). split; [reflexivity|exact Hin]. }
    assert (Hy : In y (map fst r ++ map snd r)).
    { apply in_or_app. right. apply in_map_iff. exists (x, y). split; [reflexivity|exact Hin]. }
    simpl.
    destruct (spin_eqb_spec a x) as [->|_]; [contradiction|].
    destruct (spin_eqb_spec b x) as [->|_]; [contradiction|].
    destruct (spin_eqb_spec a y) as [->|_]; [contradiction|].
    destruct (spin_eqb_spec b y) as [->|_]; [contradiction|].
    apply IH; assumption.
Qed.

Lemma partner_sym cs x y : NoDup (conn_ends cs) -> partner cs x = Some y -> partner cs y = Some x.
Proof.
  intros Hnd H. destruct (partner_In cs x y H) as [Hin|Hin].
  - apply (partner_of_In cs x y Hnd Hin).
  - apply (partner_of_In cs y x Hnd Hin).
Qed.

Lemma In_conn_ends cs x y : In (x, y) cs -> In x (conn_ends cs) /\ In y (conn_ends cs).
Proof.
  intros H. unfold conn_ends. split; apply in_or_app; [left|right]; apply in_map_iff;
    exists (x, y); split; auto.
Qed.

(* link equations restricted to the pins still present *)
Definition E2on (cs : list conn) (S : list spin) (a b : waves K) : Prop :=
  forall x y, In (x, y) cs -> In x S -> In y S -> a x == b y /\ a y == b x.

(* ---- the shape of one step ---- *)
Lemma merge_step_inv cs (live live' : list (lst K)) ij :
  merge_step cs live ij = Ok live' ->
  exists A B C rest,
    Permutation live (A :: B :: rest) /\ join cs A B = Ok C /\ live' = rest ++ [C].
Proof.
  unfold merge_step. destruct ij as [i j]. intros H.
  destruct (Nat.eqb i j || negb (i <? length live) || negb (j <? length live)) eqn:E; [discriminate|].
  apply orb_false_iff in E. destruct E as [E Ej]. apply orb_false_iff in E. destruct E as [Eij Ei].
  apply negb_false_iff, Nat.ltb_lt in Ei. apply negb_false_iff, Nat.ltb_lt in Ej.
  apply Nat.eqb_neq in Eij.
  apply bind_ok in H. destruct H as (C & HC & H). injection H as <-.
  exists (nth i live dlst), (nth j live dlst), C,
         (remove_nth (Nat.min i j) (remove_nth (Nat.max i j) live)).
  split; [apply two_removed_perm; assumption|]. split; [exact HC|reflexivity].
Qed.

Lemma links_partner_some cs (A B : lst K) p :
  In p (map fst (links cs A B)) \/ In p (map snd (links cs A B)) -> partner cs p <> None.
Proof.
  intros [H|H]; apply in_map_iff in H; destruct H as ([x y] & <- & H); apply links_spec in H;
    destruct H as (_ & Hp & _); simpl.
  - congruence.
  - intros Hn. destruct (partner_In cs x y Hp) as [Hin|Hin];
      destruct (partner_None cs y Hn _ Hin) as [H1 H2]; simpl in *; congruence.
Qed.

(* forward invariants of one step *)
Lemma merge_step_pins cs (live live' : list (lst K)) ij :
  merge_step cs live ij = Ok live' -> NoDup (allpins live) ->
  NoDup (allpins live') /\
  (forall p, In p (allpins live') -> In p (allpins live)) /\
  (forall p, In p (allpins live) -> partner cs p = None -> In p (allpins live')).
Proof.
  intros H Hnd. destruct (merge_step_inv _ _ _ _ H) as (A & B & C & rest & Hperm & HJ & ->).
  pose proof (allpins_perm _ _ Hperm) as HP. unfold allpins in HP; simpl in HP. fold (allpins rest) in HP.
  assert (Hnd' : NoDup (l_pins A ++ l_pins B ++ allpins rest)).
  { eapply Permutation_NoDup; [exact HP | exact Hnd]. }
  set (xs := map fst (links cs A B)). set (ys := map snd (links cs A B)).
  assert (Hall : allpins (rest ++ [C]) = allpins rest ++ (keep xs (l_pins A) ++ keep ys (l_pins B))).
  { rewrite allpins_app. f_equal. unfold allpins; simpl. rewrite app_nil_r.
    apply (join_pins K _ _ _ _ HJ). }
  rewrite Hall.
  assert (HinC : forall p, In p (keep xs (l_pins A) ++ keep ys (l_pins B)) ->
                           In p (l_pins A) \/ In p (l_pins B)).
  { intros p Hp. apply in_app_or in Hp. destruct Hp as [Hp|Hp]; apply keep_In in Hp; tauto. }
  split; [|split].
  - apply NoDup_app_intro.
    + apply NoDup_app_r in Hnd'. apply NoDup_app_r in Hnd'. exact Hnd'.
    + apply NoDup_app_intro.
      * apply NoDup_filter. apply NoDup_app_l in Hnd'. exact Hnd'.
      * apply NoDup_filter. apply NoDup_app_r in Hnd'. apply NoDup_app_l in Hnd'. exact Hnd'.
      * intros p Hp Hq. apply keep_In in Hp. apply keep_In in Hq.
        apply (NoDup_app_disj _ _ p Hnd'); [tauto|]. apply in_or_app. left. tauto.
    + intros p Hp Hq. destruct (HinC p Hq) as [Hq'|Hq'].
      * apply (NoDup_app_disj _ _ p Hnd'); [exact Hq'|]. apply in_or_app. right. exact Hp.
      * apply NoDup_app_r in Hnd'. apply (NoDup_app_disj _ _ p Hnd'); [exact Hq'|exact Hp].
  - intros p Hp. apply (Permutation_in _ (Permutation_sym HP)).
    apply in_app_or in Hp. destruct Hp as [Hp|Hp].
    + apply in_or_app. right. apply in_or_app. right. exact Hp.
    + destruct (HinC p Hp); [apply in_or_app; left; assumption|].
      apply in_or_app. right. apply in_or_app. left. assumption.
  - intros p Hp Hnone. apply (Permutation_in _ HP) in Hp.
    assert (Hx : ~ In p xs /\ ~ In p ys).
    { split; intros Hc; apply (links_partner_some cs A B p); auto. }
    apply in_app_or in Hp. destruct Hp as [Hp|Hp].
    + apply in_or_app. right. apply in_or_app. left. apply keep_In. tauto.
    + apply in_app_or in Hp. destruct Hp as [Hp|Hp].
      * apply in_or_app. right. apply in_or_app. right. apply keep_In. tauto.
      * apply in_or_app. left. exact Hp.
Qed.

(* ---- one step backwards: extend the waves to the eliminated pins ---- *)
Lemma merge_step_complete cs (live live' : list (lst K)) ij a b :
  NoDup (conn_ends cs) -> NoDup (allpins live) ->
  merge_step cs live ij = Ok live' ->
  (forall L, In L live' -> Sem L a b) -> E2on cs (allpins live') a b ->
  exists a' b',
    (forall L, In L live -> Sem L a' b') /\ E2on cs (allpins live) a' b' /\
    (forall x, partner cs x = None -> a' x = a x).
Proof.
  intros Hce Hnd H Hsem HE2.
  destruct (merge_step_inv _ _ _ _ H) as (A & B & C & rest & Hperm & HJ & ->).
  pose proof (allpins_perm _ _ Hperm) as HP. unfold allpins in HP; simpl in HP. fold (allpins rest) in HP.
  assert (Hnd' : NoDup (l_pins A ++ l_pins B ++ allpins rest)).
  { eapply Permutation_NoDup; [exact HP | exact Hnd]. }
  pose proof (join_pins K _ _ _ _ HJ) as HCp.
  apply join_inv in HJ. cbv zeta in HJ.
  set (lk := links cs A B) in *. set (xs := map fst lk) in *. set (ys := map snd lk) in *.
  destruct HJ as (_ & Hndy & P & HP' & EC).
  assert (HndA : NoDup (l_pins A)) by (apply NoDup_app_l in Hnd'; exact Hnd').
  assert (HndB : NoDup (l_pins B)) by (apply NoDup_app_r in Hnd'; apply NoDup_app_l in Hnd'; exact Hnd').
  assert (Hndx : NoDup xs) by (apply (links_fst_nodup K); exact HndA).
  set (Ain := keep xs (l_pins A)) in *. set (Bout := keep ys (l_pins B)) in *.
  assert (PermA : Permutation (l_pins A) (Ain ++ xs)).
  { apply keep_perm; [exact HndA | exact Hndx | apply (links_fst_sub K)]. }
  assert (PermB : Permutation (l_pins B) (ys ++ Bout)).
  { eapply Permutation_trans; [|apply Permutation_app_comm].
    apply keep_perm; [exact HndB | exact Hndy | apply (links_snd_sub K)]. }
  assert (Lxy : length xs = length ys) by (unfold xs, ys; rewrite !map_length; reflexivity).
  assert (Llk : length xs = length lk) by (unfold xs; rewrite map_length; reflexivity).
  assert (HxA : forall p, In p xs -> In p (l_pins A)) by (apply (links_fst_sub K)).
  assert (HyB : forall p, In p ys -> In p (l_pins B)) by (apply (links_snd_sub K)).
  assert (DisjAB : forall p, In p (l_pins A) -> In p (l_pins B) -> False).
  { intros p HA HB. apply (NoDup_app_disj _ _ p Hnd' HA). apply in_or_app. left. exact HB. }
  assert (DisjR : forall p, In p (allpins rest) -> ~ In p (l_pins A) /\ ~ In p (l_pins B)).
  { intros p Hr. split; intros Hc.
    - apply (NoDup_app_disj _ _ p Hnd' Hc). apply in_or_app. right. exact Hr.
    - apply NoDup_app_r in Hnd'. apply (NoDup_app_disj _ _ p Hnd' Hc Hr). }
  (* Sem C gives the outputs of the joined partitioned matrix *)
  assert (HC : Sem C a b) by (apply Hsem; apply in_or_app; right; left; reflexivity).
  destruct (sadd_shape K KL _ _ _ HP') as [EN EM]. rewrite (part_N K) in EN. rewrite (part_M K) in EM.
  rewrite EC in HC.
  destruct (Sem_assemble_inv P Ain Bout a b EN EM HC) as [OL OR].
  set (aL := fun i => a (nth i Ain dpin)) in *. set (aR := fun i => a (nth i Bout dpin)) in *.
  destruct (sadd_complete K KL _ _ _ aL aR HP') as (xv & yv & (Q1 & Q2 & Q3 & Q4)).
  rewrite (part_N K), (part_M K) in Q1, Q2. rewrite (part_N K), (part_M K) in Q3, Q4.
  (* the extended waves *)
  set (a' := fun p => if mem p xs then yv (pos p xs) else if mem p ys then xv (pos p ys) else a p).
  set (b' := fun p => if mem p xs then xv (pos p xs) else if mem p ys then yv (pos p ys) else b p).
  assert (Hxy : forall p, In p xs -> In p ys -> False).
  { intros p Hx Hy. apply (DisjAB p); auto. }
  assert (a'_xs : forall j, (j < length xs)%nat -> a' (nth j xs dpin) = yv j).
  { intros j Hj. unfold a'. assert (Hin : In (nth j xs dpin) xs) by (apply nth_In; exact Hj).
    apply mem_In in Hin. rewrite Hin. rewrite pos_nth by assumption. reflexivity. }
  assert (b'_xs : forall j, (j < length xs)%nat -> b' (nth j xs dpin) = xv j).
  { intros j Hj. unfold b'. assert (Hin : In (nth j xs dpin) xs) by (apply nth_In; exact Hj).
    apply mem_In in Hin. rewrite Hin. rewrite pos_nth by assumption. reflexivity. }
  assert (a'_ys : forall j, (j < length ys)%nat -> a' (nth j ys dpin) = xv j).
  { intros j Hj. unfold a'. assert (Hin : In (nth j ys dpin) ys) by (apply nth_In; exact Hj).
    assert (Hn : mem (nth j ys dpin) xs = false) by (apply mem_nIn; intros Hc; exact (Hxy _ Hc Hin)).
    rewrite Hn. apply mem_In in Hin. rewrite Hin. rewrite pos_nth by assumption. reflexivity. }
  assert (b'_ys : forall j, (j < length ys)%nat -> b' (nth j ys dpin) = yv j).
  { intros j Hj. unfold b'. assert (Hin : In (nth j ys dpin) ys) by (apply nth_In; exact Hj).
    assert (Hn : mem (nth j ys dpin) xs = false) by (apply mem_nIn; intros Hc; exact (Hxy _ Hc Hin)).
    rewrite Hn. apply mem_In in Hin. rewrite Hin. rewrite pos_nth by assumption. reflexivity. }
  assert (same : forall p, ~ In p xs -> ~ In p ys -> a' p = a p /\ b' p = b p).
  { intros p Hx Hy. unfold a', b'. apply mem_nIn in Hx. apply mem_nIn in Hy. rewrite Hx, Hy. auto. }
  assert (same_Ain : forall j, (j < length Ain)%nat ->
            a' (nth j Ain dpin) = a (nth j Ain dpin) /\ b' (nth j Ain dpin) = b (nth j Ain dpin)).
  { intros j Hj. assert (Hin : In (nth j Ain dpin) Ain) by (apply nth_In; exact Hj).
    apply keep_In in Hin. apply same; [tauto|]. intros Hc. apply (DisjAB (nth j Ain dpin)); [tauto|auto]. }
  assert (same_Bout : forall j, (j < length Bout)%nat ->
            a' (nth j Bout dpin) = a (nth j Bout dpin) /\ b' (nth j Bout dpin) = b (nth j Bout dpin)).
  { intros j Hj. assert (Hin : In (nth j Bout dpin) Bout) by (apply nth_In; exact Hj).
    apply keep_In in Hin. apply same; [|tauto]. intros Hc. apply (DisjAB (nth j Bout dpin)); [auto|tauto]. }
  exists a', b'. split; [|split].
  - (* every structure of the earlier list obeys its equations *)
    intros L HL. apply (Permutation_in _ Hperm) in HL. destruct HL as [<-|[<-|HL]].
    + (* A *)
      apply (Sem_of_rows A a' b' Ain xs HndA PermA).
      * intros i Hi. cbv beta. destruct (same_Ain i Hi) as [_ ->]. rewrite (OL i Hi), (Q1 i Hi).
        unfold vadd.
        rewrite (mv_cong K KL (length Ain) _ (fun i0 => a' (nth i0 Ain dpin)) aL i).
        2:{ intros j Hj. destruct (same_Ain j Hj) as [-> _]. reflexivity. }
        rewrite (mv_cong K KL (length xs) _ (fun i0 => a' (nth i0 xs dpin)) yv i).
        2:{ intros j Hj. rewrite a'_xs by exact Hj. reflexivity. }
        reflexivity.
      * intros i Hi. cbv beta. rewrite b'_xs by exact Hi. rewrite (Q2 i Hi). unfold vadd.
        rewrite (mv_cong K KL (length Ain) _ (fun i0 => a' (nth i0 Ain dpin)) aL i).
        2:{ intros j Hj. destruct (same_Ain j Hj) as [-> _]. reflexivity. }
        rewrite (mv_cong K KL (length xs) _ (fun i0 => a' (nth i0 xs dpin)) yv i).
        2:{ intros j Hj. rewrite a'_xs by exact Hj. reflexivity. }
        reflexivity.
    + (* B *)
      apply (Sem_of_rows B a' b' ys Bout HndB PermB).
      * intros i Hi. cbv beta. rewrite b'_ys by exact Hi. rewrite (Q3 i Hi). unfold vadd.
        rewrite (mv_cong K KL (length ys) _ (fun i0 => a' (nth i0 ys dpin)) xv i).
        2:{ intros j Hj. rewrite a'_ys by exact Hj. reflexivity. }
        rewrite (mv_cong K KL (length Bout) _ (fun i0 => a' (nth i0 Bout dpin)) aR i).
        2:{ intros j Hj. destruct (same_Bout j Hj) as [-> _]. reflexivity. }
        reflexivity.
      * intros i Hi. cbv beta. destruct (same_Bout i Hi) as [_ ->]. rewrite (OR i Hi), (Q4 i Hi).
        unfold vadd.
        rewrite (mv_cong K KL (length ys) _ (fun i0 => a' (nth i0 ys dpin)) xv i).
        2:{ intros j Hj. rewrite a'_ys by exact Hj. reflexivity. }
        rewrite (mv_cong K KL (length Bout) _ (fun i0 => a' (nth i0 Bout dpin)) aR i).
        2:{ intros j Hj. destruct (same_Bout j Hj) as [-> _]. reflexivity. }
        reflexivity.
    + (* untouched structures *)
      apply (Sem_ext L a b a' b').
      * intros p Hp. assert (Hr : In p (allpins rest)) by (eapply (allpins_In K); eassumption).
        destruct (DisjR p Hr) as [NA NB].
        destruct (same p) as [-> ->]; [intros Hc; apply NA; auto | intros Hc; apply NB; auto |].
        split; reflexivity.
      * apply Hsem. apply in_or_app. left. exact HL.
  - (* the link equations on all pins of the earlier list *)
    intros x y Hin Hx Hy.
    destruct (partner_of_In cs x y Hce Hin) as [Pxy Pyx].
    assert (idx : forall p q, In p xs -> partner cs p = Some q ->
              exists j, (j < length xs)%nat /\ p = nth j xs dpin /\ q = nth j ys dpin).
    { intros p q Hp Hpq. apply (In_nth _ _ dpin) in Hp. destruct Hp as (j & Hj & Ej).
      exists j. split; [exact Hj|]. split; [symmetry; exact Ej|].
      pose proof (links_nth K cs A B j) as LN. fold lk xs ys in LN. rewrite <- Llk in LN.
      specialize (LN Hj). rewrite Ej in LN. congruence. }
    destruct (in_dec spin_dec x xs) as [Hxx|Hxx].
    { destruct (idx x y Hxx Pxy) as (j & Hj & -> & ->).
      rewrite a'_xs, b'_xs by exact Hj. rewrite a'_ys, b'_ys by (rewrite <- Lxy; exact Hj).
      split; reflexivity. }
    destruct (in_dec spin_dec y xs) as [Hyx|Hyx].
    { destruct (idx y x Hyx Pyx) as (j & Hj & -> & ->).
      rewrite a'_xs, b'_xs by exact Hj. rewrite a'_ys, b'_ys by (rewrite <- Lxy; exact Hj).
      split; reflexivity. }
    assert (nys : forall p q, In p ys -> partner cs p = Some q -> In q xs).
    { intros p q Hp Hpq. apply (In_nth _ _ dpin) in Hp. destruct Hp as (j & Hj & Ej).
      pose proof (links_nth K cs A B j) as LN. fold lk xs ys in LN. rewrite <- Llk, Lxy in LN.
      specialize (LN Hj). rewrite Ej in LN. apply (partner_sym cs _ _ Hce) in LN.
      rewrite LN in Hpq. injection Hpq as <-. apply nth_In. rewrite Lxy. exact Hj. }
    assert (Hxy' : ~ In x ys) by (intros Hc; apply Hyx; apply (nys x y Hc Pxy)).
    assert (Hyy' : ~ In y ys) by (intros Hc; apply Hxx; apply (nys y x Hc Pyx)).
    destruct (same x Hxx Hxy') as [-> ->]. destruct (same y Hyx Hyy') as [-> ->].
    (* both pins survive the step *)
    assert (surv : forall p, In p (allpins live) -> ~ In p xs -> ~ In p ys ->
                             In p (allpins (rest ++ [C]))).
    { intros p Hp Hpx Hpy. apply (Permutation_in _ HP) in Hp.
      rewrite allpins_app. unfold allpins at 2; simpl. rewrite app_nil_r. rewrite HCp. fold lk xs ys Ain Bout.
      apply in_app_or in Hp. destruct Hp as [Hp|Hp].
      - apply in_or_app. right. apply in_or_app. left. apply keep_In. tauto.
      - apply in_app_or in Hp. destruct Hp as [Hp|Hp].
        + apply in_or_app. right. apply in_or_app. right. apply keep_In. tauto.
        + apply in_or_app. left. exact Hp. }
    apply HE2; [exact Hin | apply surv; assumption | apply surv; assumption].
  - intros x Hn.
    destruct (same x) as [E _]; [| |exact E]; intros Hc; apply (links_partner_some cs A B x); auto.
Qed.

(* ---- the whole loop backwards ---- *)
Lemma solve_sched_pins cs sched : forall (live live' : list (lst K)),
  solve_sched cs live sched = Ok live' -> NoDup (allpins live) ->
  NoDup (allpins live') /\
  (forall p, In p (allpins live') -> In p (allpins live)) /\
  (forall p, In p (allpins live) -> partner cs p = None -> In p (allpins live')).
Proof.
  induction sched as [|ij rest IH]; intros live live' H Hnd; simpl in H.
  - injection H as <-. auto.
  - apply bind_ok in H. destruct H as (live1 & H1 & H2).
    destruct (merge_step_pins _ _ _ _ H1 Hnd) as (N1 & S1 & K1).
    destruct (IH _ _ H2 N1) as (N2 & S2 & K2). split; [exact N2|]. split.
    + intros p Hp. apply S1, S2, Hp.
    + intros p Hp Hn. apply K2; [apply K1; assumption | exact Hn].
Qed.

Lemma solve_sched_complete cs sched : forall (live live' : list (lst K)) a b,
  NoDup (conn_ends cs) -> NoDup (allpins live) ->
  solve_sched cs live sched = Ok live' ->
  (forall L, In L live' -> Sem L a b) -> E2on cs (allpins live') a b ->
  exists a' b',
    (forall L, In L live -> Sem L a' b') /\ E2on cs (allpins live) a' b' /\
    (forall x, partner cs x = None -> a' x = a x).
Proof.
  induction sched as [|ij rest IH]; intros live live' a b Hce Hnd H Hsem HE2; simpl in H.
  - injection H as <-. exists a, b. auto.
  - apply bind_ok in H. destruct H as (live1 & H1 & H2).
    destruct (merge_step_pins _ _ _ _ H1 Hnd) as (N1 & _ & _).
    destruct (IH live1 live' a b Hce N1 H2 Hsem HE2) as (a1 & b1 & S1 & E1 & A1).
    destruct (merge_step_complete cs live live1 ij a1 b1 Hce Hnd H1 S1 E1) as (a2 & b2 & S2 & E2' & A2).
    exists a2, b2. split; [exact S2|]. split; [exact E2'|].
    intros x Hx. rewrite (A2 x Hx). apply A1. exact Hx.
Qed.

(* ---- existence: for every excitation the network equations have a solution ---- *)
Theorem solve_complete (net : netlist K) sched T (u : waves K) :
  solve net sched = Ok T -> exists a b, wave_solution net u a b.
Proof.
  intros H. apply (solve_inv K) in H. destruct H as (Hce & Hs & Hfree & Hnd & Hends).
  set (cs := conns net) in *. set (live0 := comps net) in *.
  destruct (solve_sched_pins cs sched live0 [T] Hs Hnd) as (NT & _ & _).
  unfold allpins in NT; simpl in NT. rewrite app_nil_r in NT.
  set (n := length (l_pins T)).
  set (a0 := ext (expo net) u).
  set (b0 := fun p => bigsum n (fun j => l_S T (pos p (l_pins T)) j * a0 (nth j (l_pins T) dpin))).
  assert (ST : forall L, In L [T] -> Sem L a0 b0).
  { intros L [<-|[]]. intros i Hi. unfold b0. rewrite pos_nth by assumption. reflexivity. }
  assert (ET : E2on cs (allpins [T]) a0 b0).
  { intros x y Hin Hx _. unfold allpins in Hx; simpl in Hx. rewrite app_nil_r in Hx.
    exfalso. destruct (partner_None cs x (Hfree x Hx) _ Hin) as [Hc _]. apply Hc. reflexivity. }
  destruct (solve_sched_complete cs sched live0 [T] a0 b0 Hce Hnd Hs ST ET) as (a & b & S0 & E0 & A0).
  exists a, b. split; [|split].
  - intros L HL. apply S0. exact HL.
  - intros x y Hin. destruct (In_conn_ends _ _ _ Hin) as [Hx Hy].
    apply E0; [exact Hin | apply Hends; exact Hx | apply Hends; exact Hy].
  - intros x _ Hx. rewrite (A0 x Hx). reflexivity.
Qed.

(* the pins of the result are exactly the unconnected pins of the components *)
Theorem solve_pins (net : netlist K) sched T :
  solve net sched = Ok T ->
  NoDup (l_pins T) /\
  forall p, In p (l_pins T) <->
            In p (allpins (comps net)) /\ partner (conns net) p = None.
Proof.
  intros H. apply (solve_inv K) in H. destruct H as (Hce & Hs & Hfree & Hnd & Hends).
  destruct (solve_sched_pins _ sched _ [T] Hs Hnd) as (NT & Sub & Keep).
  unfold allpins in NT, Sub, Keep; simpl in NT, Sub, Keep. rewrite app_nil_r in NT, Sub, Keep.
  split; [exact NT|]. intros p. split.
  - intros Hp. split; [apply Sub; exact Hp | apply Hfree; exact Hp].
  - intros [Hp Hn]. apply Keep; assumption.
Qed.

(* ---- the result does not depend on the schedule ---- *)
Lemma solve_expo_irrelevant (net : netlist K) ex sched :
  solve {| comps := comps net; conns := conns net; expo := ex |} sched = solve net sched.
Proof. reflexivity. Qed.

Theorem schedule_independent (net : netlist K) s1 s2 T1 T2 :
  solve net s1 = Ok T1 -> solve net s2 = Ok T2 ->
  (forall p, In p (l_pins T1) <-> In p (l_pins T2)) /\
  forall p q, In p (l_pins T1) -> In q (l_pins T1) -> coeff T1 p q == coeff T2 p q.
Proof.
  intros H1 H2.
  destruct (solve_pins net s1 T1 H1) as [N1 P1]. destruct (solve_pins net s2 T2 H2) as [N2 P2].
  split; [intros p; rewrite P1, P2; reflexivity|].
  intros p q Hp Hq.
  set (net' := {| comps := comps net; conns := conns net; expo := [q] |}).
  assert (H1' : solve net' s1 = Ok T1) by exact H1.
  assert (H2' : solve net' s2 = Ok T2) by exact H2.
  destruct (solve_complete net' s1 T1 (fun _ => 1) H1') as (a & b & W).
  pose proof (solve_sound K KL net' s1 T1 H1' _ a b W) as R1.
  pose proof (solve_sound K KL net' s2 T2 H2' _ a b W) as R2.
  assert (Hp2 : In p (l_pins T2)) by (apply P2, P1; exact Hp).
  assert (Hq2 : In q (l_pins T2)) by (apply P2, P1; exact Hq).
  assert (col : forall T, NoDup (l_pins T) -> In p (l_pins T) -> In q (l_pins T) ->
            Sem T (ext [q] (fun _ => 1)) b -> b p == coeff T p q).
  { intros T NT HpT HqT R.
    pose proof (R (pos p (l_pins T)) (pos_lt _ _ HpT)) as E. rewrite nth_pos in E by exact HpT.
    rewrite E. unfold coeff.
    rewrite (bigsum_ext K KL _ _ (fun j => l_S T (pos p (l_pins T)) j
                                           * (if Nat.eqb j (pos q (l_pins T)) then 1 else 0))).
    2:{ intros j Hj. unfold ext. simpl.
        destruct (spin_eqb_spec q (nth j (l_pins T) dpin)) as [Eq|Eq]; simpl.
        - rewrite Eq, pos_nth by assumption. rewrite Nat.eqb_refl. reflexivity.
        - destruct (Nat.eqb_spec j (pos q (l_pins T))) as [->|_]; [|reflexivity].
          exfalso. apply Eq. rewrite nth_pos by exact HqT. reflexivity. }
    apply (bigsum_delta_r K KL). apply pos_lt. exact HqT. }
  rewrite <- (col T1 N1 Hp Hq R1). apply (col T2 N2 Hp2 Hq2 R2).
Qed.

(* ---- the result depends only on the circuit, not on how it was declared ---- *)
Definition with_expo (net : netlist K) (ex : list spin) : netlist K :=
  {| comps := comps net; conns := conns net; expo := ex |}.

Theorem result_determined (net net' : netlist K) s1 s2 T1 T2 :
  solve net s1 = Ok T1 -> solve net' s2 = Ok T2 ->
  (forall ex u a b, wave_solution (with_expo net ex) u a b -> wave_solution (with_expo net' ex) u a b) ->
  forall p q, In p (l_pins T1) -> In q (l_pins T1) -> In p (l_pins T2) -> In q (l_pins T2) ->
    coeff T1 p q == coeff T2 p q.
Proof.
  intros H1 H2 HW p q Hp Hq Hp2 Hq2.
  destruct (solve_pins net s1 T1 H1) as [N1 _]. destruct (solve_pins net' s2 T2 H2) as [N2 _].
  assert (H1' : solve (with_expo net [q]) s1 = Ok T1) by exact H1.
  assert (H2' : solve (with_expo net' [q]) s2 = Ok T2) by exact H2.
  destruct (solve_complete (with_expo net [q]) s1 T1 (fun _ => 1) H1') as (a & b & W).
  pose proof (solve_sound K KL _ s1 T1 H1' _ a b W) as R1.
  pose proof (solve_sound K KL _ s2 T2 H2' _ a b (HW _ _ _ _ W)) as R2.
  assert (col : forall T, NoDup (l_pins T) -> In p (l_pins T) -> In q (l_pins T) ->
            Sem T (ext [q] (fun _ => 1)) b -> b p == coeff T p q).
  { intros T NT HpT HqT R.
    pose proof (R (pos p (l_pins T)) (pos_lt _ _ HpT)) as E. rewrite nth_pos in E by exact HpT.
    rewrite E. unfold coeff.
    rewrite (bigsum_ext K KL _ _ (fun j => l_S T (pos p (l_pins T)) j
                                           * (if Nat.eqb j (pos q (l_pins T)) then 1 else 0))).
    2:{ intros j Hj. unfold ext. simpl.
        destruct (spin_eqb_spec q (nth j (l_pins T) dpin)) as [Eq|Eq]; simpl.
        - rewrite Eq, pos_nth by assumption. rewrite Nat.eqb_refl. reflexivity.
        - destruct (Nat.eqb_spec j (pos q (l_pins T))) as [->|_]; [|reflexivity].
          exfalso. apply Eq. rewrite nth_pos by exact HqT. reflexivity. }
    apply (bigsum_delta_r K KL). apply pos_lt. exact HqT. }
  rewrite <- (col T1 N1 Hp Hq R1). apply (col T2 N2 Hp2 Hq2 R2).
Qed.

(* two declarations of the same circuit: components in any order, connections in any order and
   either orientation, exposed pins in any order *)
Definition same_conns (cs cs' : list conn) : Prop :=
  forall x y, In (x, y) cs -> In (x, y) cs' \/ In (y, x) cs'.

Definition same_circuit (net net' : netlist K) : Prop :=
  Permutation (comps net) (comps net') /\
  same_conns (conns net) (conns net') /\ same_conns (conns net') (conns net) /\
  (forall x, In x (expo net) <-> In x (expo net')).

Lemma partner_none_iff cs x : partner cs x = None <-> forall c, In c cs -> fst c <> x /\ snd c <> x.
Proof.
  split; [apply partner_None|].
  intros H. destruct (partner cs x) as [y|] eqn:E; [|reflexivity].
  exfalso. destruct (partner_In cs x y E) as [Hin|Hin]; destruct (H _ Hin) as [H1 H2]; simpl in *; congruence.
Qed.

Lemma mem_ext (l l' : list spin) x : (forall y, In y l <-> In y l') -> mem x l = mem x l'.
Proof.
  intros H. destruct (mem x l) eqn:E, (mem x l') eqn:E'; try reflexivity.
  - apply mem_In in E. apply H in E. apply mem_In in E. congruence.
  - apply mem_In in E'. apply H in E'. apply mem_In in E'. congruence.
Qed.

Lemma same_circuit_waves (net net' : netlist K) u a b :
  same_circuit net net' -> wave_solution net u a b -> wave_solution net' u a b.
Proof.
  intros (HC & HS & HS' & HE) (E1 & E2 & E3). split; [|split].
  - intros c Hc. apply E1. eapply Permutation_in; [apply Permutation_sym; exact HC | exact Hc].
  - intros x y Hin. destruct (HS' x y Hin) as [H|H].
    + apply E2. exact H.
    + destruct (E2 y x H). split; assumption.
  - intros x Hin Hx. unfold ext. rewrite <- (mem_ext (expo net) (expo net') x HE). apply E3.
    + eapply Permutation_in; [apply Permutation_sym; apply allpins_perm; exact HC | exact Hin].
    + apply partner_none_iff. intros [p q] Hc. destruct (HS p q Hc) as [H|H];
        apply (partner_None _ _ Hx) in H; simpl in *; tauto.
Qed.

Theorem declaration_independent (net net' : netlist K) s1 s2 T1 T2 :
  same_circuit net net' -> solve net s1 = Ok T1 -> solve net' s2 = Ok T2 ->
  forall p q, In p (l_pins T1) -> In q (l_pins T1) -> In p (l_pins T2) -> In q (l_pins T2) ->
    coeff T1 p q == coeff T2 p q.
Proof.
  intros HSC H1 H2. apply (result_determined net net' s1 s2 T1 T2 H1 H2).
  intros ex u a b. apply same_circuit_waves.
  destruct HSC as (HC & HS & HS' & _). repeat split; try assumption; tauto.
Qed.

End Complete.
