(* Readout.v — the read-out helpers of Model / SolvedModel (model.py:201-329, 513-616) as linear
   views of the scattering matrix (C15).  S[i,j] = amplitude leaving pin i per unit amplitude
   entering pin j; [pd] maps a pin to its matrix index. *)
From Coq Require Import List Arith Lia Bool Setoid Morphisms Field Ring.
From Lekkersim Require Import Field Matrix Base Network.
Import ListNotations.

Section Readout.
Variable K : cfield.
Hypothesis KL : cfield_laws K.

Notation "0" := (f0 K).
Infix "+" := (fadd K).
Infix "*" := (fmul K).
Infix "==" := (feq K) (at level 70).
Add Field Kfield9 : (F_ft K KL) (setoid (feq_equiv K KL) (F_ext K KL)).

(* a solved model at one sweep point: pins (in pin_dic order), their indices, the matrix *)
Record smodel := { sm_pins : list spin; sm_idx : spin -> nat; sm_n : nat; sm_S : mx K }.

Definition get_A (m : smodel) (p q : spin) : K := sm_S m (sm_idx m p) (sm_idx m q).
Definition get_T (m : smodel) (p q : spin) : K := get_A m p q * fconj K (get_A m p q).

(* the excitation vector: the amplitude given for the pin with index i, 0 for pins not mentioned *)
Definition exc_vec (m : smodel) (u : list (spin * K)) : vec K :=
  fun i => match find (fun e => Nat.eqb (sm_idx m (fst e)) i) u with Some e => snd e | None => 0 end.

(* get_output(power=False): the amplitude leaving every pin *)
Definition get_output (m : smodel) (u : list (spin * K)) : list (spin * K) :=
  map (fun p => (p, mv (sm_n m) (sm_S m) (exc_vec m u) (sm_idx m p))) (sm_pins m).
Definition get_output_power (m : smodel) (u : list (spin * K)) : list (spin * K) :=
  map (fun pv => (fst pv, snd pv * fconj K (snd pv))) (get_output m u).

(* sweep tables: row k is the read-out of point k *)
Definition full_output (ms : list smodel) (u : list (spin * K)) : list (list (spin * K)) :=
  map (fun m => get_output m u) ms.
Definition data_table (ms : list smodel) (p q : spin) : list (K * K) :=
  map (fun m => (get_T m p q, get_A m p q)) ms.

(* ---- theorems ---- *)
(* the reported outputs are S.u *)
Theorem output_is_Su m u p : In p (sm_pins m) ->
  In (p, mv (sm_n m) (sm_S m) (exc_vec m u) (sm_idx m p)) (get_output m u).
Proof. intros H. unfold get_output. apply in_map_iff. exists p. auto. Qed.

(* superposition: the output of a sum of excitations is the sum of the outputs, and scaling *)
Theorem output_linear m (x y : vec K) c i :
  mv (sm_n m) (sm_S m) (vadd x y) i == mv (sm_n m) (sm_S m) x i + mv (sm_n m) (sm_S m) y i /\
  mv (sm_n m) (sm_S m) (fun j => c * x j) i == c * mv (sm_n m) (sm_S m) x i.
Proof.
  split; [apply (mv_vadd K KL)|]. unfold mv. rewrite <- (bigsum_scal_l K KL).
  apply (bigsum_ext K KL). intros; ring.
Qed.

(* a single unit excitation at q reads out column q: get_A *)
Theorem output_unit m p q : (sm_idx m q < sm_n m)%nat ->
  mv (sm_n m) (sm_S m) (basis (sm_idx m q)) (sm_idx m p) == get_A m p q.
Proof. intros H. unfold get_A. apply (mv_basis K KL). exact H. Qed.

Theorem power_is_sqmod m u :
  get_output_power m u = map (fun pv => (fst pv, snd pv * fconj K (snd pv))) (get_output m u).
Proof. reflexivity. Qed.

Theorem table_row_k ms u k d d' : (k < length ms)%nat ->
  nth k (full_output ms u) d' = get_output (nth k ms d) u.
Proof.
  intros H. unfold full_output.
  rewrite nth_indep with (d' := get_output d u) by (rewrite map_length; exact H).
  apply (map_nth (fun m => get_output m u)).
Qed.

Theorem data_row_k ms p q k d d' : (k < length ms)%nat ->
  nth k (data_table ms p q) d' = (get_T (nth k ms d) p q, get_A (nth k ms d) p q).
Proof.
  intros H. unfold data_table.
  rewrite nth_indep with (d' := (get_T d p q, get_A d p q)) by (rewrite map_length; exact H).
  apply (map_nth (fun m => (get_T m p q, get_A m p q))).
Qed.

End Readout.

Arguments sm_pins {K}. Arguments sm_idx {K}. Arguments sm_n {K}. Arguments sm_S {K}.
Arguments get_A {K}. Arguments get_T {K}. Arguments exc_vec {K}. Arguments get_output {K}.
Arguments get_output_power {K}. Arguments full_output {K}. Arguments data_table {K}.
