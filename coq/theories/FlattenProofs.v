(* FlattenProofs.v — the renaming flatten() installs on a lifted structure delivers, for every
   parameter name that is not itself introduced by a renaming, exactly what the two nested
   placements delivered (C11, parameter half). *)
From Coq Require Import List Arith Lia Bool QArith Permutation.
From Lekkersim Require Import Params ParamsProofs Flatten SolveProofs.
Import ListNotations.

Lemma lookup_new_In n b m : lookup_new n m = Some b -> In (n, b) m.
Proof.
  induction m as [|[n' o] r IH]; simpl; [discriminate|].
  destruct (Nat.eqb_spec n' n) as [->|_]; [intros H; injection H as <-; auto | auto].
Qed.

Lemma In_lookup_new n b m : NoDup (news m) -> In (n, b) m -> lookup_new n m = Some b.
Proof.
  unfold news. induction m as [|[n' o] r IH]; intros Hnd Hin; [destruct Hin|]. simpl in *.
  inversion Hnd as [|? ? Hn Hr]; subst. destruct Hin as [E|Hin].
  - injection E as -> ->. rewrite Nat.eqb_refl. reflexivity.
  - destruct (Nat.eqb_spec n' n) as [->|_]; [|apply IH; assumption].
    exfalso. apply Hn. apply in_map_iff. exists (n, b). auto.
Qed.

Lemma lookup_new_None n m : lookup_new n m = None -> ~ In n (news m).
Proof.
  unfold news. induction m as [|[n' o] r IH]; simpl; [tauto|].
  destruct (Nat.eqb_spec n' n) as [->|Hne]; [discriminate|]. intros H [E|Hin]; [congruence | exact (IH H Hin)].
Qed.

Section Compose.
Variables st low : rmap.
Hypothesis Hyg : hygienic st low.

Let g := fun tm : nat * nat =>
  match lookup_new (snd tm) low with
  | Some b => [(fst tm, b)]
  | None => if inl (fst tm) (news low) || inl (snd tm) (olds low) then [] else [(fst tm, snd tm)]
  end.

Lemma in_g t m x y : In (x, y) (g (t, m)) ->
  x = t /\ ((In (m, y) low) \/ (y = m /\ ~ In m (news low) /\ ~ In m (olds low) /\ ~ In t (news low))).
Proof.
  unfold g; simpl. destruct (lookup_new m low) as [b|] eqn:E.
  - intros [H|[]]. injection H as <- <-. split; [reflexivity|]. left. apply lookup_new_In. exact E.
  - destruct (inl t (news low) || inl m (olds low)) eqn:E2; [intros []|].
    intros [H|[]]. injection H as <- <-. split; [reflexivity|]. right.
    apply orb_false_iff in E2. destruct E2 as [E3 E4].
    split; [reflexivity|]. split; [apply lookup_new_None; exact E|].
    split; intros Hc; apply inl_In in Hc; congruence.
Qed.

Lemma olds_U_spec (l : rmap) y : In y (olds (flat_map g l)) ->
  exists t m, In (t, m) l /\ (In (m, y) low \/ (y = m /\ ~ In m (olds low))).
Proof.
  intros H. apply in_map_iff in H. destruct H as ([x y'] & E & H). simpl in E. subst y'.
  apply in_flat_map in H. destruct H as ([t m] & Hin & Hg). apply in_g in Hg.
  destruct Hg as [_ [H|(H1 & _ & H3 & _)]]; exists t, m; split; auto.
Qed.

Lemma NoDup_olds_U : forall l : rmap, NoDup (olds l) -> NoDup (olds (flat_map g l)).
Proof.
  destruct Hyg as (_ & _ & HndL & _ & _).
  induction l as [|[t m] r IH]; intros Hnd; simpl; [constructor|].
  unfold olds in Hnd; simpl in Hnd. inversion Hnd as [|? ? Hm Hr]; subst.
  unfold olds. rewrite map_app. fold (olds (g (t, m))). fold (olds (flat_map g r)).
  apply NoDup_app_intro; [| apply IH; exact Hr |].
  - unfold g; simpl. destruct (lookup_new m low); [repeat constructor; intros []|].
    destruct (_ || _); [constructor | repeat constructor; intros []].
  - intros y Hy1 Hy2.
    apply in_map_iff in Hy1. destruct Hy1 as ([x y'] & E & Hy1). simpl in E. subst y'.
    apply in_g in Hy1. destruct Hy1 as [_ Hy1].
    destruct (olds_U_spec r y Hy2) as (t' & m' & Hin' & Hy2').
    assert (Hmm : m <> m').
    { intros ->. apply Hm. apply in_map_iff. exists (t', m'). auto. }
    destruct Hy1 as [H1|(-> & _ & H1 & _)]; destruct Hy2' as [H2|(E2 & H2)].
    + (* (m,y) and (m',y) in low *)
      apply Hmm. clear -HndL H1 H2. unfold olds in HndL.
      induction low as [|[a b] l IHl]; [destruct H1|]. simpl in *. inversion HndL as [|? ? Hb Hl]; subst.
      destruct H1 as [E1|H1], H2 as [E2|H2].
      * congruence.
      * injection E1 as -> ->. exfalso. apply Hb. apply in_map_iff. exists (m', y). auto.
      * injection E2 as -> ->. exfalso. apply Hb. apply in_map_iff. exists (m, y). auto.
      * apply IHl; assumption.
    + subst y. apply H2. apply in_map_iff. exists (m, m'). auto.
    + apply H1. apply in_map_iff. exists (m', m). auto.
    + congruence.
Qed.

Lemma NoDup_olds_compose : NoDup (olds (compose_rmap st low)).
Proof.
  destruct Hyg as (HndS & _ & HndL & _ & _).
  unfold compose_rmap. fold g. unfold olds. rewrite map_app.
  apply NoDup_app_intro.
  - (* a sub-list of low *)
    clear -HndL. unfold olds in HndL. induction low as [|[n b] l IH]; simpl; [constructor|].
    inversion HndL as [|? ? Hb Hl]; subst. destruct (negb _); simpl; [|apply IH; exact Hl].
    constructor; [|apply IH; exact Hl]. intros Hc. apply Hb. apply in_map_iff in Hc.
    destruct Hc as ([n' b'] & E & Hc). simpl in E. subst b'. apply filter_In in Hc.
    apply in_map_iff. exists (n', b). tauto.
  - apply NoDup_olds_U. exact HndS.
  - intros y Hy1 Hy2. apply in_map_iff in Hy1. destruct Hy1 as ([n b] & E & Hy1). simpl in E. subst b.
    apply filter_In in Hy1. destruct Hy1 as [Hlow Hn]. simpl in Hn. apply negb_true_iff in Hn.
    destruct (olds_U_spec st y Hy2) as (t & m & Hin & [H|(-> & H)]).
    + (* (n,y) and (m,y) in low: n = m, but m is an old name of st *)
      assert (n = m).
      { clear -HndL Hlow H. unfold olds in HndL.
        induction low as [|[a b] l IHl]; [destruct H|]. simpl in *. inversion HndL as [|? ? Hb Hl]; subst.
        destruct Hlow as [E1|H1], H as [E2|H2].
        - congruence.
        - injection E1 as -> ->. exfalso. apply Hb. apply in_map_iff. exists (m, y). auto.
        - injection E2 as -> ->. exfalso. apply Hb. apply in_map_iff. exists (n, y). auto.
        - apply IHl; assumption. }
      subst n. assert (inl m (olds st) = true) by (apply inl_In; apply in_map_iff; exists (t, m); auto).
      unfold olds in *. congruence.
    + apply H. apply in_map_iff. exists (n, m). auto.
Qed.

Lemma In_compose x y : In (x, y) (compose_rmap st low) <->
  (In (x, y) low /\ ~ In x (olds st)) \/
  (exists m, In (x, m) st /\ In (x, y) (g (x, m))).
Proof.
  unfold compose_rmap. fold g. rewrite in_app_iff, filter_In, in_flat_map. simpl. split.
  - intros [[H1 H2]|([t m] & Hin & Hg)].
    + left. split; [exact H1|]. apply negb_true_iff in H2. intros Hc. apply inl_In in Hc. congruence.
    + right. destruct (in_g t m x y Hg) as [-> _]. exists m. auto.
  - intros [[H1 H2]|(m & Hin & Hg)].
    + left. split; [exact H1|]. apply negb_true_iff. destruct (inl x (olds st)) eqn:E; [|reflexivity].
      apply inl_In in E. contradiction.
    + right. exists (x, m). auto.
Qed.

(* THE composition law of flatten *)
Theorem flatten_compose d k :
  ~ In k (news st) -> ~ In k (news low) ->
  pget k (rename_shield (compose_rmap st low) d)
  = pget k (rename_shield low (rename_shield st d)).
Proof.
  intros Hks Hkl.
  destruct Hyg as (HndS & HndNS & HndL & HndNL & Hfresh).
  rewrite (rename_shield_spec _ d k NoDup_olds_compose).
  rewrite (rename_compose st low d k HndS HndL).
  assert (Ekl : inl k (news low) = false).
  { destruct (inl k (news low)) eqn:E; [apply inl_In in E; contradiction | reflexivity]. }
  unfold rename_spec at 1.
  (* news of the composite are news of low or of st *)
  assert (newsM : forall x, In x (news (compose_rmap st low)) -> In x (news low) \/ In x (news st)).
  { intros x Hx. apply in_map_iff in Hx. destruct Hx as ([x' y] & E & Hx). simpl in E. subst x'.
    apply In_compose in Hx. destruct Hx as [[H _]|(m & H & _)].
    - left. apply in_map_iff. exists (x, y). auto.
    - right. apply in_map_iff. exists (x, m). auto. }
  assert (EkM : inl k (news (compose_rmap st low)) = false).
  { destruct (inl k (news (compose_rmap st low))) eqn:E; [|reflexivity]. apply inl_In in E.
    destruct (newsM k E); contradiction. }
  destruct (new_of low k) as [n|] eqn:EL.
  - (* k is the target of an inner renaming n -> k *)
    pose proof (new_of_In _ _ _ EL) as HinL. unfold rename_spec.
    destruct (new_of st n) as [t|] eqn:ES.
    + pose proof (new_of_In _ _ _ ES) as HinS.
      assert (HM : In (t, k) (compose_rmap st low)).
      { apply In_compose. right. exists n. split; [exact HinS|]. unfold g; simpl.
        rewrite (In_lookup_new n k low HndNL HinL). left. reflexivity. }
      rewrite (In_new_of _ t k NoDup_olds_compose HM). reflexivity.
    + assert (Hno : ~ In n (olds st)) by (apply new_of_None; exact ES).
      assert (HM : In (n, k) (compose_rmap st low)) by (apply In_compose; left; auto).
      rewrite (In_new_of _ n k NoDup_olds_compose HM).
      assert (En : inl n (news st) = false).
      { destruct (inl n (news st)) eqn:E; [|reflexivity]. apply inl_In in E.
        exfalso. apply (proj1 (Hfresh n E)). apply in_map_iff. exists (n, k). auto. }
      rewrite En. reflexivity.
  - (* k is not renamed inside *)
    assert (HkoL : ~ In k (olds low)) by (apply new_of_None; exact EL).
    rewrite Ekl. unfold rename_spec.
    destruct (new_of st k) as [t|] eqn:ES.
    + pose proof (new_of_In _ _ _ ES) as HinS.
      assert (Ht : In t (news st)) by (apply in_map_iff; exists (t, k); auto).
      assert (HM : In (t, k) (compose_rmap st low)).
      { apply In_compose. right. exists k. split; [exact HinS|]. unfold g; simpl.
        destruct (lookup_new k low) as [b|] eqn:E.
        - exfalso. apply Hkl. apply in_map_iff. exists (k, b). split; [reflexivity | apply lookup_new_In; exact E].
        - assert (E1 : inl t (news low) = false).
          { destruct (inl t (news low)) eqn:E1; [|reflexivity]. apply inl_In in E1. exfalso. exact (proj1 (Hfresh t Ht) E1). }
          assert (E2 : inl k (olds low) = false).
          { destruct (inl k (olds low)) eqn:E2; [|reflexivity]. apply inl_In in E2. contradiction. }
          rewrite E1, E2. left. reflexivity. }
      rewrite (In_new_of _ t k NoDup_olds_compose HM). reflexivity.
    + assert (HkoS : ~ In k (olds st)) by (apply new_of_None; exact ES).
      assert (EM : new_of (compose_rmap st low) k = None).
      { destruct (new_of (compose_rmap st low) k) as [x|] eqn:E; [|reflexivity]. exfalso.
        apply new_of_In in E. apply In_compose in E. destruct E as [[H _]|(m & Hin & Hg)].
        - apply HkoL. apply in_map_iff. exists (x, k). auto.
        - apply in_g in Hg. destruct Hg as [_ [H|(Ekm & _)]].
          + apply HkoL. apply in_map_iff. exists (m, k). auto.
          + apply HkoS. rewrite Ekm. apply in_map_iff. exists (x, m). auto. }
      rewrite EM, EkM.
      assert (EkS : inl k (news st) = false).
      { destruct (inl k (news st)) eqn:E; [apply inl_In in E; contradiction | reflexivity]. }
      rewrite EkS. reflexivity.
Qed.

End Compose.

(* under hygiene the dictionary update of flatten() never overwrites: it is the concatenation the
   composition theorem is about *)
Lemma rset_fresh n o m : ~ In n (news m) -> rset n o m = m ++ [(n, o)].
Proof.
  unfold news. induction m as [|[n' o'] r IH]; intros H; simpl; [reflexivity|].
  destruct (Nat.eqb_spec n' n) as [->|Hne]; [exfalso; apply H; left; reflexivity|].
  rewrite IH; [reflexivity|]. intros Hc. apply H. right. exact Hc.
Qed.

Lemma fold_rset_fresh : forall (up acc : rmap),
  NoDup (news up) -> (forall t, In t (news up) -> ~ In t (news acc)) ->
  fold_left (fun a tb => rset (fst tb) (snd tb) a) up acc = acc ++ up.
Proof.
  induction up as [|[t b] r IH]; intros acc Hnd Hf; simpl; [rewrite app_nil_r; reflexivity|].
  unfold news in Hnd; simpl in Hnd. inversion Hnd as [|? ? Ht Hr]; subst.
  rewrite rset_fresh by (apply Hf; left; reflexivity).
  rewrite IH; [rewrite <- app_assoc; reflexivity | exact Hr |].
  intros t' Ht' Hc. unfold news in Hc. rewrite map_app in Hc. apply in_app_or in Hc.
  destruct Hc as [Hc|[Hc|[]]].
  - exact (Hf t' (or_intror Ht') Hc).
  - simpl in Hc. subst t'. exact (Ht Ht').
Qed.

Theorem compose_dict_hygienic st low : hygienic st low -> compose_dict st low = compose_rmap st low.
Proof.
  intros (HndS & HndNS & HndL & HndNL & Hfresh). unfold compose_dict, compose_rmap.
  set (g := fun tm : nat * nat => match lookup_new (snd tm) low with
             | Some b => [(fst tm, b)]
             | None => if inl (fst tm) (news low) || inl (snd tm) (olds low) then [] else [(fst tm, snd tm)] end).
  assert (newsU : forall l t, In t (news (flat_map g l)) -> In t (news l)).
  { intros l t Ht. apply in_map_iff in Ht. destruct Ht as ([x y] & E & Ht). simpl in E. subst x.
    apply in_flat_map in Ht. destruct Ht as ([t' m] & Hin & Hg). unfold g in Hg; simpl in Hg.
    apply in_map_iff. exists (t', m). split; [|exact Hin]. simpl.
    destruct (lookup_new m low).
    - destruct Hg as [E|[]]. congruence.
    - destruct (_ || _); [destruct Hg|]. destruct Hg as [E|[]]. congruence. }
  apply fold_rset_fresh.
  - clear -HndNS newsU. unfold news in *. induction st as [|[t m] r IH]; simpl; [constructor|].
    inversion HndNS as [|? ? Ht Hr]; subst. rewrite map_app. apply NoDup_app_intro.
    + unfold g; simpl. destruct (lookup_new m low); [repeat constructor; intros []|].
      destruct (_ || _); [constructor | repeat constructor; intros []].
    + apply IH. exact Hr.
    + intros x Hx Hx'. assert (x = t).
      { unfold g in Hx; simpl in Hx. destruct (lookup_new m low).
        - destruct Hx as [<-|[]]. reflexivity.
        - destruct (_ || _); [destruct Hx|]. destruct Hx as [<-|[]]. reflexivity. }
      subst x. apply Ht. apply (newsU r t Hx').
  - intros t Ht Hc. apply (newsU st t) in Ht.
    apply in_map_iff in Hc. destruct Hc as ([n b] & E & Hc). simpl in E. subst n.
    apply filter_In in Hc. destruct Hc as [Hc _].
    apply (proj1 (Hfresh t Ht)). apply in_map_iff. exists (t, b). auto.
Qed.
