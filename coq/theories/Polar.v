(* Polar.v — the stored representation of a coefficient, |z|^2 and arg z, determines z (C14).
   numpy's contract for angle: for z = a + i b <> 0, theta = angle z satisfies
   cos theta = a / |z| and sin theta = b / |z|; for z = 0 any theta. *)
From Coq Require Import Reals Lra.
Open Scope R_scope.

Definition is_angle (a b theta : R) : Prop :=
  let r := sqrt (a * a + b * b) in r <> 0 -> cos theta = a / r /\ sin theta = b / r.

Theorem polar_roundtrip a b theta : is_angle a b theta ->
  sqrt (a * a + b * b) * cos theta = a /\ sqrt (a * a + b * b) * sin theta = b.
Proof.
  unfold is_angle. intros H. set (r := sqrt (a * a + b * b)) in *.
  destruct (Req_dec r 0) as [E|Hr].
  - assert (H0 : a * a + b * b = 0).
    { apply sqrt_eq_0; [nra | exact E]. }
    assert (a = 0) by nra. assert (b = 0) by nra. subst. rewrite E. split; ring.
  - destruct (H Hr) as [-> ->]. split; field; exact Hr.
Qed.

(* get_data computes 20 log10 |A|; the property speaks of 10 log10 T with T = |A|^2: the same number *)
Theorem dB_amplitude a b : 0 < a * a + b * b ->
  20 * (ln (sqrt (a * a + b * b)) / ln 10) = 10 * (ln (a * a + b * b) / ln 10).
Proof.
  intros H. set (x := a * a + b * b) in *.
  assert (Hs : 0 < sqrt x) by (apply sqrt_lt_R0; exact H).
  assert (E : ln x = ln (sqrt x) + ln (sqrt x)).
  { rewrite <- ln_mult by assumption. rewrite sqrt_sqrt by lra. reflexivity. }
  rewrite E. field.
  assert (0 < ln 10); [|lra]. rewrite <- ln_1. apply ln_increasing; lra.
Qed.
