(* Corr.v — glue of the correspondence check: literals for Gaussian rationals and observed
   floats (exact dyadic rationals), comparison within a tolerance decided in exact arithmetic,
   verdicts. Executed with vm_compute over BQCf (Gaussian rationals over Bignums' bigQ), the
   instance whose laws are proved in Field.v. *)
From Coq Require Import QArith List ZArith Bool.
From Bignums Require Import BigQ.
From Lekkersim Require Import Field Matrix Base Kernel.
Import ListNotations.

Inductive verdict := Agree | Differ | ModelUndefined | ImplError | BothReject | ModelSingular.
(* ModelSingular: an inner system met by the model's schedule is EXACTLY singular (e.g. a closed lossless
   cavity at resonance) while the implementation's floating-point inverse returned numbers: outside
   "for which it is defined"; counted, never an alarm.  Every other disagreement about definedness is. *)
Definition undef (e : err) : verdict := match e with ESingular => ModelSingular | _ => ModelUndefined end.
Definition worst (vs : list verdict) : verdict :=
  if existsb (fun v => match v with Differ => true | _ => false end) vs then Differ
  else if existsb (fun v => match v with ImplError => true | _ => false end) vs then ImplError
  else if existsb (fun v => match v with ModelUndefined => true | _ => false end) vs then ModelUndefined
  else if existsb (fun v => match v with ModelSingular => true | _ => false end) vs then ModelSingular
  else if forallb (fun v => match v with BothReject => true | _ => false end) vs && negb (Nat.eqb (List.length vs) 0)
       then BothReject
  else Agree.

Definition is_agree (v : verdict) : bool :=
  match v with Agree | BothReject => true | _ => false end.

Notation QcCf := BQCf (only parsing).
Notation c0 := b0 (only parsing).

Definition bq (a : Z) (d : positive) : bigQ := BigQ.red (BigQ.Qq (BigZ.of_Z a) (BigN.of_pos d)).

(* a/d + i b/d *)
Definition cq (a b : Z) (d : positive) : BQCf := (bq a d, bq b d).

(* m * 2^e : the exact value of a binary64 float *)
Definition fl (m e : Z) : bigQ :=
  if (0 <=? e)%Z then BigQ.Qz (BigZ.of_Z (m * 2 ^ e)) else bq m (Z.to_pos (2 ^ (- e))).
Definition cf (m1 e1 m2 e2 : Z) : BQCf := (fl m1 e1, fl m2 e2).

Definition tol9 : bigQ := bq 1 1000000000.
Definition tol6 : bigQ := bq 1 1000000.
Definition tol12 : bigQ := bq 1 1000000000000.

Definition qle (x y : bigQ) : bool := match BigQ.compare x y with Gt => false | _ => true end.
Definition qclose (tol : bigQ) (x y : bigQ) : bool :=
  qle (BigQ.sub_norm x y) tol && qle (BigQ.sub_norm y x) tol.
Definition cclose (tol : bigQ) (x y : BQCf) : bool :=
  qclose tol (fst x) (fst y) && qclose tol (snd x) (snd y).

Definition lmx := list (list QcCf).
Definition mxl (l : lmx) : mx QcCf := of_rows l.

Definition rows_close (tol : bigQ) (n m : nat) (A : mx QcCf) (obs : lmx) : bool :=
  Nat.eqb (length obs) n &&
  forallb (fun i => let r := nth i obs [] in
             Nat.eqb (length r) m &&
             forallb (fun j => cclose tol (A i j) (nth j r c0)) (seq 0 m)) (seq 0 n).

Definition vec_close (tol : bigQ) (n : nat) (v : vec QcCf) (obs : list QcCf) : bool :=
  Nat.eqb (length obs) n && forallb (fun i => cclose tol (v i) (nth i obs c0)) (seq 0 n).

(* ---- C18: kernel cases ---- *)
Record lsmx := { lN : nat; lM : nat; l11 : lmx; l12 : lmx; l21 : lmx; l22 : lmx }.
Definition smx_of (l : lsmx) : smx QcCf :=
  {| sN := lN l; sM := lM l; S11 := mxl (l11 l); S12 := mxl (l12 l);
     S21 := mxl (l21 l); S22 := mxl (l22 l) |}.

Definition smx_close (tol : bigQ) (C : smx QcCf) (o : lsmx) : bool :=
  Nat.eqb (sN C) (lN o) && Nat.eqb (sM C) (lM o) &&
  rows_close tol (sM C) (sN C) (S11 C) (l11 o) && rows_close tol (sM C) (sM C) (S12 C) (l12 o) &&
  rows_close tol (sN C) (sN C) (S21 C) (l21 o) && rows_close tol (sN C) (sM C) (S22 C) (l22 o).

Definition bc {A} (n : nat) (l : list A) : list A :=
  match l with [x] => repeat x n | _ => l end.

Definition sadd_bc (As Bs : list (smx QcCf)) : result (list (smx QcCf)) :=
  let n := Nat.max (length As) (length Bs) in sadd_batch (bc n As) (bc n Bs).

Inductive obs (A : Type) := Obs (x : A) | Raised.
Arguments Obs {A}. Arguments Raised {A}.

Record add_case := { ac_A : list lsmx; ac_B : list lsmx; ac_obs : obs (list lsmx) }.

Fixpoint all2 {A B} (f : A -> B -> bool) (l : list A) (m : list B) : bool :=
  match l, m with
  | [], [] => true
  | x :: l', y :: m' => f x y && all2 f l' m'
  | _, _ => false
  end.

Definition add_verdict (c : add_case) : verdict :=
  match sadd_bc (map smx_of (ac_A c)) (map smx_of (ac_B c)), ac_obs c with
  | Ok Cs, Obs os => if all2 (smx_close tol9) Cs os then Agree else Differ
  | Err EDim, Raised => BothReject
  | Err EDim, Obs _ => Differ
  | Err _, Raised => BothReject
  | Err e, Obs _ => undef e
  | Ok _, Raised => ImplError
  end.

Record ic_case := { ic_A : list lsmx; ic_B : list lsmx; ic_u : list QcCf; ic_d : list QcCf;
                    ic_obs : obs (list (list QcCf * list QcCf)) }.

Definition vecl (l : list QcCf) : vec QcCf := fun i => nth i l c0.

Definition ic_verdict (c : ic_case) : verdict :=
  let n := Nat.max (length (ic_A c)) (length (ic_B c)) in
  let As := bc n (map smx_of (ic_A c)) in let Bs := bc n (map smx_of (ic_B c)) in
  match ic_obs c with
  | Raised => ImplError
  | Obs os =>
      if negb (Nat.eqb (length os) n) then Differ else
      let one (AB : smx QcCf * smx QcCf) (o : list QcCf * list QcCf) : verdict :=
        match int_complete (fst AB) (snd AB) (vecl (ic_u c)) (vecl (ic_d c)) with
        | Ok (uo, do_) =>
            if vec_close tol9 (sM (fst AB)) uo (fst o) && vec_close tol9 (sM (fst AB)) do_ (snd o)
            then Agree else Differ
        | Err e => undef e
        end in
      let vs := map (fun p => one (fst p) (snd p)) (combine (combine As Bs) os) in
      worst vs
  end.

(* ---- netlists (C01, C02, C03, C08, ...) ---- *)
From Lekkersim Require Import Network Solve.

Record net_case := {
  nc_comps : list (nat * nat * lmx);          (* id, ports, matrix in pin order *)
  nc_conns : list conn;
  nc_expo  : list spin;                       (* exposed pins, in the order of the observation *)
  nc_sched : option (list (nat * nat));       (* None: the model's own sequential schedule *)
  nc_obs   : obs lmx                          (* observed coefficients between exposed pins *)
}.

Definition net_of (c : net_case) : netlist BQCf :=
  {| comps := map (fun t => match t with (id, n, M) =>
                     lst_of_comp {| c_id := id; c_n := n; c_S := mxl M |} end) (nc_comps c);
     conns := nc_conns c; expo := nc_expo c |}.

Definition net_solve (c : net_case) : result (lst BQCf) :=
  solve (net_of c)
        (match nc_sched c with Some s => s | None => seq_sched (length (nc_comps c)) end).

Definition expo_close (tol : bigQ) (T : lst BQCf) (ex : list spin) (o : lmx) : bool :=
  Nat.eqb (length o) (length ex) &&
  forallb (fun i => let r := nth i o [] in
     Nat.eqb (length r) (length ex) &&
     forallb (fun j => cclose tol (coeff T (nth i ex dpin) (nth j ex dpin)) (nth j r c0))
             (seq 0 (length ex))) (seq 0 (length ex)).

Definition net_verdict (c : net_case) : verdict :=
  match net_solve c, nc_obs c with
  | Ok T, Obs o =>
      if forallb (fun p => mem p (l_pins T)) (nc_expo c) then
        if expo_close tol9 T (nc_expo c) o then Agree else Differ
      else Differ
  | Ok _, Raised => ImplError
  | Err _, Raised => BothReject
  | Err e, Obs _ => undef e
  end.

(* ---- C08: energy / reciprocity checks on the observed matrix itself ---- *)
Inductive ekind := ELossless | EPassive | EReciprocal.

Record en_case := { en_net : net_case; en_kinds : list ekind; en_us : list (list QcCf) }.

Definition cnorm2 (z : BQCf) : bigQ :=
  BigQ.add_norm (BigQ.mul_norm (fst z) (fst z)) (BigQ.mul_norm (snd z) (snd z)).

Definition obs_unitary (tol : bigQ) (o : lmx) : bool :=
  let n := length o in let O := mxl o in
  forallb (fun i => forallb (fun j =>
     cclose tol (bigsum n (fun k => fmul BQCf (fconj BQCf (O k i)) (O k j)))
                (if Nat.eqb i j then b1 else b0)) (seq 0 n)) (seq 0 n).

Definition obs_reciprocal (tol : bigQ) (o : lmx) : bool :=
  let n := length o in let O := mxl o in
  forallb (fun i => forallb (fun j => cclose tol (O i j) (O j i)) (seq 0 n)) (seq 0 n).

Definition obs_passive (tol : bigQ) (o : lmx) (us : list (list QcCf)) : bool :=
  let n := length o in let O := mxl o in
  forallb (fun u =>
     let v := vecl u in
     let pin := fold_right (fun i acc => BigQ.add_norm (cnorm2 (v i)) acc) BigQ.zero (seq 0 n) in
     let pout := fold_right (fun i acc => BigQ.add_norm (cnorm2 (mv n O v i)) acc) BigQ.zero (seq 0 n) in
     qle pout (BigQ.add_norm pin tol)) us.

Definition en_verdict (c : en_case) : verdict :=
  match net_verdict (en_net c), nc_obs (en_net c) with
  | Agree, Obs o =>
      if forallb (fun k => match k with
                           | ELossless => obs_unitary tol9 o
                           | EReciprocal => obs_reciprocal tol9 o
                           | EPassive => obs_passive tol9 o (en_us c) end) (en_kinds c)
      then Agree else Differ
  | v, _ => v
  end.

(* ---- C02: hierarchies ---- *)
From Lekkersim Require Import Hier.

Inductive hcirc :=
| HLeaf (id n : nat) (M : lmx)
| HSub (subs : list hcirc) (cs : list conn) (ex : list spin).

Fixpoint circ_of (h : hcirc) : circ BQCf :=
  match h with
  | HLeaf id n M => Leaf (lst_of_comp {| c_id := id; c_n := n; c_S := mxl M |})
  | HSub subs cs ex => Sub (map circ_of subs) cs ex
  end.

Record hier_case := { hc_circ : hcirc; hc_obs : obs lmx }.

Definition seq_pick (Ls : list (lst BQCf)) (cs : list conn) : list (nat * nat) :=
  seq_sched (length Ls).

Definition obs_verdict (r : result (lst BQCf)) (ex : list spin) (o : obs lmx) : verdict :=
  match r, o with
  | Ok T, Obs m =>
      if forallb (fun p => mem p (l_pins T)) ex then
        if expo_close tol9 T ex m then Agree else Differ
      else Differ
  | Ok _, Raised => ImplError
  | Err _, Raised => BothReject
  | Err e, Obs _ => undef e
  end.

(* the nested model against the observation *)
Definition hier_verdict (c : hier_case) : verdict :=
  let ci := circ_of (hc_circ c) in
  obs_verdict (solve_hier seq_pick ci) (top_expo ci) (hc_obs c).

(* the equivalent single-level circuit against the same observation *)
Definition flat_verdict (c : hier_case) : verdict :=
  let ci := circ_of (hc_circ c) in
  obs_verdict (solve (inline ci) (seq_sched (length (leaves ci)))) (top_expo ci) (hc_obs c).

Definition hier_both_verdict (c : hier_case) : verdict :=
  match hier_verdict c, flat_verdict c with
  | Agree, Agree => Agree
  | BothReject, BothReject => BothReject
  | Differ, _ | _, Differ => Differ
  | ImplError, _ | _, ImplError => ImplError
  | ModelUndefined, _ | _, ModelUndefined => ModelUndefined
  | ModelSingular, _ | _, ModelSingular => ModelSingular
  | _, _ => ModelUndefined
  end.

(* ---- C20 and others: observed values against exact expected values / oracle properties ---- *)
Record val_case := { vc_expected : list QcCf; vc_obs : obs (list QcCf) }.

Definition val_verdict (c : val_case) : verdict :=
  match vc_obs c with
  | Raised => ImplError
  | Obs o => if all2 (cclose tol9) (vc_expected c) o then Agree else Differ
  end.

Record prop_case := { pc_kinds : list ekind; pc_us : list (list QcCf); pc_obs : obs lmx }.

Definition prop_verdict (c : prop_case) : verdict :=
  match pc_obs c with
  | Raised => ImplError
  | Obs o =>
      if forallb (fun k => match k with
                           | ELossless => obs_unitary tol9 o
                           | EReciprocal => obs_reciprocal tol9 o
                           | EPassive => obs_passive tol9 o (pc_us c) end) (pc_kinds c)
      then Agree else Differ
  end.

(* ---- C07 / C16: edit histories ---- *)
From Lekkersim Require Import Wiring.

Record ostate := {
  o_ok : bool;
  o_structs : list nat; o_conns : list (spin * spin); o_clist : list spin; o_free : list spin;
  o_map : list (nat * spin);
  o_store : list (nat * (list spin * list (spin * spin) * list nat));
  o_S : option lmx                      (* at a solve: coefficients between the exposed names,
                                           names in increasing order *)
}.

Record wir_case := {
  wc_mats : list (nat * lmx);           (* id -> matrix by original pin index *)
  wc_ops : list wop;
  wc_obs : list ostate
}.

Fixpoint count {A} (eqb : A -> A -> bool) (x : A) (l : list A) : nat :=
  match l with [] => O | y :: r => (if eqb y x then 1 else 0) + count eqb x r end.
Definition mseq {A} (eqb : A -> A -> bool) (l l' : list A) : bool :=
  Nat.eqb (length l) (length l') &&
  forallb (fun x => Nat.eqb (count eqb x l) (count eqb x l')) l.

Definition conn_eqb (c d : spin * spin) : bool :=
  (spin_eqb (fst c) (fst d) && spin_eqb (snd c) (snd d)) ||
  (spin_eqb (fst c) (snd d) && spin_eqb (snd c) (fst d)).
Definition dconn_eqb (c d : spin * spin) : bool :=
  spin_eqb (fst c) (fst d) && spin_eqb (snd c) (snd d).
Definition map_eqb (c d : nat * spin) : bool := Nat.eqb (fst c) (fst d) && spin_eqb (snd c) (snd d).

Definition store_close (s : wstate) (o : list (nat * (list spin * list (spin * spin) * list nat))) : bool :=
  forallb (fun e => let t := getst s (fst e) in
     match snd e with (pins, conn, to) =>
       mseq spin_eqb (s_pins t) pins && mseq dconn_eqb (s_conn t) conn && mseq Nat.eqb (s_to t) to end) o.

(* only what a user can observe is compared: the structures held, the connections, the pins
   reported as free, the exposed pins (and, at a solve, the matrix).  The private tables
   (connections_list, per-structure conn_dict / connected_to / pin_list) are recorded in the case
   for diagnosis but not compared: a refactoring may keep them differently. *)
Definition state_close (s : wstate) (o : ostate) : bool :=
  mseq Nat.eqb (w_structs s) (o_structs o) && mseq conn_eqb (w_conns s) (o_conns o) &&
  mseq spin_eqb (w_free s) (o_free o) && mseq map_eqb (w_map s) (o_map o).

(* the circuit denoted by a state: present structures with their current pins *)
Definition lst_of_struct (M : lmx) (pins : list spin) : lst BQCf :=
  let n := length pins in
  {| l_pins := pins;
     l_S := tab n n (fun i j => mxl M (snd (nth i pins dpin)) (snd (nth j pins dpin))) |}.

Fixpoint insert_by_name (e : nat * spin) (l : list (nat * spin)) : list (nat * spin) :=
  match l with [] => [e] | f :: r => if fst e <=? fst f then e :: l else f :: insert_by_name e r end.
Definition sort_map (m : list (nat * spin)) : list (nat * spin) := fold_right insert_by_name [] m.

Definition abs_net (mats : list (nat * lmx)) (s : wstate) : netlist BQCf :=
  {| comps := map (fun id => lst_of_struct
                     (match dget Nat.eqb id mats with Some M => M | None => [] end)
                     (s_pins (getst s id))) (w_structs s);
     conns := w_conns s;
     expo := map snd (sort_map (w_map s)) |}.

Definition solve_close (mats : list (nat * lmx)) (s : wstate) (o : ostate) : verdict :=
  match o_S o with
  | None => if o_ok o then Agree else
            (* the implementation refused to solve: the model must refuse too *)
            match solve (abs_net mats s) (seq_sched (length (w_structs s))) with
            | Ok _ => ImplError | Err _ => BothReject end
  | Some m =>
      let net := abs_net mats s in
      match solve net (seq_sched (length (w_structs s))) with
      | Ok T => if forallb (fun p => mem p (l_pins T)) (expo net) then
                  if expo_close tol9 T (expo net) m then Agree else Differ
                else Differ
      | Err e => undef e
      end
  end.

Fixpoint wir_run (mats : list (nat * lmx)) (s : wstate) (ops : list wop) (obs : list ostate)
  : verdict :=
  match ops, obs with
  | [], [] => Agree
  | o :: ops', ob :: obs' =>
      let (s', e) := step s o in
      let okm := match e with None => true | Some _ => false end in
      match o with
      | SolveOp =>
          if state_close s' ob then
            match solve_close mats s' ob with
            | Agree | BothReject => wir_run mats s' ops' obs'
            | v => v end
          else Differ
      | _ =>
          if Bool.eqb okm (o_ok ob) && state_close s' ob then wir_run mats s' ops' obs' else Differ
      end
  | _, _ => Differ
  end.

Definition wir_verdict (c : wir_case) : verdict := wir_run (wc_mats c) w_empty (wc_ops c) (wc_obs c).

(* ---- C16: name tables ---- *)
From Coq Require Import String.
From Lekkersim Require Import Names.

Record name_case := {
  nm_pins : list pin; nm_ren : list (pin * pin); nm_queries : list string;
  nm_ok : bool;                               (* construction (+ renaming) accepted *)
  nm_lookups : list (option pin);             (* Model.pin / Structure.pin lookups by name *)
  nm_objs : list (pin * bool)                 (* Model.put(<Pin object>, target): accepted? *)
}.

Definition opin_eqb (a b : option pin) : bool :=
  match a, b with None, None => true | Some p, Some q => pin_eqb p q | _, _ => false end.

Definition name_verdict (c : name_case) : verdict :=
  match update_pins (nm_pins c) with
  | Err _ => if nm_ok c then Differ else BothReject
  | Ok _ =>
      match update_pins (rename_pins (nm_ren c) (nm_pins c)) with
      | Err _ => if nm_ok c then Differ else BothReject
      | Ok t => if nm_ok c then
                  if all2 opin_eqb (map (fun q => lookup q t) (nm_queries c)) (nm_lookups c) &&
                     (* a Pin OBJECT addresses a pin of the model iff it IS one of its pins (not merely prints like one) *)
                     forallb (fun pb => Bool.eqb (existsb (pin_eqb (fst pb)) (rename_pins (nm_ren c) (nm_pins c))) (snd pb))
                             (nm_objs c)
                  then Agree else Differ
                else ImplError
      end
  end.

(* ---- C17: with-block programs ---- *)
From Lekkersim Require Import Stack.

Record stack_case := {
  sk_prog : prog; sk_init : list nat;
  sk_obs_exc : bool;                           (* the program left through an exception *)
  sk_obs_stack : list nat;                     (* sol_list afterwards *)
  sk_obs_log : list (nat * nat)                (* (helper, solver that changed) in execution order *)
}.

Definition stack_verdict (c : stack_case) : verdict :=
  let (o, s') := exec (sk_prog c) (top (sk_init c)) {| stack := sk_init c; log := [] |} in
  let exc := match o with Exc => true | Normal => false end in
  if Bool.eqb exc (sk_obs_exc c) &&
     mseq Nat.eqb (stack s') (sk_obs_stack c) && all2 Nat.eqb (stack s') (sk_obs_stack c) &&
     all2 (fun e f => Nat.eqb (fst (fst e)) (fst f) && Nat.eqb (snd (fst e)) (snd f)) (log s') (sk_obs_log c)
  then Agree else Differ.

(* ---- C19: prune ---- *)
From Lekkersim Require Import Prune.

Inductive hshape := SLeaf (npins : nat) | SSub (subs : list hshape).

Fixpoint shape_of (c : circ BQCf) : hshape :=
  match c with
  | Leaf L => SLeaf (List.length (l_pins L))
  | Sub subs _ _ => SSub (map shape_of subs)
  end.

Fixpoint shape_eqb (a b : hshape) : bool :=
  match a, b with
  | SLeaf n, SLeaf m => Nat.eqb n m
  | SSub l, SSub l' =>
      (fix go (l l' : list hshape) : bool :=
         match l, l' with
         | [], [] => true
         | x :: r, y :: r' => shape_eqb x y && go r r'
         | _, _ => false
         end) l l'
  | _, _ => false
  end.

Record prune_case := {
  pr_circ : hcirc;
  pr_ret : bool;                 (* value returned by prune() *)
  pr_shape : hshape;             (* structures left, per level, in order *)
  pr_obs : obs lmx               (* solve() after prune() *)
}.

Definition prune_verdict (c : prune_case) : verdict :=
  let ci := circ_of (pr_circ c) in
  if Bool.eqb (dead ci) (pr_ret c) && shape_eqb (shape_of (prune ci)) (pr_shape c) then
    if dead ci then (match pr_obs c with Raised => BothReject | Obs _ => Agree end) else
    (* the circuit built without the dead branches decides; the unpruned hierarchy (which cannot
       even be solved when it contains an empty solver) must agree too whenever it is defined *)
    match obs_verdict (solve_hier seq_pick (prune ci)) (top_expo ci) (pr_obs c),
          obs_verdict (solve_hier seq_pick ci) (top_expo ci) (pr_obs c) with
    | Agree, Differ => Differ
    | v, _ => v
    end
  else Differ.

(* ---- C12: split ---- *)
From Lekkersim Require Import Split.

Record split_case := {
  sp_comps : list (nat * nat * lmx); sp_conns : list conn; sp_expo : list spin;
  sp_order : list nat;                          (* declaration order of the structures *)
  sp_parts : obs (list (list nat * obs lmx))    (* members of each returned solver, its matrix over
                                                   the exposed pins it owns (in sp_expo order) *)
}.

Definition adj_of (cs : list conn) (s : nat) : list nat :=
  nodupn (flat_map (fun c => if Nat.eqb (fst (fst c)) s then [fst (snd c)]
                             else if Nat.eqb (fst (snd c)) s then [fst (fst c)] else []) cs).

Definition sub_case (c : split_case) (members : list nat) (o : obs lmx) : net_case :=
  {| nc_comps := filter (fun t => nin (fst (fst t)) members) (sp_comps c);
     nc_conns := filter (fun cn => nin (fst (fst cn)) members) (sp_conns c);
     nc_expo := filter (fun p => nin (fst p) members) (sp_expo c);
     nc_sched := None; nc_obs := o |}.

Definition split_verdict (c : split_case) : verdict :=
  match sp_parts c with
  | Raised => ImplError
  | Obs parts =>
      let sets := split_sets (adj_of (sp_conns c)) (sp_order c) in
      let same_set (a b : list nat) := mseq Nat.eqb a b in
      if Nat.eqb (List.length sets) (List.length parts) &&
         forallb (fun S => existsb (fun p => same_set S (fst p)) parts) sets &&
         forallb (fun p => existsb (fun S => same_set S (fst p)) sets) parts
      then
        let vs := map (fun p => net_verdict (sub_case c (fst p) (snd p))) parts in
        worst vs
      else Differ
  end.

(* ---- C05: parameter delivery ---- *)
From Lekkersim Require Import Params.

(* the user's functions by number: 0: 2x+1, 1: x+2y, 2: x/2 (arguments by position), 3: the constant 3/4 *)
Definition fnlib (f : nat) (args : dict) : val :=
  let x := match args with (_, v) :: _ => v | _ => 0%Q end in
  let y := match args with _ :: (_, v) :: _ => v | _ => 0%Q end in
  match f with
  | O => (2 * x + 1)%Q
  | S O => (x + 2 * y)%Q
  | S (S O) => (x / 2)%Q
  | _ => (3 # 4)%Q
  end.

Record par_case := { pa_tree : ptree; pa_kw : dict; pa_obs : obs (list QcCf) }.

Definition qval (m e : Z) : Q :=
  if (0 <=? e)%Z then inject_Z (m * 2 ^ e) else (m # (Z.to_pos (2 ^ (- e)))).

Definition par_verdict (c : par_case) : verdict :=
  match pa_obs c with
  | Raised => ImplError
  | Obs o =>
      let vals := deliver fnlib (pa_tree c) (pa_kw c) in
      if Nat.eqb (List.length vals) (List.length o) &&
         all2 (fun v x => match v with
                          | Some q => cclose tol12 (BigQ.of_Q (Qred q), BigQ.zero) x
                          | None => false end) vals o
      then Agree else Differ
  end.

(* ---- C06: histories of solve calls ---- *)
Record pur_call := {
  pc_path : list nat;                 (* which (sub-)solver is solved *)
  pc_kw : dict;
  pc_now : obs (list QcCf);           (* leaf values read from the result right after the call *)
  pc_later : obs (list QcCf);         (* the same result re-read after all later calls *)
  pc_unchanged : bool                 (* structures/connections/exposed pins/defaults of every solver untouched *)
}.
Record pur_case := { pu_tree : ptree; pu_calls : list pur_call }.

Definition vals_close (vals : list (option val)) (o : list QcCf) : bool :=
  Nat.eqb (List.length vals) (List.length o) &&
  all2 (fun v x => match v with
                   | Some q => cclose tol12 (BigQ.of_Q (Qred q), BigQ.zero) x
                   | None => false end) vals o.

Definition pur_verdict (c : pur_case) : verdict :=
  let one (k : pur_call) : verdict :=
    match subtree (pu_tree c) (pc_path k) with
    | None => ModelUndefined
    | Some t =>
        let vals := deliver fnlib t (pc_kw k) in
        match pc_now k, pc_later k with
        | Obs a, Obs b => if pc_unchanged k && vals_close vals a && vals_close vals b then Agree else Differ
        | _, _ => ImplError
        end
    end in
  let vs := map one (pu_calls c) in
  if forallb is_agree vs then Agree
  else if existsb (fun v => match v with Differ => true | _ => false end) vs then Differ
  else if existsb (fun v => match v with ImplError => true | _ => false end) vs then ImplError
  else ModelUndefined.

(* ---- C04: sweeps ---- *)
From Lekkersim Require Import Sweep.

Record swp_case := { sw_tree : ptree; sw_kw : sdict; sw_obs : obs (list (list QcCf)) }.

Definition swp_verdict (c : swp_case) : verdict :=
  match sweep_solve (deliver fnlib (sw_tree c)) (sw_kw c), sw_obs c with
  | Ok pts, Obs o =>
      if Nat.eqb (List.length pts) (List.length o) && all2 vals_close pts o then Agree else Differ
  | Ok _, Raised => ImplError
  | Err _, Raised => BothReject
  | Err _, Obs _ => Differ            (* inconsistent lengths must be rejected *)
  end.

(* library blocks: the scalar solves are the oracle (a section variable standing for create_S);
   the model stacks them; equality with the observed sweep is exact (same floating-point path) *)
Record blk_case := { bk_scalar : list (obs lmx); bk_sweep : obs (list lmx) }.

Definition lmx_eq (a b : lmx) : bool :=
  Nat.eqb (List.length a) (List.length b) &&
  all2 (fun r s => Nat.eqb (List.length r) (List.length s) && all2 (cclose BigQ.zero) r s) a b.

Definition blk_verdict (c : blk_case) : verdict :=
    match bk_sweep c with
    | Raised => if forallb (fun o => match o with Raised => true | _ => false end) (bk_scalar c)
                then BothReject else ImplError
    | Obs sw =>
        if Nat.eqb (List.length sw) (List.length (bk_scalar c)) &&
           all2 (fun o m => match o with Obs s => lmx_eq s m | Raised => false end) (bk_scalar c) sw
        then Agree else Differ
    end.

(* library blocks, several parameters at once: the model normalises/broadcasts the assignment
   (Sweep.normalise) and asks the oracle table (scalar solves of the implementation, keyed by the
   point assignment) for each point; a point the harness did not supply is ModelUndefined *)
Record blk2_case := { b2_kw : sdict; b2_oracle : list (dict * obs lmx); b2_sweep : obs (list lmx) }.

Definition dict_eqb (a b : dict) : bool :=
  Nat.eqb (List.length a) (List.length b) &&
  all2 (fun x y => Nat.eqb (fst x) (fst y) && Qeq_bool (snd x) (snd y)) a b.

Definition blk2_verdict (c : blk2_case) : verdict :=
  let look (p : dict) := find (fun e => dict_eqb (fst e) p) (b2_oracle c) in
  match sweep_solve look (b2_kw c), b2_sweep c with
  | Err _, Raised => BothReject
  | Err _, Obs _ => Differ                     (* inconsistent lengths must be rejected *)
  | Ok pts, Raised =>
      if forallb (fun o => match o with Some (_, Raised) => true | _ => false end) pts
      then BothReject else ImplError
  | Ok pts, Obs sw =>
      if existsb (fun o => match o with None => true | _ => false end) pts then ModelUndefined
      else if Nat.eqb (List.length sw) (List.length pts) &&
              all2 (fun o m => match o with Some (_, Obs s) => lmx_eq s m | _ => false end) pts sw
      then Agree else Differ
  end.

(* ---- C11: flatten ---- *)
Record flat_case := {
  fl_tree : ptree;
  fl_flat : bool;                         (* no solver-backed structure remains *)
  fl_defaults_same : bool;                (* default_params unchanged as a finite map *)
  fl_calls : list (dict * obs (list QcCf)) (* solve with assignment p AFTER flatten, per p *)
}.

(* the implementation after flatten() against (1) the model of the flattened solver — any
   difference is a new defect (ImplError) — and (2) the nested meaning the property demands —
   a difference there while (1) agrees is exactly "flatten changed the meaning" (Differ) *)
From Lekkersim Require Import Flatten.
Definition flatp_verdict (c : flat_case) : verdict :=
  if negb (fl_flat c && fl_defaults_same c) then ImplError else
  let vs := map (fun k => match snd k with
                          | Raised => ImplError
                          | Obs o =>
                              if vals_close (deliver_flat fnlib (fl_tree c) (fst k)) o then
                                if vals_close (deliver fnlib (fl_tree c) (fst k)) o then Agree else Differ
                              else ImplError
                          end) (fl_calls c) in
  if forallb is_agree vs then Agree
  else if existsb (fun v => match v with ImplError => true | _ => false end) vs then ImplError
  else Differ.

(* wiring half: the flattened solver against the nested and the flat model *)
Record flatw_case := { fw_case : hier_case; fw_flat : bool }.
Definition flatw_verdict (c : flatw_case) : verdict :=
  if fw_flat c then hier_both_verdict (fw_case c) else Differ.

(* ---- C10: monitors ---- *)
From Lekkersim Require Import Monitor.

Record mon_case := {
  mn_net : net_case;
  mn_ids : list nat;                          (* monitored components *)
  mn_u : list (spin * QcCf);                  (* excitation of exposed pins *)
  mn_power : bool;
  mn_read : obs (list (spin * QcCf * QcCf))   (* observed columns: pin of the monitored side, _i, _o *)
}.

Definition waves_of (l : list (spin * QcCf)) : waves BQCf :=
  fun p => match find (fun e => spin_eqb (fst e) p) l with Some e => snd e | None => b0 end.

Definition cabs2 (z : BQCf) : BQCf := (cnorm2 z, BigQ.zero).

Definition mon_verdict (c : mon_case) : verdict :=
  let net := net_of (mn_net c) in
  let n := List.length (nc_comps (mn_net c)) in
  match mon_solve net (mn_ids c) (seq_sched (n - List.length (mn_ids c))) (seq_sched (List.length (mn_ids c)))
                  (waves_of (mn_u c)), nc_obs (mn_net c), mn_read c with
  | Ok r, Obs m, Obs rd =>
      let T := mr_T r in
      let okT := forallb (fun p => mem p (l_pins T)) (nc_expo (mn_net c)) &&
                 expo_close tol9 T (nc_expo (mn_net c)) m in
      let conv := fun z => if mn_power c then cabs2 z else z in
      let okR := Nat.eqb (List.length rd) (List.length (mr_read r)) &&
                 forallb (fun e => match e with (y, ui, uo) =>
                    existsb (fun o => match o with (y', oi, oo) =>
                       spin_eqb y y' && cclose tol9 (conv ui) oi && cclose tol9 (conv uo) oo end) rd end)
                 (mr_read r) in
      if okT && okR then Agree else Differ
  | Ok _, _, _ => ImplError
  | Err _, Raised, _ => BothReject
  | Err _, _, Raised => BothReject
  | Err e, _, _ => undef e
  end.

(* a swept netlist: one net_case per sweep point (component matrices of that point, slice of the result) *)
Definition nets_case := list net_case.
Definition nets_verdict (l : nets_case) : verdict := worst (map net_verdict l).

(* a sweep: one mon_case per sweep point (the point's component matrices, external matrix and table row) *)
Definition mons_case := list mon_case.
Definition mons_verdict (l : mons_case) : verdict := worst (map mon_verdict l).

(* ---- C15: read-out helpers ---- *)
From Lekkersim Require Import Readout.

Record rd_case := {
  rd_idx : list nat;                       (* pin k -> matrix index *)
  rd_S : list lmx;                         (* one matrix per sweep point *)
  rd_u : list (nat * QcCf);                (* excitation: pin k, amplitude *)
  rd_pq : nat * nat;
  rd_power : bool;
  rd_same : bool;                          (* by name and by Pin object give identical results *)
  rd_out0 : obs (list QcCf);               (* get_output at point 0, per pin *)
  rd_full : obs (list (list QcCf));        (* get_full_output: one row per sweep point *)
  rd_data : obs (list (QcCf * QcCf));      (* get_data: (T, Amplitude) per sweep point *)
  rd_AT0 : obs (QcCf * QcCf);              (* get_A, get_T at point 0 *)
  rd_sorted : list nat;                    (* the pins listed in the alphabetical order of their printable names *)
  rd_s2pd : obs (list (list QcCf))         (* S2PD(): the matrix with rows and columns in that order *)
}.

Definition smodel_of (c : rd_case) (M : lmx) : smodel BQCf :=
  let n := List.length (rd_idx c) in
  {| sm_pins := map (fun k => (0, k)%nat) (seq 0 n);
     sm_idx := fun p => nth (snd p) (rd_idx c) 0%nat; sm_n := n; sm_S := mxl M |}.

Definition rd_verdict (c : rd_case) : verdict :=
  let ms := map (smodel_of c) (rd_S c) in
  let u := map (fun e => ((0, fst e)%nat, snd e)) (rd_u c) in
  let conv := fun z : BQCf => if rd_power c then cabs2 z else z in
  let p := (0, fst (rd_pq c))%nat in let q := (0, snd (rd_pq c))%nat in
  match rd_out0 c, rd_full c, rd_data c, rd_AT0 c, rd_s2pd c with
  | Obs o0, Obs fo, Obs dt, Obs at0, Obs sp =>
      let m0 := nth 0 ms (smodel_of c []) in
      let ok0 := all2 (fun pv x => cclose tol9 (conv (snd pv)) x) (get_output m0 u) o0 in
      let okf := all2 (fun row orow => all2 (fun pv x => cclose tol9 (conv (snd pv)) x) row orow)
                      (full_output ms u) fo in
      let okd := all2 (fun ta o => cclose tol9 (fst ta) (fst o) && cclose tol9 (snd ta) (snd o))
                      (data_table ms p q) dt in
      let oka := cclose tol9 (get_A m0 p q) (fst at0) && cclose tol9 (get_T m0 p q) (snd at0) in
      let oks := all2 (fun r row => all2 (fun k x => cclose tol9 (get_A m0 (0, r)%nat (0, k)%nat) x) (rd_sorted c) row)
                      (rd_sorted c) sp in
      if rd_same c && ok0 && okf && okd && oka && oks then Agree else Differ
  | _, _, _, _, _ => ImplError
  end.

(* ---- C13: modes ---- *)
From Lekkersim Require Import Modes.

(* expansion of one model: base matrices per sweep point (single-mode model, same parameters) and the
   expanded matrices, rows/columns ordered (mode i, base pin n) -> i*N + n by looking the pins up by
   their names in the expanded model *)
Record exp_case := { xp_n : nat; xp_np : nat; xp_base : obs (list lmx); xp_obs : obs (list lmx) }.

Definition exp_verdict (c : exp_case) : verdict :=
  match xp_base c, xp_obs c with
  | Obs bs, Obs os =>
      let d := (xp_np c * xp_n c)%nat in
      if Nat.eqb (List.length bs) (List.length os) &&
         all2 (fun b o => rows_close tol12 d d (expand_S (xp_n c) (mxl b)) o) bs os
      then Agree else Differ
  | Obs _, Raised => ImplError
  | Raised, Raised => BothReject
  | Raised, Obs _ => ModelUndefined
  end.

(* circuits of mode-expanded blocks wired by connect_all *)
Record mm_comp := { mc_id : nat; mc_n : nat; mc_S : lmx; mc_modes : list string }.
Record mm_case := {
  mm_comps : list mm_comp;
  mm_links : list (nat * nat * nat * nat * option (list string));
                                               (* (c1, base pin p1, c2, base pin p2, None): connect_all;
                                                  (..., Some ms): the modes ms wired one by one with connect *)
  mm_expo  : list (nat * nat * string);        (* exposed: component, base pin, mode *)
  mm_obs   : obs lmx
}.

Fixpoint sindex (m : string) (l : list string) : option nat :=
  match l with
  | [] => None
  | x :: r => if String.eqb x m then Some 0%nat else option_map S (sindex m r)
  end.

Definition mm_find (c : mm_case) (id : nat) : option mm_comp :=
  find (fun x => Nat.eqb (mc_id x) id) (mm_comps c).

Definition mm_spin (c : mm_case) (id p : nat) (m : string) : option spin :=
  match mm_find c id with
  | Some x => match sindex m (mc_modes x) with
              | Some i => Some (id, expand_idx (mc_n x) i p)
              | None => None
              end
  | None => None
  end.

Fixpoint opt_all {A} (l : list (option A)) : option (list A) :=
  match l with
  | [] => Some []
  | Some x :: r => option_map (cons x) (opt_all r)
  | None :: _ => None
  end.

(* the multi-mode circuit itself: expanded blocks, one connection per common mode *)
Definition mm_full_net (c : mm_case) : option (netlist BQCf) :=
  let cs := flat_map (fun l => match l with (c1, p1, c2, p2, sel) =>
              match mm_find c c1, mm_find c c2 with
              | Some x1, Some x2 =>
                  map (fun m => match mm_spin c c1 p1 m, mm_spin c c2 p2 m with
                                | Some a, Some b => Some (a, b)
                                | _, _ => None
                                end)
                      (match sel with None => common_modes (mc_modes x1) (mc_modes x2) | Some ms => ms end)
              | _, _ => [None]
              end end) (mm_links c) in
  let ex := map (fun t => match t with (id, p, m) => mm_spin c id p m end) (mm_expo c) in
  match opt_all cs, opt_all ex with
  | Some cs', Some ex' =>
      Some {| comps := map (fun x => lst_of_comp {| c_id := mc_id x;
                                                    c_n := (List.length (mc_modes x) * mc_n x)%nat;
                                                    c_S := expand_S (mc_n x) (mxl (mc_S x)) |}) (mm_comps c);
              conns := cs'; expo := ex' |}
  | _, _ => None
  end.

(* the single-mode circuit seen by mode m: the components carrying m, the links whose two ends
   both carry m, the exposures of mode m *)
Definition has_mode (c : mm_case) (id : nat) (m : string) : bool :=
  match mm_find c id with Some x => smem m (mc_modes x) | None => false end.

Definition mm_mode_net (c : mm_case) (m : string) : netlist BQCf :=
  {| comps := map (fun x => lst_of_comp {| c_id := mc_id x; c_n := mc_n x; c_S := mxl (mc_S x) |})
                  (filter (fun x => smem m (mc_modes x)) (mm_comps c));
     conns := flat_map (fun l => match l with (c1, p1, c2, p2, sel) =>
                 if has_mode c c1 m && has_mode c c2 m &&
                    match sel with None => true | Some ms => smem m ms end
                 then [((c1, p1), (c2, p2))] else [] end)
                 (mm_links c);
     expo := flat_map (fun t => match t with (id, p, m') =>
                 if String.eqb m' m then [(id, p)] else [] end) (mm_expo c) |}.

Definition mm_sched (n : netlist BQCf) := seq_sched (List.length (comps n)).

Definition mm_indep (c : mm_case) (o : lmx) : option bool :=
  let modes := sdedup (map (fun t => snd t) (mm_expo c)) in
  let tabs := map (fun m => (m, let n := mm_mode_net c m in solve n (mm_sched n))) modes in
  if existsb (fun t => match snd t with Err _ => true | Ok _ => false end) tabs then None else
  let ex := mm_expo c in
  let look := fun m => match find (fun t => String.eqb (fst t) m) tabs with
                       | Some (_, Ok T) => Some T | _ => None end in
  Some (Nat.eqb (List.length o) (List.length ex) &&
  forallb (fun i => let r := nth i o [] in
     Nat.eqb (List.length r) (List.length ex) &&
     forallb (fun j =>
        match nth_error ex i, nth_error ex j with
        | Some (ci, pi, mi), Some (cj, pj, mj) =>
            let expected := if String.eqb mi mj
                            then match look mi with Some T => coeff T (ci, pi) (cj, pj) | None => c0 end
                            else c0 in
            cclose tol9 expected (nth j r c0)
        | _, _ => false
        end) (seq 0 (List.length ex))) (seq 0 (List.length ex))).

Definition mm_verdict (c : mm_case) : verdict :=
  match mm_full_net c with
  | None => (match mm_obs c with Raised => BothReject | Obs _ => ModelUndefined end)
  | Some n =>
      let full := obs_verdict (solve n (mm_sched n)) (expo n) (mm_obs c) in
      match full, mm_obs c with
      | Agree, Obs o => match mm_indep c o with
                        | Some true => Agree
                        | Some false => Differ
                        | None => ModelUndefined
                        end
      | v, _ => v
      end
  end.

(* queries: the base names / mode names / pins reported for a model and for a placed structure *)
Record qry_case := {
  q_pins : list (string * option string);                 (* the pins the object has *)
  q_bases : obs (list string);                            (* get_pin_basenames() *)
  q_modes : list (string * obs (list (option string)));   (* per queried base: get_pin_modes / _modenames *)
  q_pinsof : list (string * obs (list (string * option string)))   (* Structure.get_pins(base) *)
}.

Definition mkpin (t : string * option string) : pin := {| basename := fst t; mode_name := snd t |}.
Definition ostr_eqb (a b : option string) : bool :=
  match a, b with Some x, Some y => String.eqb x y | None, None => true | _, _ => false end.
Definition sset_eqb (a b : list string) : bool :=
  forallb (fun x => smem x b) a && forallb (fun x => smem x a) b && Nat.eqb (List.length a) (List.length b).

(* equal as multisets *)
Definition perm_eqb {A B} (f : A -> B -> bool) (a : list A) (b : list B) : bool :=
  Nat.eqb (List.length a) (List.length b) &&
  forallb (fun y => Nat.eqb (List.length (filter (fun x => f x y) a))
                            (List.length (filter (fun y' => existsb (fun x => f x y && f x y') a) b))) b &&
  forallb (fun x => existsb (f x) b) a.

Definition qry_verdict (c : qry_case) : verdict :=
  let pins := map mkpin (q_pins c) in
  let raised := match q_bases c with Raised => true | _ => false end ||
                existsb (fun t => match snd t with Raised => true | _ => false end) (q_modes c) ||
                existsb (fun t => match snd t with Raised => true | _ => false end) (q_pinsof c) in
  if raised then ImplError else
  let okb := match q_bases c with Obs l => sset_eqb l (pin_basenames pins) | Raised => false end in
  let okm := forallb (fun t => match snd t with
                               | Obs l => perm_eqb ostr_eqb l (pin_modes (fst t) pins)
                               | Raised => false end) (q_modes c) in
  let okp := forallb (fun t => match snd t with
                               | Obs l => perm_eqb (fun a b => String.eqb (fst a) (basename b) && ostr_eqb (snd a) (mode_name b))
                                                   l (pins_of_base (fst t) pins)
                               | Raised => false end) (q_pinsof c) in
  if okb && okm && okp then Agree else Differ.

(* ---- C14: InPulse export / import ---- *)
From Coq Require Import Qabs.
From Lekkersim Require Import InPulse.

Definition toC (z : BQCf) : C := (BigQ.to_Q (fst z), BigQ.to_Q (snd z)).
Definition Qtol9 : Q := (1 # 1000000000)%Q.
Definition cqclose (a b : C) : bool :=
  Qle_bool (Qabs (Qred (fst a - fst b))) Qtol9 && Qle_bool (Qabs (Qred (snd a - snd b))) Qtol9.

Record ip_case := {
  ip_pins : list (string * option string * nat);       (* the exported model's pins and their indices *)
  ip_S : list lmx;                                     (* its matrix per sweep point (index order) *)
  ip_xs : option (list bigQ);                          (* sweep values of a one-parameter sweep *)
  ip_mm : option (list (string * string));             (* mode mapping given at load time *)
  ip_obs_pins : obs (list (string * option string));   (* loaded pins, in loaded index order *)
  ip_obs_grid : obs (list lmx);                        (* loaded model at every exported point *)
  ip_obs_mid : obs (list (bigQ * lmx))                 (* loaded model at in-between parameter values *)
}.

Fixpoint ins_pt (p : Q * C) (l : list (Q * C)) : list (Q * C) :=
  match l with
  | [] => [p]
  | q :: r => if Qle_bool (fst p) (fst q) then p :: l else q :: ins_pt p r
  end.
Definition sort_pts (l : list (Q * C)) : list (Q * C) := fold_right ins_pt [] l.

Definition coeff_mid (L : loaded C) (xs : list Q) (x : Q) (i j : nat) : option C :=
  if strictly_inc xs then coeff_interp C (fun z => z) L xs x i j else
  match entry_for (InPulse.l_pins C L) (l_entries C L) i j with
  | None => Some czero
  | Some e => match col_lookup C (snd e) (l_cols C L) with
              | Some vals => interp1 (sort_pts (combine xs vals)) x
              | None => None
              end
  end.

Definition ip_model (c : ip_case) : solved :=
  let pins := map (fun t => mkpin (fst t)) (ip_pins c) in
  {| s_pins := pins;
     s_idx := fun p => match find (fun t => pin_eqb (mkpin (fst t)) p) (ip_pins c) with
                       | Some t => snd t | None => 0%nat end;
     s_S := map (fun M => fun i j => toC (mxl M i j)) (ip_S c) |}.

Definition ip_loaded (c : ip_case) : result (loaded C) :=
  match encode C (fun z => z) (fun l => l) (ip_model c) with
  | Err e => Err e
  | Ok f => match ip_mm c with
            | None => Ok (decode C f)
            | Some mm => select_modes C mm (decode C f)
            end
  end.

Definition ip_matrix_ok (L : loaded C) (opins : list pin) (get : nat -> nat -> option C) (M : lmx) : bool :=
  let pins := InPulse.l_pins C L in
  forallb (fun p => forallb (fun q =>
     match get (pin_pos p pins) (pin_pos q pins) with
     | Some v => cqclose v (toC (mxl M (pin_pos p opins) (pin_pos q opins)))
     | None => false
     end) pins) pins.

Definition ip_verdict (c : ip_case) : verdict :=
  match ip_loaded c with
  | Err _ => (match ip_obs_pins c with Raised => BothReject | Obs _ => ModelUndefined end)
  | Ok L =>
      match ip_obs_pins c, ip_obs_grid c, ip_obs_mid c with
      | Obs ps, Obs gs, Obs ms =>
          let opins := map mkpin ps in
          let pins_ok := perm_eqb pin_eqb opins (InPulse.l_pins C L) in
          let grid_ok := Nat.eqb (List.length gs) (List.length (ip_S c)) &&
                         forallb (fun k => ip_matrix_ok L opins (coeff_at C (fun z => z) L k) (nth k gs []))
                                 (seq 0 (List.length (ip_S c))) in
          let mid_ok := match ip_xs c with
                        | None => true
                        | Some xs => let xq := map BigQ.to_Q xs in
                            forallb (fun xm => ip_matrix_ok L opins (coeff_mid L xq (BigQ.to_Q (fst xm))) (snd xm)) ms
                        end in
          if pins_ok && grid_ok && mid_ok then Agree else Differ
      | _, _, _ => ImplError
      end
  end.

(* ---- C20: relative accuracy (tiny amplitudes of long lossy chains must be right in RELATIVE terms) ---- *)
Definition crel (tol : bigQ) (e o : BQCf) : bool :=
  let dr := BigQ.sub_norm (fst e) (fst o) in let di := BigQ.sub_norm (snd e) (snd o) in
  let d2 := BigQ.add_norm (BigQ.mul_norm dr dr) (BigQ.mul_norm di di) in
  let e2 := BigQ.add_norm (BigQ.mul_norm (fst e) (fst e)) (BigQ.mul_norm (snd e) (snd e)) in
  match BigQ.compare e2 0%bigQ with
  | Eq => cclose tol e o                                   (* expected exactly zero: absolute *)
  | _ => qle d2 (BigQ.mul_norm (BigQ.mul_norm tol tol) e2)
  end.

Definition relval_verdict (c : val_case) : verdict :=
  match vc_obs c with
  | Raised => ImplError
  | Obs o => if all2 (crel tol9) (vc_expected c) o then Agree else Differ
  end.
