(* ParamsProofs.v — renaming is simultaneous, shields old names, composes; precedence (C05). *)
From Coq Require Import List Arith Lia Bool QArith Permutation.
From Lekkersim Require Import Params.
Import ListNotations.

Lemma inl_In k l : inl k l = true <-> In k l.
Proof.
  unfold inl. rewrite existsb_exists. split.
  - intros (y & Hy & E). apply Nat.eqb_eq in E. subst. exact Hy.
  - intros H. exists k. split; [exact H | apply Nat.eqb_refl].
Qed.

Lemma pget_pset_same k v d : pget k (pset k v d) = Some v.
Proof.
  induction d as [|[k' v'] r IH]; simpl; [rewrite Nat.eqb_refl; reflexivity|].
  destruct (Nat.eqb_spec k' k) as [->|Hne]; simpl.
  - rewrite Nat.eqb_refl. reflexivity.
  - destruct (Nat.eqb_spec k' k); [contradiction|]. exact IH.
Qed.

Lemma pget_pset_other k k' v d : k <> k' -> pget k (pset k' v d) = pget k d.
Proof.
  intros Hne. induction d as [|[k0 v0] r IH]; simpl.
  - destruct (Nat.eqb_spec k' k); [congruence|reflexivity].
  - destruct (Nat.eqb_spec k0 k') as [->|H0]; simpl.
    + destruct (Nat.eqb_spec k' k); [congruence|reflexivity].
    + destruct (Nat.eqb_spec k0 k); [reflexivity|exact IH].
Qed.

Lemma pget_filter (g : nat -> bool) k d :
  pget k (filter (fun kv => g (fst kv)) d) = if g k then pget k d else None.
Proof.
  induction d as [|[k' v] r IH]; simpl; [destruct (g k); reflexivity|].
  destruct (g k') eqn:Eg; simpl.
  - destruct (Nat.eqb_spec k' k) as [->|Hne]; [rewrite Eg; reflexivity | exact IH].
  - destruct (Nat.eqb_spec k' k) as [->|Hne]; [rewrite Eg in IH |- *; exact IH | exact IH].
Qed.

(* ---- update: later dictionary wins ---- *)
Lemma pget_pupdate k d d' :
  pget k (pupdate d d') = match pget k (rev d') with Some v => Some v | None => pget k d end.
Proof.
  unfold pupdate. revert d. induction d' as [|[k' v'] r IH]; intros d; simpl; [reflexivity|].
  rewrite IH. clear IH.
  (* pget in rev (x :: r) = pget in rev r, else x *)
  assert (G : forall l, pget k (l ++ [(k', v')]) =
                        match pget k l with Some v => Some v | None => if Nat.eqb k' k then Some v' else None end).
  { induction l as [|[a b] l IHl]; simpl; [reflexivity|]. destruct (Nat.eqb a k); [reflexivity|exact IHl]. }
  rewrite G. destruct (pget k (rev r)) as [v|]; [reflexivity|].
  destruct (Nat.eqb_spec k' k) as [->|Hne].
  - apply pget_pset_same.
  - apply pget_pset_other. congruence.
Qed.

(* with distinct keys in d' the reversal does not matter *)
Lemma pget_rev k d : NoDup (map fst d) -> pget k (rev d) = pget k d.
Proof.
  induction d as [|[k' v] r IH]; intros Hnd; simpl; [reflexivity|].
  inversion Hnd as [|? ? Hk Hr]; subst.
  assert (G : forall l, pget k (l ++ [(k', v)]) =
                        match pget k l with Some w => Some w | None => if Nat.eqb k' k then Some v else None end).
  { induction l as [|[a b] l IHl]; simpl; [reflexivity|]. destruct (Nat.eqb a k); [reflexivity|exact IHl]. }
  rewrite G, (IH Hr). destruct (Nat.eqb_spec k' k) as [->|Hne].
  - assert (Hn : pget k r = None).
    { clear -Hk. induction r as [|[a b] r IH]; simpl; [reflexivity|].
      destruct (Nat.eqb_spec a k) as [->|_]; [exfalso; apply Hk; left; reflexivity|].
      apply IH. intros H. apply Hk. right. exact H. }
    rewrite Hn. reflexivity.
  - destruct (pget k r); reflexivity.
Qed.

(* precedence in a model: what arrives, else the model's own default *)
Theorem model_precedence defaults incoming k : NoDup (map fst incoming) ->
  pget k (model_update defaults incoming)
  = match pget k incoming with Some v => Some v | None => pget k defaults end.
Proof. intros H. unfold model_update. rewrite pget_pupdate, (pget_rev k incoming H). reflexivity. Qed.

(* ---- renaming ---- *)
Lemma new_of_In m o n : new_of m o = Some n -> In (n, o) m.
Proof.
  unfold new_of. destruct (find _ m) as [[n' o']|] eqn:E; [|discriminate].
  intros H; injection H as <-. apply find_some in E. destruct E as [Hin E]. simpl in *.
  apply Nat.eqb_eq in E. subst. exact Hin.
Qed.

Lemma new_of_None m o : new_of m o = None -> ~ In o (olds m).
Proof.
  unfold new_of. destruct (find _ m) as [no|] eqn:E; [discriminate|]. intros _ Hin.
  apply in_map_iff in Hin. destruct Hin as ([n o'] & Eo & Hin). simpl in Eo. subst.
  pose proof (find_none _ _ E _ Hin) as H. simpl in H. rewrite Nat.eqb_refl in H. discriminate.
Qed.

Lemma In_new_of m n o : NoDup (olds m) -> In (n, o) m -> new_of m o = Some n.
Proof.
  unfold new_of, olds. induction m as [|[n' o'] r IH]; intros Hnd Hin; [destruct Hin|]. simpl in *.
  inversion Hnd as [|? ? Ho Hr]; subst.
  destruct Hin as [E|Hin].
  - injection E as -> ->. rewrite Nat.eqb_refl. reflexivity.
  - destruct (Nat.eqb_spec o' o) as [->|_]; [|apply IH; assumption].
    exfalso. apply Ho. apply in_map_iff. exists (n, o). auto.
Qed.

(* the fold that writes the renamed values *)
Lemma fold_rename_get m d : forall base k,
  NoDup (olds m) ->
  pget k (fold_left (fun acc no => match pget (fst no) d with
                                   | Some v => pset (snd no) v acc | None => acc end) m base)
  = match new_of m k with
    | Some n => match pget n d with Some v => Some v | None => pget k base end
    | None => pget k base
    end.
Proof.
  induction m as [|[n o] r IH]; intros base k Hnd; simpl; [reflexivity|].
  unfold olds in Hnd; simpl in Hnd. inversion Hnd as [|? ? Ho Hr]; subst.
  rewrite (IH _ k Hr). unfold new_of. simpl.
  destruct (Nat.eqb_spec o k) as [->|Hne].
  - (* k is this pair's old name: no later pair has it *)
    assert (Hnone : find (fun no => snd no =? k) r = None).
    { destruct (find (fun no => snd no =? k) r) as [[n' o']|] eqn:E; [|reflexivity].
      apply find_some in E. destruct E as [Hin E]. simpl in E. apply Nat.eqb_eq in E. subst.
      exfalso. apply Ho. apply in_map_iff. exists (n', k). auto. }
    fold (new_of r k). unfold new_of. rewrite Hnone. cbn [fst].
    destruct (pget n d) as [v|]; [apply pget_pset_same | reflexivity].
  - fold (new_of r k).
    destruct (new_of r k) as [n'|].
    + destruct (pget n' d); [reflexivity|].
      destruct (pget n d); [apply pget_pset_other; congruence | reflexivity].
    + destruct (pget n d); [apply pget_pset_other; congruence | reflexivity].
Qed.

(* THE characterisation: what arrives under k after a placement's renaming *)
Theorem rename_shield_spec m d k : NoDup (olds m) ->
  pget k (rename_shield m d) = rename_spec m d k.
Proof.
  intros Hnd. unfold rename_shield, rename_spec.
  rewrite (fold_rename_get m d _ k Hnd).
  rewrite (pget_filter (fun x => negb (inl x (news m)) && negb (inl x (olds m))) k d).
  destruct (new_of m k) as [n|] eqn:E.
  - assert (Ho : inl k (olds m) = true).
    { apply inl_In. apply in_map_iff. exists (n, k). split; [reflexivity | apply new_of_In; exact E]. }
    rewrite Ho, andb_false_r. destruct (pget n d); reflexivity.
  - assert (Ho : inl k (olds m) = false).
    { destruct (inl k (olds m)) eqn:Ei; [|reflexivity]. apply inl_In in Ei.
      exfalso. exact (new_of_None m k E Ei). }
    rewrite Ho, andb_true_r. destruct (inl k (news m)); reflexivity.
Qed.

Lemma new_of_perm m m' o : NoDup (olds m) -> Permutation m m' -> new_of m o = new_of m' o.
Proof.
  intros Hnd Hp.
  assert (Hnd' : NoDup (olds m')) by (eapply Permutation_NoDup; [apply Permutation_map; exact Hp | exact Hnd]).
  destruct (new_of m o) as [n|] eqn:E.
  - symmetry. apply In_new_of; [exact Hnd'|]. eapply Permutation_in; [exact Hp | apply new_of_In; exact E].
  - destruct (new_of m' o) as [n'|] eqn:E'; [|reflexivity].
    exfalso. apply (new_of_None m o E). apply in_map_iff. exists (n', o). split; [reflexivity|].
    eapply Permutation_in; [apply Permutation_sym; exact Hp | apply new_of_In; exact E'].
Qed.

(* renaming is simultaneous: the order in which the pairs are listed is irrelevant — chains
   (a->b, b->c) and swaps (a<->b) included *)
Theorem rename_simultaneous m m' d k :
  NoDup (olds m) -> Permutation m m' ->
  pget k (rename_shield m d) = pget k (rename_shield m' d).
Proof.
  intros Hnd Hp.
  assert (Hnd' : NoDup (olds m')) by (eapply Permutation_NoDup; [apply Permutation_map; exact Hp | exact Hnd]).
  rewrite (rename_shield_spec m d k Hnd), (rename_shield_spec m' d k Hnd'). unfold rename_spec.
  rewrite (new_of_perm m m' k Hnd Hp).
  assert (Ein : inl k (news m) = inl k (news m')).
  { destruct (inl k (news m)) eqn:E1, (inl k (news m')) eqn:E2; try reflexivity.
    - apply inl_In in E1. assert (In k (news m')) by (eapply Permutation_in; [apply Permutation_map; exact Hp | exact E1]).
      apply inl_In in H. congruence.
    - apply inl_In in E2. assert (In k (news m)) by (eapply Permutation_in; [apply Permutation_map; apply Permutation_sym; exact Hp | exact E2]).
      apply inl_In in H. congruence. }
  rewrite Ein. reflexivity.
Qed.

(* a renamed parameter is controlled only through its new name: what is supplied under the old
   name from above never reaches the instance *)
Theorem old_name_shielded m d n o :
  NoDup (olds m) -> In (n, o) m -> pget o (rename_shield m d) = pget n d.
Proof.
  intros Hnd Hin. rewrite (rename_shield_spec m d o Hnd). unfold rename_spec.
  rewrite (In_new_of m n o Hnd Hin). reflexivity.
Qed.

(* a name that is neither renamed nor a target passes through unchanged *)
Theorem untouched_name_passes m d k :
  NoDup (olds m) -> ~ In k (news m) -> ~ In k (olds m) -> pget k (rename_shield m d) = pget k d.
Proof.
  intros Hnd Hn Ho. rewrite (rename_shield_spec m d k Hnd). unfold rename_spec.
  assert (E : new_of m k = None).
  { destruct (new_of m k) as [n|] eqn:E; [|reflexivity]. exfalso. apply Ho.
    apply in_map_iff. exists (n, k). split; [reflexivity | apply new_of_In; exact E]. }
  rewrite E. destruct (inl k (news m)) eqn:Ei; [apply inl_In in Ei; contradiction | reflexivity].
Qed.

(* two nested placements act as the composition of their renamings *)
Theorem rename_compose m1 m2 d k :
  NoDup (olds m1) -> NoDup (olds m2) ->
  pget k (rename_shield m2 (rename_shield m1 d))
  = match new_of m2 k with
    | Some n2 => rename_spec m1 d n2
    | None => if inl k (news m2) then None else rename_spec m1 d k
    end.
Proof.
  intros H1 H2. rewrite (rename_shield_spec m2 _ k H2). unfold rename_spec at 1.
  destruct (new_of m2 k) as [n2|]; [apply rename_shield_spec; exact H1|].
  destruct (inl k (news m2)); [reflexivity | apply rename_shield_spec; exact H1].
Qed.

(* ---- add_param and solver-level precedence ---- *)
Section Fn.
Variable fn : nat -> dict -> val.

Theorem solver_precedence defaults adds kw k :
  NoDup (map fst kw) -> NoDup (map ap_name adds) ->
  pget k (solver_update fn defaults adds kw)
  = match find (fun a => Nat.eqb (ap_name a) k) adds with
    | Some a => Some (addp_value fn defaults kw a)
    | None => match pget k kw with Some v => Some v | None => pget k defaults end
    end.
Proof.
  intros Hkw Hadds. unfold solver_update.
  rewrite pget_pupdate.
  rewrite (pget_rev k (map (fun a => (ap_name a, addp_value fn defaults kw a)) adds)).
  2:{ rewrite map_map. simpl. exact Hadds. }
  assert (G : pget k (map (fun a => (ap_name a, addp_value fn defaults kw a)) adds)
              = match find (fun a => Nat.eqb (ap_name a) k) adds with
                | Some a => Some (addp_value fn defaults kw a) | None => None end).
  { clear. induction adds as [|a r IH]; simpl; [reflexivity|].
    destruct (Nat.eqb (ap_name a) k); [reflexivity | exact IH]. }
  rewrite G. destruct (find _ adds); [reflexivity|].
  rewrite pget_pupdate, (pget_rev k kw Hkw). reflexivity.
Qed.

(* each argument of an add_param function: explicit value, else the CURRENT solver default, else
   the default given at definition *)
Theorem add_param_precedence defaults kw a :
  addp_value fn defaults kw a
  = fn (ap_fun a) (map (fun kv => (fst kv,
        match pget (fst kv) kw with
        | Some v => v
        | None => match pget (fst kv) defaults with Some v => v | None => snd kv end end)) (ap_args a)).
Proof. reflexivity. Qed.
End Fn.

(* ---- the loop as found is NOT simultaneous: a swap delivers the wrong values ---- *)
Theorem rename_asfound_refuted :
  exists m d k, NoDup (olds m) /\ NoDup (news m) /\ pget k (rename_asfound m d) <> rename_spec m d k.
Proof.
  exists [(1, 2); (2, 1)]%nat, [(1%nat, 3 # 10); (2%nat, 1 # 10)]%Q, 2%nat.
  split; [repeat constructor; simpl; intuition lia|].
  split; [repeat constructor; simpl; intuition lia|].
  vm_compute. discriminate.
Qed.

(* ---- purity of the working copy (C06) ---- *)
Lemma run_updates_fixed_last defaults ws history inc :
  run_updates upd_fixed defaults ws (history ++ [inc]) = pupdate defaults inc.
Proof. unfold run_updates. rewrite fold_left_app. reflexivity. Qed.

(* after the fix, what a component sees at a call depends only on that call: for every earlier
   history and every starting content of the working copy *)
Theorem history_free defaults ws ws' h h' inc :
  run_updates upd_fixed defaults ws (h ++ [inc]) = run_updates upd_fixed defaults ws' (h' ++ [inc]).
Proof. rewrite !run_updates_fixed_last. reflexivity. Qed.

(* as found, a key supplied once (not among the defaults) leaks into every later call *)
Theorem asfound_leaks :
  exists defaults inc1 inc2 k,
    pget k (run_updates upd_asfound defaults [] [inc1; inc2])
    <> pget k (run_updates upd_asfound defaults [] [inc2]).
Proof.
  exists [(0%nat, 1%Q)], [(0%nat, 2%Q); (5%nat, 3%Q)], [(0%nat, 2%Q)], 5%nat.
  vm_compute. discriminate.
Qed.
