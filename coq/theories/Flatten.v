(* Flatten.v — Solver.flatten (sol.py:535-606), C11.
   Wiring: the flattened solver holds the leaves, all connections and the top exposures; that it
   has the same matrix is C02.  Parameters: the renaming of a lifted structure is composed with
   the renaming of the sub-solver's placement (after the fix: commits F13/F14). *)
From Coq Require Import List Arith Lia Bool QArith Permutation.
From Lekkersim Require Import Field Matrix Base Network Solve Hier Params ParamsProofs.
Import ListNotations.

(* ---- wiring ---- *)
Section Wiring.
Variable K : cfield.

Definition flatten_c (c : circ K) : circ K :=
  match c with
  | Leaf L => Leaf L
  | Sub _ _ _ => Sub (map (@Leaf K) (leaves c)) (all_conns c) (top_expo c)
  end.

Definition is_leaf (c : circ K) : bool := match c with Leaf _ => true | Sub _ _ _ => false end.

(* the flattened solver contains no sub-solvers *)
Theorem flatten_flat c :
  match flatten_c c with Leaf _ => True | Sub subs _ _ => forallb is_leaf subs = true end.
Proof.
  destruct c as [L|subs cs ex]; simpl; [exact I|].
  induction (flat_map leaves subs) as [|L r IH]; simpl; [reflexivity | exact IH].
Qed.

Lemma flat_map_leaf_leaves (ls : list (lst K)) : flat_map leaves (map (@Leaf K) ls) = ls.
Proof. induction ls as [|L r IH]; simpl; [reflexivity|]. rewrite IH. reflexivity. Qed.

Lemma flat_map_leaf_conns (ls : list (lst K)) : flat_map all_conns (map (@Leaf K) ls) = [].
Proof. induction ls as [|L r IH]; simpl; [reflexivity | exact IH]. Qed.

(* ... and denotes the same single-level circuit: same components, connections, exposures *)
Theorem flatten_inline c : inline (flatten_c c) = inline c.
Proof.
  destruct c as [L|subs cs ex]; [reflexivity|].
  unfold inline, flatten_c. cbn [leaves all_conns top_expo].
  rewrite flat_map_leaf_leaves, flat_map_leaf_conns, app_nil_r. reflexivity.
Qed.
End Wiring.

Arguments flatten_c {K}. Arguments is_leaf {K}.

(* ---- parameters: composition of the placement's renaming with an inner structure's ---- *)
(* renamings are lists new -> old.  [st]: placement of the sub-solver (top -> middle);
   [low]: placement of a structure inside it (middle -> bottom). *)
Fixpoint lookup_new (n : nat) (m : rmap) : option nat :=     (* the old name behind new name n *)
  match m with [] => None | (n', o) :: r => if Nat.eqb n' n then Some o else lookup_new n r end.

Definition compose_rmap (st low : rmap) : rmap :=
  filter (fun nb => negb (inl (fst nb) (olds st))) low ++
  flat_map (fun tm => match lookup_new (snd tm) low with
                      | Some b => [(fst tm, b)]
                      | None => if inl (fst tm) (news low) || inl (snd tm) (olds low) then []
                                else [(fst tm, snd tm)]
                      end) st.

(* the same with Python's dict.update: a key already present is overwritten in place *)
Fixpoint rset (n o : nat) (m : rmap) : rmap :=
  match m with
  | [] => [(n, o)]
  | (n', o') :: r => if Nat.eqb n' n then (n, o) :: r else (n', o') :: rset n o r
  end.

Definition compose_dict (st low : rmap) : rmap :=
  fold_left (fun acc tb => rset (fst tb) (snd tb) acc)
    (flat_map (fun tm => match lookup_new (snd tm) low with
                         | Some b => [(fst tm, b)]
                         | None => if inl (fst tm) (news low) || inl (snd tm) (olds low) then []
                                   else [(fst tm, snd tm)]
                         end) st)
    (filter (fun nb => negb (inl (fst nb) (olds st))) low).

(* hygiene: the names introduced by the outer placement are used nowhere inside *)
Definition hygienic (st low : rmap) : Prop :=
  NoDup (olds st) /\ NoDup (news st) /\ NoDup (olds low) /\ NoDup (news low) /\
  (forall t, In t (news st) -> ~ In t (news low) /\ ~ In t (olds low) /\ ~ In t (olds st)).

(* ---- what every leaf receives after flatten(): the top-level dictionary is unchanged (the
   defaults are kept), each leaf sees it through the renamings composed along its path ---- *)
Section DeliverFlat.
Variable fn : nat -> dict -> val.

Fixpoint lift (M : rmap) (t : ptree) (pd : dict) : list (option val) :=
  match t with
  | PLeaf n d => [pget n (model_update [(n, d)] (rename_shield M pd))]
  | PSpy sd => [Some (spy_value (model_update sd (rename_shield M pd)))]
  | PSol children _ _ _ _ =>
      (fix go (l : list (rmap * ptree)) : list (option val) :=
         match l with
         | [] => []
         | (m, c) :: r => lift (compose_dict M m) c pd ++ go r
         end) children
  end.

Definition deliver_flat (t : ptree) (incoming : dict) : list (option val) :=
  match t with
  | PSol children sdef adds sdef2 _ =>
      let pd := solver_update fn (node_defaults t) adds incoming in
      (fix go (l : list (rmap * ptree)) : list (option val) :=
         match l with
         | [] => []
         | (m, c) :: r => lift m c pd ++ go r
         end) children
  | _ => deliver fn t incoming
  end.
End DeliverFlat.
