(* SolveProofs.v — the elimination loop is sound for every netlist and every schedule (C01). *)
From Coq Require Import List Arith Lia Bool Field Ring Setoid Morphisms Permutation.
From Lekkersim Require Import Field Matrix Base Kernel KernelProofs Network Solve.
Import ListNotations.

Lemma NoDup_app_l {A} (l l' : list A) : NoDup (l ++ l') -> NoDup l.
Proof.
  induction l as [|x r IH]; simpl; intros H; [constructor|].
  inversion H as [|? ? Hx Hr]; subst. constructor; [|auto].
  intros Hin. apply Hx. apply in_or_app. left. exact Hin.
Qed.

Lemma NoDup_app_r {A} (l l' : list A) : NoDup (l ++ l') -> NoDup l'.
Proof.
  induction l as [|x r IH]; simpl; intros H; [exact H|].
  inversion H; subst. auto.
Qed.

Lemma NoDup_app_disj {A} (l l' : list A) x : NoDup (l ++ l') -> In x l -> In x l' -> False.
Proof.
  induction l as [|y r IH]; simpl; intros H Hl Hl'; [exact Hl|].
  inversion H as [|? ? Hy Hr]; subst. destruct Hl as [->|Hl].
  - apply Hy. apply in_or_app. right. exact Hl'.
  - eapply IH; eassumption.
Qed.

Lemma NoDup_app_intro {A} (l l' : list A) :
  NoDup l -> NoDup l' -> (forall x, In x l -> ~ In x l') -> NoDup (l ++ l').
Proof.
  induction l as [|x r IH]; simpl; intros H H' Hd; [exact H'|].
  inversion H as [|? ? Hx Hr]; subst. constructor.
  - intros Hin. apply in_app_or in Hin. destruct Hin as [Hin|Hin]; [contradiction|].
    apply (Hd x); [left; reflexivity | exact Hin].
  - apply IH; [exact Hr | exact H' |]. intros y Hy. apply Hd. right. exact Hy.
Qed.

Section SolveProofs.
Variable K : cfield.
Hypothesis KL : cfield_laws K.

Notation "0" := (f0 K).
Notation "1" := (f1 K).
Infix "+" := (fadd K).
Infix "*" := (fmul K).
Infix "-" := (fsub K).
Infix "==" := (feq K) (at level 70).

Add Field Kfield3 : (F_ft K KL) (setoid (feq_equiv K KL) (F_ext K KL)).

(* ---- sums over pin lists ---- *)
Fixpoint lsum (l : list spin) (f : spin -> K) : K :=
  match l with [] => 0 | x :: r => f x + lsum r f end.

Lemma lsum_ext l f g : (forall x, In x l -> f x == g x) -> lsum l f == lsum l g.
Proof.
  induction l as [|x r IH]; intros H; simpl; [reflexivity|].
  rewrite (H x (or_introl eq_refl)), IH; [reflexivity|]. intros y Hy. apply H. right. exact Hy.
Qed.

Lemma lsum_app l l' f : lsum (l ++ l') f == lsum l f + lsum l' f.
Proof. induction l as [|x r IH]; simpl; [ring|]. rewrite IH. ring. Qed.

Lemma lsum_perm l l' f : Permutation l l' -> lsum l f == lsum l' f.
Proof.
  induction 1 as [|x l l' _ IH|x y l|l l' l'' _ IH1 _ IH2]; simpl.
  - reflexivity.
  - rewrite IH. reflexivity.
  - ring.
  - rewrite IH1. exact IH2.
Qed.

Lemma bigsum_nth l (f : spin -> K) : bigsum (length l) (fun j => f (nth j l dpin)) == lsum l f.
Proof.
  induction l as [|x l IH] using rev_ind; simpl; [reflexivity|].
  rewrite app_length. simpl. rewrite Nat.add_1_r. simpl.
  rewrite lsum_app. simpl.
  rewrite (bigsum_ext K KL (length l) _ (fun j => f (nth j l dpin))).
  2:{ intros j Hj. rewrite app_nth1 by exact Hj. reflexivity. }
  rewrite IH. rewrite app_nth2 by lia. rewrite Nat.sub_diag. simpl. ring.
Qed.

(* ---- partition of a pin list ---- *)
Lemma filter_perm (f : spin -> bool) l :
  Permutation l (filter (fun x => negb (f x)) l ++ filter f l).
Proof.
  induction l as [|x r IH]; simpl; [constructor|].
  destruct (f x); simpl.
  - apply Permutation_cons_app. exact IH.
  - constructor. exact IH.
Qed.

Lemma keep_perm xs P : NoDup P -> NoDup xs -> incl xs P -> Permutation P (keep xs P ++ xs).
Proof.
  intros HP Hxs Hincl.
  eapply Permutation_trans; [apply (filter_perm (fun p => mem p xs))|].
  apply Permutation_app_head.
  apply NoDup_Permutation; [apply NoDup_filter; exact HP | exact Hxs |].
  intros x. rewrite filter_In, mem_In. split; [tauto|]. intros H. split; [apply Hincl|]; exact H.
Qed.

Lemma keep_In xs P p : In p (keep xs P) <-> In p P /\ ~ In p xs.
Proof.
  unfold keep. rewrite filter_In, negb_true_iff, mem_nIn. tauto.
Qed.

(* ---- a row of the structure's equations, split along a partition of its pins ---- *)
Lemma Sem_row (A : lst K) a b L1 L2 p :
  NoDup (l_pins A) -> Permutation (l_pins A) (L1 ++ L2) -> In p (l_pins A) -> Sem A a b ->
  b p == bigsum (length L1) (fun j => l_S A (pos p (l_pins A)) (pos (nth j L1 dpin) (l_pins A))
                                      * a (nth j L1 dpin))
       + bigsum (length L2) (fun j => l_S A (pos p (l_pins A)) (pos (nth j L2 dpin) (l_pins A))
                                      * a (nth j L2 dpin)).
Proof.
  intros Hnd Hperm Hp HS. set (P := l_pins A) in *.
  pose proof (HS (pos p P) (pos_lt p P Hp)) as H. fold P in H. rewrite (nth_pos p P Hp) in H.
  rewrite H.
  set (g := fun q => l_S A (pos p P) (pos q P) * a q).
  rewrite (bigsum_ext K KL (length P) _ (fun j => g (nth j P dpin))).
  2:{ intros j Hj. unfold g. rewrite (pos_nth j P Hnd Hj). reflexivity. }
  rewrite bigsum_nth. rewrite (lsum_perm _ _ g Hperm), lsum_app.
  rewrite <- !bigsum_nth. reflexivity.
Qed.

(* ---- entries of the partitioned matrix ---- *)
Lemma nth_map_pos l P i : (i < length l)%nat ->
  nth i (map (fun p => pos p P) l) O = pos (nth i l dpin) P.
Proof.
  intros H. rewrite nth_indep with (d' := pos dpin P) by (rewrite map_length; exact H).
  apply (map_nth (fun p => pos p P)).
Qed.

Lemma part_N (A : lst K) ins outs : sN (part A ins outs) = length ins.
Proof. reflexivity. Qed.
Lemma part_M (A : lst K) ins outs : sM (part A ins outs) = length outs.
Proof. reflexivity. Qed.

Lemma part_S21 (A : lst K) ins outs i j : (i < length ins)%nat -> (j < length ins)%nat ->
  S21 (part A ins outs) i j
  = l_S A (pos (nth i ins dpin) (l_pins A)) (pos (nth j ins dpin) (l_pins A)).
Proof.
  intros Hi Hj. unfold part; cbn [S21]. rewrite tab_ok by assumption.
  rewrite !nth_map_pos by assumption. reflexivity.
Qed.
Lemma part_S22 (A : lst K) ins outs i j : (i < length ins)%nat -> (j < length outs)%nat ->
  S22 (part A ins outs) i j
  = l_S A (pos (nth i ins dpin) (l_pins A)) (pos (nth j outs dpin) (l_pins A)).
Proof.
  intros Hi Hj. unfold part; cbn [S22]. rewrite tab_ok by assumption.
  rewrite !nth_map_pos by assumption. reflexivity.
Qed.
Lemma part_S11 (A : lst K) ins outs i j : (i < length outs)%nat -> (j < length ins)%nat ->
  S11 (part A ins outs) i j
  = l_S A (pos (nth i outs dpin) (l_pins A)) (pos (nth j ins dpin) (l_pins A)).
Proof.
  intros Hi Hj. unfold part; cbn [S11]. rewrite tab_ok by assumption.
  rewrite !nth_map_pos by assumption. reflexivity.
Qed.
Lemma part_S12 (A : lst K) ins outs i j : (i < length outs)%nat -> (j < length outs)%nat ->
  S12 (part A ins outs) i j
  = l_S A (pos (nth i outs dpin) (l_pins A)) (pos (nth j outs dpin) (l_pins A)).
Proof.
  intros Hi Hj. unfold part; cbn [S12]. rewrite tab_ok by assumption.
  rewrite !nth_map_pos by assumption. reflexivity.
Qed.

(* the two rows of a partitioned structure, as matrix-vector products *)
Lemma part_rows (A : lst K) a b ins outs :
  NoDup (l_pins A) -> Permutation (l_pins A) (ins ++ outs) -> Sem A a b ->
  let PA := part A ins outs in
  let vin := fun i => a (nth i ins dpin) in let vout := fun i => a (nth i outs dpin) in
  veq (length ins) (fun i => b (nth i ins dpin))
      (vadd (mv (length ins) (S21 PA) vin) (mv (length outs) (S22 PA) vout)) /\
  veq (length outs) (fun i => b (nth i outs dpin))
      (vadd (mv (length ins) (S11 PA) vin) (mv (length outs) (S12 PA) vout)).
Proof.
  intros Hnd Hperm HS PA vin vout.
  assert (Hin : forall p, In p (ins ++ outs) -> In p (l_pins A)).
  { intros p Hp. eapply Permutation_in; [apply Permutation_sym; exact Hperm | exact Hp]. }
  split; intros i Hi; unfold vadd, mv.
  - rewrite (Sem_row A a b ins outs (nth i ins dpin) Hnd Hperm).
    2:{ apply Hin, in_or_app. left. apply nth_In. exact Hi. }
    2:{ exact HS. }
    rewrite (bigsum_ext K KL (length ins) _ (fun l => S21 PA i l * vin l)).
    2:{ intros j Hj. unfold PA. rewrite part_S21 by assumption. reflexivity. }
    rewrite (bigsum_ext K KL (length outs) _ (fun l => S22 PA i l * vout l)).
    2:{ intros j Hj. unfold PA. rewrite part_S22 by assumption. reflexivity. }
    reflexivity.
  - rewrite (Sem_row A a b ins outs (nth i outs dpin) Hnd Hperm).
    2:{ apply Hin, in_or_app. right. apply nth_In. exact Hi. }
    2:{ exact HS. }
    rewrite (bigsum_ext K KL (length ins) _ (fun l => S11 PA i l * vin l)).
    2:{ intros j Hj. unfold PA. rewrite part_S11 by assumption. reflexivity. }
    rewrite (bigsum_ext K KL (length outs) _ (fun l => S12 PA i l * vout l)).
    2:{ intros j Hj. unfold PA. rewrite part_S12 by assumption. reflexivity. }
    reflexivity.
Qed.

(* conversely: rows of a partitioned structure give back Sem *)
Lemma assemble_entry (P : smx K) i j : (i < sN P + sM P)%nat -> (j < sN P + sM P)%nat ->
  assemble P i j =
    if i <? sN P then (if j <? sN P then S21 P i j else S22 P i (j - sN P)%nat)
    else (if j <? sN P then S11 P (i - sN P)%nat j else S12 P (i - sN P)%nat (j - sN P)%nat).
Proof. intros Hi Hj. unfold assemble. rewrite tab_ok by assumption. reflexivity. Qed.

Lemma Sem_assemble (P : smx K) ins outs a b :
  sN P = length ins -> sM P = length outs ->
  veq (length ins) (fun i => b (nth i ins dpin))
      (outL P (fun i => a (nth i ins dpin)) (fun i => a (nth i outs dpin))) ->
  veq (length outs) (fun i => b (nth i outs dpin))
      (outR P (fun i => a (nth i ins dpin)) (fun i => a (nth i outs dpin))) ->
  Sem {| l_pins := ins ++ outs; l_S := assemble P |} a b.
Proof.
  intros EN EM HL HR. unfold Sem; cbn [l_pins l_S]. rewrite app_length.
  intros i Hi.
  rewrite (bigsum_split K KL).
  set (n := length ins) in *. set (m := length outs) in *.
  destruct (Nat.ltb_spec i n) as [Hin|Hin].
  - rewrite app_nth1 by exact Hin. rewrite (HL i Hin). unfold outL, vadd, mv. rewrite EN, EM.
    fold n m.
    rewrite (bigsum_ext K KL n (fun j => assemble P i j * a (nth j (ins ++ outs) dpin))
               (fun l => S21 P i l * a (nth l ins dpin))).
    2:{ intros j Hj. rewrite assemble_entry by lia. rewrite EN. fold n.
        destruct (Nat.ltb_spec i n); [|lia]. destruct (Nat.ltb_spec j n); [|lia].
        rewrite app_nth1 by exact Hj. reflexivity. }
    rewrite (bigsum_ext K KL m (fun j => assemble P i (n + j)%nat * a (nth (n + j)%nat (ins ++ outs) dpin))
               (fun l => S22 P i l * a (nth l outs dpin))).
    2:{ intros j Hj. rewrite assemble_entry by lia. rewrite EN. fold n.
        destruct (Nat.ltb_spec i n); [|lia]. destruct (Nat.ltb_spec (n + j)%nat n); [lia|].
        rewrite app_nth2 by (fold n; lia). fold n.
        replace (n + j - n)%nat with j by lia. reflexivity. }
    reflexivity.
  - rewrite app_nth2 by (fold n; lia). fold n.
    assert (Him : (i - n < m)%nat) by lia.
    rewrite (HR (i - n)%nat Him). unfold outR, vadd, mv. rewrite EN, EM. fold n m.
    rewrite (bigsum_ext K KL n (fun j => assemble P i j * a (nth j (ins ++ outs) dpin))
               (fun l => S11 P (i - n)%nat l * a (nth l ins dpin))).
    2:{ intros j Hj. rewrite assemble_entry by lia. rewrite EN. fold n.
        destruct (Nat.ltb_spec i n); [lia|]. destruct (Nat.ltb_spec j n); [|lia].
        rewrite app_nth1 by exact Hj. reflexivity. }
    rewrite (bigsum_ext K KL m (fun j => assemble P i (n + j)%nat * a (nth (n + j)%nat (ins ++ outs) dpin))
               (fun l => S12 P (i - n)%nat l * a (nth l outs dpin))).
    2:{ intros j Hj. rewrite assemble_entry by lia. rewrite EN. fold n.
        destruct (Nat.ltb_spec i n); [lia|]. destruct (Nat.ltb_spec (n + j)%nat n); [lia|].
        rewrite app_nth2 by (fold n; lia). fold n.
        replace (n + j - n)%nat with j by lia. reflexivity. }
    reflexivity.
Qed.

(* ---- links ---- *)
Lemma links_spec cs (A B : lst K) x y :
  In (x, y) (links cs A B) <-> In x (l_pins A) /\ partner cs x = Some y /\ In y (l_pins B).
Proof.
  unfold links. rewrite in_flat_map. split.
  - intros (x' & Hx' & H). destruct (partner cs x') as [y'|] eqn:E; [|destruct H].
    destruct (mem y' (l_pins B)) eqn:Em; [|destruct H].
    destruct H as [H|[]]. injection H as <- <-. rewrite mem_In in Em. auto.
  - intros (Hx & Hp & Hy). exists x. split; [exact Hx|]. rewrite Hp.
    apply mem_In in Hy. rewrite Hy. left. reflexivity.
Qed.

Lemma links_fst_sub cs (A B : lst K) : incl (map fst (links cs A B)) (l_pins A).
Proof.
  intros x Hx. apply in_map_iff in Hx. destruct Hx as ([x' y] & <- & H).
  apply links_spec in H. tauto.
Qed.

Lemma links_snd_sub cs (A B : lst K) : incl (map snd (links cs A B)) (l_pins B).
Proof.
  intros y Hy. apply in_map_iff in Hy. destruct Hy as ([x y'] & <- & H).
  apply links_spec in H. tauto.
Qed.

Lemma links_fst_nodup cs (A B : lst K) : NoDup (l_pins A) -> NoDup (map fst (links cs A B)).
Proof.
  unfold links. induction (l_pins A) as [|x r IH]; intros H; simpl; [constructor|].
  inversion H as [|? ? Hx Hr]; subst. rewrite map_app. specialize (IH Hr).
  destruct (partner cs x) as [y|]; [|exact IH].
  destruct (mem y (l_pins B)); [|exact IH]. simpl. constructor; [|exact IH].
  intros Hin. apply Hx. apply in_map_iff in Hin. destruct Hin as ([x' y'] & E & Hin). simpl in E. subst x'.
  apply in_flat_map in Hin. destruct Hin as (x'' & Hx'' & Hin).
  destruct (partner cs x'') as [y''|]; [|destruct Hin].
  destruct (mem y'' (l_pins B)); [|destruct Hin]. destruct Hin as [E|[]]. injection E as -> _. exact Hx''.
Qed.

Lemma links_nth cs (A B : lst K) j : (j < length (links cs A B))%nat ->
  partner cs (nth j (map fst (links cs A B)) dpin) = Some (nth j (map snd (links cs A B)) dpin).
Proof.
  intros Hj.
  assert (H : In (nth j (links cs A B) (dpin, dpin)) (links cs A B)) by (apply nth_In; exact Hj).
  rewrite nth_indep with (d' := fst (dpin, dpin)) by (rewrite map_length; exact Hj).
  rewrite map_nth.
  rewrite (nth_indep (map snd _) dpin (snd (dpin, dpin))) by (rewrite map_length; exact Hj).
  rewrite map_nth. destruct (nth j (links cs A B) (dpin, dpin)) as [x y]. simpl.
  apply links_spec in H. tauto.
Qed.

(* ---- join is sound ---- *)
Definition link_eqs (cs : list conn) (a b : waves K) : Prop :=
  forall x y, In (x, y) cs -> a x == b y /\ a y == b x.

Lemma link_eqs_partner cs a b x y : link_eqs cs a b -> partner cs x = Some y ->
  a x == b y /\ a y == b x.
Proof.
  intros H Hp. destruct (partner_In cs x y Hp) as [Hin|Hin].
  - apply H. exact Hin.
  - destruct (H y x Hin). split; assumption.
Qed.

Lemma join_inv cs (A B C : lst K) : join cs A B = Ok C ->
  let lk := links cs A B in
  let xs := map fst lk in let ys := map snd lk in
  NoDup (l_pins A ++ l_pins B) /\ NoDup ys /\
  exists P, sadd (part A (keep xs (l_pins A)) xs) (part B ys (keep ys (l_pins B))) = Ok P /\
            C = {| l_pins := keep xs (l_pins A) ++ keep ys (l_pins B); l_S := assemble P |}.
Proof.
  intros H. cbv zeta. unfold join in H. cbv zeta in H.
  destruct (nodupb (l_pins A ++ l_pins B)) eqn:E1; simpl in H; [|discriminate].
  destruct (nodupb (map snd (links cs A B))) eqn:E2; simpl in H; [|discriminate].
  apply bind_ok in H. destruct H as (P & HP & H). injection H as <-.
  split; [apply nodupb_ok; exact E1|]. split; [apply nodupb_ok; exact E2|].
  exists P. split; [exact HP | reflexivity].
Qed.

Theorem join_sound cs (A B C : lst K) a b :
  join cs A B = Ok C -> Sem A a b -> Sem B a b -> link_eqs cs a b -> Sem C a b.
Proof.
  intros HJ HA HB HL.
  apply join_inv in HJ. cbv zeta in HJ.
  set (lk := links cs A B) in *. set (xs := map fst lk) in *. set (ys := map snd lk) in *.
  destruct HJ as (Hnd & Hndy & P & HP & ->).
  assert (HndA : NoDup (l_pins A)) by (apply NoDup_app_l in Hnd; exact Hnd).
  assert (HndB : NoDup (l_pins B)) by (apply NoDup_app_r in Hnd; exact Hnd).
  assert (Hndx : NoDup xs) by (apply links_fst_nodup; exact HndA).
  set (Ain := keep xs (l_pins A)) in *. set (Bout := keep ys (l_pins B)) in *.
  assert (PermA : Permutation (l_pins A) (Ain ++ xs)).
  { apply keep_perm; [exact HndA | exact Hndx | apply links_fst_sub]. }
  assert (PermB : Permutation (l_pins B) (ys ++ Bout)).
  { eapply Permutation_trans; [|apply Permutation_app_comm].
    apply keep_perm; [exact HndB | exact Hndy | apply links_snd_sub]. }
  destruct (part_rows A a b Ain xs HndA PermA HA) as [A1 A2].
  destruct (part_rows B a b ys Bout HndB PermB HB) as [B1 B2].
  assert (Lxy : length xs = length ys) by (unfold xs, ys; rewrite !map_length; reflexivity).
  assert (Llk : length xs = length lk) by (unfold xs; rewrite map_length; reflexivity).
  (* the link equations, index-wise *)
  assert (HLK : forall j, (j < length xs)%nat ->
            a (nth j xs dpin) == b (nth j ys dpin) /\ a (nth j ys dpin) == b (nth j xs dpin)).
  { intros j Hj. apply (link_eqs_partner cs a b _ _ HL). apply links_nth. fold lk. rewrite <- Llk. exact Hj. }
  set (aL := fun i => a (nth i Ain dpin)). set (aR := fun i => a (nth i Bout dpin)).
  set (yv := fun i => a (nth i xs dpin)). set (xv := fun i => b (nth i xs dpin)).
  set (bL := fun i => b (nth i Ain dpin)). set (bR := fun i => b (nth i Bout dpin)).
  assert (SE : star_eqs (part A Ain xs) (part B ys Bout) aL yv xv aR bL bR).
  { unfold star_eqs. rewrite !part_N, !part_M. split; [|split; [|split]].
    - exact A1.
    - exact A2.
    - intros i Hi. unfold yv. rewrite <- Lxy in Hi. destruct (HLK i Hi) as [E1 _]. rewrite E1.
      rewrite Lxy in Hi. rewrite (B1 i Hi). unfold vadd.
      rewrite (mv_cong K KL (length ys) _ (fun i0 => a (nth i0 ys dpin)) xv i); [reflexivity|].
      intros j Hj. unfold xv. rewrite <- Lxy in Hj. destruct (HLK j Hj) as [_ E2]. exact E2.
    - intros i Hi. unfold bR. rewrite (B2 i Hi). unfold vadd.
      rewrite (mv_cong K KL (length ys) _ (fun i0 => a (nth i0 ys dpin)) xv i); [reflexivity|].
      intros j Hj. unfold xv. rewrite <- Lxy in Hj. destruct (HLK j Hj) as [_ E2]. exact E2. }
  destruct (sadd_shape K KL _ _ _ HP) as [EN EM]. rewrite part_N in EN. rewrite part_M in EM.
  destruct (sadd_sound K KL _ _ _ _ _ _ _ _ _ HP SE) as [OL OR].
  rewrite EN in OL. rewrite EM in OR.
  apply Sem_assemble; assumption.
Qed.

(* ---- the loop ---- *)
Lemma In_remove_nth {A} (x : A) i l : In x (remove_nth i l) -> In x l.
Proof.
  revert i. induction l as [|y r IH]; intros i H; simpl in *; [destruct i; exact H|].
  destruct i as [|i]; [right; exact H|]. destruct H as [H|H]; [left; exact H|right; eapply IH; exact H].
Qed.

Lemma merge_step_sound cs (live live' : list (lst K)) ij a b :
  merge_step cs live ij = Ok live' -> link_eqs cs a b ->
  (forall L, In L live -> Sem L a b) -> (forall L, In L live' -> Sem L a b).
Proof.
  unfold merge_step. destruct ij as [i j]. intros H HL Hall.
  destruct (Nat.eqb i j || negb (i <? length live) || negb (j <? length live)) eqn:E; [discriminate|].
  apply orb_false_iff in E. destruct E as [E Ej]. apply orb_false_iff in E. destruct E as [_ Ei].
  apply negb_false_iff, Nat.ltb_lt in Ei. apply negb_false_iff, Nat.ltb_lt in Ej.
  apply bind_ok in H. destruct H as (C & HC & H). injection H as <-.
  intros L HIn. apply in_app_or in HIn. destruct HIn as [HIn|[<-|[]]].
  - apply Hall. eapply In_remove_nth. eapply In_remove_nth. exact HIn.
  - eapply join_sound; [exact HC | | | exact HL]; apply Hall; apply nth_In; assumption.
Qed.

Lemma solve_sched_sound cs sched : forall (live live' : list (lst K)) a b,
  solve_sched cs live sched = Ok live' -> link_eqs cs a b ->
  (forall L, In L live -> Sem L a b) -> (forall L, In L live' -> Sem L a b).
Proof.
  induction sched as [|ij rest IH]; intros live live' a b H HL Hall; simpl in H.
  - injection H as <-. exact Hall.
  - apply bind_ok in H. destruct H as (live1 & H1 & H2).
    eapply IH; [exact H2 | exact HL |]. eapply merge_step_sound; eassumption.
Qed.

Lemma solve_inv (net : netlist K) sched T : solve net sched = Ok T ->
  NoDup (conn_ends (conns net)) /\
  solve_sched (conns net) (comps net) sched = Ok [T] /\
  (forall p, In p (l_pins T) -> partner (conns net) p = None) /\
  NoDup (allpins (comps net)) /\
  (forall p, In p (conn_ends (conns net)) -> In p (allpins (comps net))).
Proof.
  unfold solve. destruct (nodupb (conn_ends (conns net))) eqn:E0; simpl; [|discriminate].
  destruct (nodupb (allpins (comps net))) eqn:E00; simpl; [|discriminate].
  destruct (forallb _ (conn_ends (conns net))) eqn:E01; simpl; [|discriminate].
  intros H. apply bind_ok in H. destruct H as (live & Hl & H).
  destruct live as [|T' [|? ?]]; try discriminate.
  destruct (forallb _ (l_pins T')) eqn:E; [|discriminate]. injection H as <-.
  split; [apply nodupb_ok; exact E0|]. split; [exact Hl|]. split; [|split].
  - intros p Hp. rewrite forallb_forall in E. specialize (E p Hp).
    destruct (partner (conns net) p); [discriminate|reflexivity].
  - apply nodupb_ok. exact E00.
  - intros p Hp. rewrite forallb_forall in E01. apply mem_In. apply E01. exact Hp.
Qed.

(* pins only disappear *)
Lemma allpins_In (live : list (lst K)) L p : In L live -> In p (l_pins L) -> In p (allpins live).
Proof.
  intros HL Hp. unfold allpins. apply in_concat. exists (l_pins L). split; [|exact Hp].
  apply in_map. exact HL.
Qed.

Lemma join_pins cs (A B C : lst K) : join cs A B = Ok C ->
  l_pins C = keep (map fst (links cs A B)) (l_pins A) ++ keep (map snd (links cs A B)) (l_pins B).
Proof. intros H. apply join_inv in H. cbv zeta in H. destruct H as (_ & _ & P & _ & ->). reflexivity. Qed.

Lemma merge_step_sub cs (live live' : list (lst K)) ij :
  merge_step cs live ij = Ok live' -> forall p, In p (allpins live') -> In p (allpins live).
Proof.
  unfold merge_step. destruct ij as [i j]. intros H.
  destruct (Nat.eqb i j || negb (i <? length live) || negb (j <? length live)) eqn:E; [discriminate|].
  apply orb_false_iff in E. destruct E as [E Ej]. apply orb_false_iff in E. destruct E as [_ Ei].
  apply negb_false_iff, Nat.ltb_lt in Ei. apply negb_false_iff, Nat.ltb_lt in Ej.
  apply bind_ok in H. destruct H as (C & HC & H). injection H as <-.
  intros p Hp. unfold allpins in Hp. apply in_concat in Hp. destruct Hp as (l & Hl & Hp).
  apply in_map_iff in Hl. destruct Hl as (L & <- & HL).
  apply in_app_or in HL. destruct HL as [HL|[<-|[]]].
  - eapply allpins_In; [|exact Hp]. eapply In_remove_nth. eapply In_remove_nth. exact HL.
  - rewrite (join_pins _ _ _ _ HC) in Hp. apply in_app_or in Hp.
    destruct Hp as [Hp|Hp]; apply keep_In in Hp; destruct Hp as [Hp _].
    + eapply allpins_In; [apply nth_In; exact Ei | exact Hp].
    + eapply allpins_In; [apply nth_In; exact Ej | exact Hp].
Qed.

Lemma solve_sched_sub cs sched : forall (live live' : list (lst K)),
  solve_sched cs live sched = Ok live' -> forall p, In p (allpins live') -> In p (allpins live).
Proof.
  induction sched as [|ij rest IH]; intros live live' H p Hp; simpl in H.
  - injection H as <-. exact Hp.
  - apply bind_ok in H. destruct H as (live1 & H1 & H2).
    eapply merge_step_sub; [exact H1|]. eapply IH; eassumption.
Qed.

(* THE property: whatever the schedule, a returned result reports the network's solution *)
Theorem solve_sound (net : netlist K) sched T : solve net sched = Ok T -> reports net T.
Proof.
  intros H. apply solve_inv in H. destruct H as (_ & Hs & Hfree & _ & _).
  intros u a b (E1 & E2 & E3).
  assert (HT : Sem T a b).
  { eapply (solve_sched_sound _ _ _ _ a b Hs E2); [|left; reflexivity]. exact E1. }
  intros i Hi. rewrite (HT i Hi). apply (bigsum_ext K KL). intros j Hj.
  assert (Hin : In (nth j (l_pins T) dpin) (l_pins T)) by (apply nth_In; exact Hj).
  rewrite (E3 (nth j (l_pins T) dpin)); [reflexivity | | apply Hfree; exact Hin].
  apply (solve_sched_sub _ _ _ _ Hs). unfold allpins; simpl. rewrite app_nil_r. exact Hin.
Qed.

End SolveProofs.
