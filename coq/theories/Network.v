(* Network.v — declarative specification: netlists, wave assignments, the network equations.
   A pin is (component id, local port index); names live in the harness (and in Modes.v/Wiring.v).
   Also: the live structures of the elimination loop and their semantics [Sem]. *)
From Coq Require Import List Arith Lia Bool Setoid Morphisms.
From Lekkersim Require Import Field Matrix Base.
Import ListNotations.

Definition spin := (nat * nat)%type.
Definition spin_eqb (x y : spin) : bool := Nat.eqb (fst x) (fst y) && Nat.eqb (snd x) (snd y).

Lemma spin_eqb_spec x y : reflect (x = y) (spin_eqb x y).
Proof.
  unfold spin_eqb. destruct x as [a b], y as [c d]; simpl.
  destruct (Nat.eqb_spec a c), (Nat.eqb_spec b d); simpl; constructor; congruence.
Qed.

Lemma spin_eqb_refl x : spin_eqb x x = true.
Proof. destruct (spin_eqb_spec x x); congruence. Qed.

Definition spin_dec (x y : spin) : {x = y} + {x <> y}.
Proof. decide equality; apply Nat.eq_dec. Defined.

Definition dpin : spin := (0, 0)%nat.

Fixpoint mem (x : spin) (l : list spin) : bool :=
  match l with [] => false | y :: r => spin_eqb y x || mem x r end.

Lemma mem_In x l : mem x l = true <-> In x l.
Proof.
  induction l as [|y r IH]; simpl; [split; [discriminate|tauto]|].
  rewrite orb_true_iff, IH. destruct (spin_eqb_spec y x); intuition congruence.
Qed.

Lemma mem_nIn x l : mem x l = false <-> ~ In x l.
Proof. rewrite <- mem_In. destruct (mem x l); intuition congruence. Qed.

(* position of a pin in a pin list (length of the list when absent) *)
Fixpoint pos (x : spin) (l : list spin) : nat :=
  match l with [] => O | y :: r => if spin_eqb y x then O else S (pos x r) end.

Lemma pos_lt x l : In x l -> (pos x l < length l)%nat.
Proof.
  induction l as [|y r IH]; simpl; [tauto|]. intros H.
  destruct (spin_eqb_spec y x); [lia|]. destruct H; [congruence|]. specialize (IH H). lia.
Qed.

Lemma nth_pos x l : In x l -> nth (pos x l) l dpin = x.
Proof.
  induction l as [|y r IH]; simpl; [tauto|]. intros H.
  destruct (spin_eqb_spec y x); [assumption|]. destruct H; [congruence|]. auto.
Qed.

Lemma pos_nth i l : NoDup l -> (i < length l)%nat -> pos (nth i l dpin) l = i.
Proof.
  revert i. induction l as [|y r IH]; intros i Hnd Hi; simpl in *; [lia|].
  inversion Hnd as [|? ? Hy Hr]; subst.
  destruct i as [|i]; [rewrite spin_eqb_refl; reflexivity|].
  destruct (spin_eqb_spec y (nth i r dpin)) as [E|E].
  - exfalso. apply Hy. rewrite E. apply nth_In. lia.
  - f_equal. apply IH; [assumption|lia].
Qed.

Fixpoint nodupb (l : list spin) : bool :=
  match l with [] => true | x :: r => negb (mem x r) && nodupb r end.

Lemma nodupb_ok l : nodupb l = true -> NoDup l.
Proof.
  induction l as [|x r IH]; simpl; intros H; [constructor|].
  apply andb_true_iff in H. destruct H as [H1 H2]. constructor; [|auto].
  apply mem_nIn. destruct (mem x r); [discriminate|reflexivity].
Qed.

(* connections *)
Definition conn := (spin * spin)%type.

Fixpoint partner (cs : list conn) (x : spin) : option spin :=
  match cs with
  | [] => None
  | (a, b) :: r => if spin_eqb a x then Some b else if spin_eqb b x then Some a else partner r x
  end.

Lemma partner_In cs x y : partner cs x = Some y -> In (x, y) cs \/ In (y, x) cs.
Proof.
  induction cs as [|[a b] r IH]; simpl; [discriminate|].
  destruct (spin_eqb_spec a x) as [->|Ha].
  - intros H; injection H as <-. auto.
  - destruct (spin_eqb_spec b x) as [->|Hb].
    + intros H; injection H as <-. auto.
    + intros H. destruct (IH H); auto.
Qed.

Lemma partner_None cs x : partner cs x = None ->
  forall c, In c cs -> fst c <> x /\ snd c <> x.
Proof.
  induction cs as [|[a b] r IH]; simpl; [tauto|].
  destruct (spin_eqb_spec a x) as [->|Ha]; [discriminate|].
  destruct (spin_eqb_spec b x) as [->|Hb]; [discriminate|].
  intros H c [<-|Hc]; simpl; [split; assumption|]. apply IH; assumption.
Qed.

Section Net.
Variable K : cfield.
Notation "0" := (f0 K).
Infix "+" := (fadd K).
Infix "*" := (fmul K).
Infix "==" := (feq K) (at level 70).

(* a live structure of the elimination loop: ordered pins, matrix indexed by position *)
Record lst := { l_pins : list spin; l_S : mx K }.

(* a component of a netlist: id, number of ports, matrix; its pins are (id, 0) ... (id, n-1) *)
Record comp := { c_id : nat; c_n : nat; c_S : mx K }.

Definition comp_pins (c : comp) : list spin := map (fun k => (c_id c, k)) (seq 0 (c_n c)).
Definition lst_of_comp (c : comp) : lst := {| l_pins := comp_pins c; l_S := c_S c |}.

(* a netlist: components are given with their (globally named) pins *)
Record netlist := { comps : list lst; conns : list conn; expo : list spin }.

Definition allpins (live : list lst) : list spin := concat (map l_pins live).

Definition waves := spin -> K.

(* a structure obeys its own equations *)
Definition Sem (A : lst) (a b : waves) : Prop :=
  let n := length (l_pins A) in
  forall i, (i < n)%nat ->
    b (nth i (l_pins A) dpin) == bigsum n (fun j => l_S A i j * a (nth j (l_pins A) dpin)).

(* excitation seen by a free pin: the external amplitude if exposed, nothing otherwise *)
Definition ext (ex : list spin) (u : waves) (x : spin) : K := if mem x ex then u x else 0.

Definition wave_solution (net : netlist) (u a b : waves) : Prop :=
  (forall L, In L (comps net) -> Sem L a b) /\
  (forall x y, In (x, y) (conns net) -> a x == b y /\ a y == b x) /\
  (forall x, In x (allpins (comps net)) -> partner (conns net) x = None -> a x == ext (expo net) u x).

(* what a solved result (ordered pins + matrix) claims about the circuit *)
Definition reports (net : netlist) (T : lst) : Prop :=
  forall u a b, wave_solution net u a b -> Sem T (ext (expo net) u) b.

End Net.

Arguments l_pins {K}. Arguments l_S {K}. Arguments c_id {K}. Arguments c_n {K}. Arguments c_S {K}.
Arguments comp_pins {K}. Arguments lst_of_comp {K}. Arguments comps {K}. Arguments conns {K}.
Arguments expo {K}. Arguments Sem {K}. Arguments ext {K}. Arguments wave_solution {K}.
Arguments reports {K}. Arguments allpins {K}.
