(* PruneProofs.v — the pruned solver solves to the matrix of the original circuit (C19). *)
From Coq Require Import List Arith Lia Bool Setoid Morphisms.
From Lekkersim Require Import Field Matrix Base Kernel Network Solve SolveProofs SolveComplete Hier HierProofs Prune.
Import ListNotations.

Section PruneProofs.
Variable K : cfield.
Hypothesis KL : cfield_laws K.

Definition nonempty (L : lst K) : bool := match l_pins L with [] => false | _ => true end.

Lemma allpins_filter_nonempty (ls : list (lst K)) : allpins (filter nonempty ls) = allpins ls.
Proof.
  unfold allpins. induction ls as [|L r IH]; [reflexivity|]. simpl. unfold nonempty at 1.
  destruct (l_pins L) eqn:E; simpl; rewrite IH; [reflexivity|]. rewrite E. reflexivity.
Qed.

(* dead sub-solvers hold no connections (nothing can be wired to a structure without pins) *)
Fixpoint clean (c : circ K) : Prop :=
  match c with
  | Leaf _ => True
  | Sub subs _ _ =>
      (fix all (l : list (circ K)) : Prop :=
         match l with
         | [] => True
         | c' :: r => (dead c' = true -> all_conns c' = []) /\ clean c' /\ all r
         end) subs
  end.

Lemma prune_conns (c : circ K) : clean c -> all_conns (prune c) = all_conns c.
Proof.
  induction c as [L|subs cs ex IH] using (circ_ind2 K); intros Hc; [reflexivity|].
  rewrite prune_Sub. simpl. f_equal. simpl in Hc.
  induction subs as [|c r IHr]; [reflexivity|]. simpl. destruct Hc as (Hd & Hcl & Hr).
  assert (IHr' : flat_map all_conns (prune_list r) = flat_map all_conns r).
  { apply IHr; [intros c' Hc'; apply IH; right; exact Hc' | exact Hr]. }
  destruct (dead c) eqn:E; simpl.
  - rewrite (Hd eq_refl). simpl. exact IHr'.
  - rewrite IHr'. f_equal. apply IH; [left; reflexivity | exact Hcl].
Qed.

Lemma prune_expo (c : circ K) : top_expo (prune c) = top_expo c.
Proof. destruct c; reflexivity. Qed.

(* the network equations of the pruned circuit are those of the original one *)
Theorem prune_waves (c : circ K) u a b : clean c -> dead c = false ->
  (wave_solution (inline c) u a b <-> wave_solution (inline (prune c)) u a b).
Proof.
  intros Hcl Hd.
  destruct (prune_leaves K c) as [HL|HL]; [|congruence].
  change (fun L : lst K => match l_pins L with [] => false | _ => true end) with nonempty in HL.
  unfold wave_solution, inline; cbn [comps conns expo].
  rewrite (prune_conns c Hcl), (prune_expo c), HL, allpins_filter_nonempty.
  split; intros (E1 & E2 & E3); (split; [|split; [exact E2 | exact E3]]).
  - intros L HLin. apply filter_In in HLin. apply E1. tauto.
  - intros L HLin. destruct (nonempty L) eqn:En.
    + apply E1. apply filter_In. auto.
    + unfold nonempty in En. intros i Hi. destruct (l_pins L); [simpl in Hi; lia | discriminate].
Qed.

(* hence: solving the pruned solver reports the solution of the ORIGINAL circuit's equations *)
Theorem prune_same_matrix pick c R :
  clean c -> dead c = false -> hier_wf K (prune c) -> solve_hier pick (prune c) = Ok R ->
  reports (inline c) R.
Proof.
  intros Hcl Hd Hwf HR u a b W.
  destruct (hier_sound K KL pick (prune c) R Hwf HR) as [_ Rep].
  pose proof (Rep u a b (proj1 (prune_waves c u a b Hcl Hd) W)) as S.
  cbn [inline expo] in *. rewrite prune_expo in S. exact S.
Qed.

End PruneProofs.
