(* WiringProofs.v — facts about the model of the wiring operations that hold in EVERY state
   (validation precedes mutation; repeated connects are no-ops; rejected adds change nothing). *)
From Coq Require Import List Arith Lia Bool.
From Lekkersim Require Import Base Network Wiring.
Import ListNotations.

Lemma dget_dset_same {V} (k : spin) (v : V) d : dget spin_eqb k (dset spin_eqb k v d) = Some v.
Proof.
  induction d as [|[k' v'] r IH]; simpl; [rewrite spin_eqb_refl; reflexivity|].
  destruct (spin_eqb_spec k' k) as [->|Hne]; simpl.
  - rewrite spin_eqb_refl. reflexivity.
  - destruct (spin_eqb_spec k' k); [contradiction|]. exact IH.
Qed.

(* add of a structure that is already present: rejected, nothing changes *)
Theorem add_present_rejected s id n :
  nmem id (w_structs s) = true -> step s (Add id n) = (s, Some EAlreadyPresent).
Proof. intros H. simpl. rewrite H. reflexivity. Qed.

(* cut / remove of a structure that is not present: rejected, nothing changes *)
Theorem cut_absent_rejected s id :
  nmem id (w_structs s) = false ->
  step s (Cut id) = (s, Some ENotPresent) /\ step s (Remove id) = (s, Some ENotPresent).
Proof. intros H. simpl. unfold cut_op, remove_op, detach_op. rewrite H. simpl. split; reflexivity. Qed.

(* every validation failure of connect leaves the state untouched: the only way for
   [step s (Connect x y)] to return a changed state together with an error is a stale
   per-structure table refusing add_conn after validation passed *)
Theorem connect_validation_atomic s x y s' e :
  step s (Connect x y) = (s', Some e) ->
  s' = s \/
  (Nat.eqb (fst x) (fst y) = false /\ mem x (w_clist s) = false /\ mem y (w_clist s) = false /\
   mem x (w_free s) = true /\ mem y (w_free s) = true).
Proof.
  simpl. destruct (Nat.eqb (fst x) (fst y)) eqn:E0; [intros H; injection H as <- _; auto|].
  destruct (mem x (w_clist s)) eqn:E1.
  { destruct (dget spin_eqb x (w_conns s)) as [y'|]; destruct (dget spin_eqb y (w_conns s)) as [x'|];
      repeat match goal with |- context [if ?b then _ else _] => destruct b end;
      intros H; injection H as <- _; auto. }
  destruct (mem y (w_clist s)) eqn:E2; [intros H; injection H as <- _; auto|].
  destruct (mem x (w_free s)) eqn:E3; simpl; [|intros H; injection H as <- _; auto].
  destruct (mem y (w_free s)) eqn:E4; simpl; [|intros H; injection H as <- _; auto].
  intros _. right. auto.
Qed.

(* a pin that is connected is refused for any other partner, in either argument position *)
Theorem one_connection_per_pin s x y :
  mem x (w_clist s) = true \/ mem y (w_clist s) = true ->
  Nat.eqb (fst x) (fst y) = false ->
  dget spin_eqb x (w_conns s) <> Some y -> dget spin_eqb y (w_conns s) <> Some x ->
  step s (Connect x y) = (s, Some EAlreadyConnected).
Proof.
  intros H E0 Hxy Hyx. simpl. rewrite E0.
  destruct (mem x (w_clist s)) eqn:E1.
  - destruct (dget spin_eqb x (w_conns s)) as [y'|] eqn:Dx.
    + destruct (spin_eqb_spec y' y) as [->|_]; [congruence|].
      destruct (dget spin_eqb y (w_conns s)) as [x'|] eqn:Dy; [|reflexivity].
      destruct (spin_eqb_spec x' x) as [->|_]; [congruence|reflexivity].
    + destruct (dget spin_eqb y (w_conns s)) as [x'|] eqn:Dy; [|reflexivity].
      destruct (spin_eqb_spec x' x) as [->|_]; [congruence|reflexivity].
  - destruct H as [H|H]; [discriminate|]. rewrite H. reflexivity.
Qed.

(* repeating an accepted connect, in either orientation, is a no-op *)
Theorem connect_idempotent s x y :
  Nat.eqb (fst x) (fst y) = false ->
  mem x (w_clist s) = true -> mem y (w_clist s) = true ->
  dget spin_eqb x (w_conns s) = Some y -> dget spin_eqb y (w_conns s) = None ->
  step s (Connect x y) = (s, None) /\ step s (Connect y x) = (s, None).
Proof.
  intros E0 Hx Hy Dx Dy. split; simpl.
  - rewrite E0, Hx, Dx, spin_eqb_refl. reflexivity.
  - rewrite Nat.eqb_sym, E0, Hy, Dy, Dx, spin_eqb_refl. reflexivity.
Qed.

(* what an accepted connect records: afterwards the repeat is recognised *)
Theorem connect_records s x y s' :
  step s (Connect x y) = (s', None) -> mem x (w_clist s) = false ->
  dget spin_eqb x (w_conns s') = Some y /\ mem x (w_clist s') = true /\ mem y (w_clist s') = true.
Proof.
  simpl. destruct (Nat.eqb (fst x) (fst y)); [discriminate|]. intros H Hx. rewrite Hx in H.
  destruct (mem y (w_clist s)); [discriminate|].
  destruct (negb (mem x (w_free s)) || negb (mem y (w_free s))); [discriminate|].
  destruct (add_conn _ x y) as [t1|]; [|discriminate].
  destruct (add_conn _ y x) as [t2|]; [|discriminate].
  injection H as <-. unfold setst; cbn [w_conns w_clist].
  split; [apply dget_dset_same|]. split; apply mem_In; apply in_or_app; right; simpl; auto.
Qed.

(* solving never changes the circuit *)
Theorem solve_is_query s : step s SolveOp = (s, None).
Proof. reflexivity. Qed.
