(* WiringInv.v — an invariant of the wiring state under which a rejected connect/add leaves EVERYTHING
   (the solver's lists and the per-structure tables) exactly as it was (C16), proved to hold in every
   state reachable by add / connect / map / raise / solve; see WiringInv2 for cut and remove. *)
From Coq Require Import List Arith Lia Bool.
From Lekkersim Require Import Base Network Wiring WiringProofs.
Import ListNotations.

(* the entry of pin z in the connection table of the structure that owns it *)
Definition tbl (s : wstate) (z : spin) : option spin := dget spin_eqb z (s_conn (getst s (fst z))).

Record Inv1 (s : wstate) : Prop := {
  i_tbl    : forall z, mem z (w_clist s) = false -> tbl s z = None;
  i_absent : forall id, nmem id (w_structs s) = false -> s_conn (getst s id) = [];
  i_free   : forall p, In p (w_free s) -> nmem (fst p) (w_structs s) = true;
  i_own    : forall id p, In p (s_pins (getst s id)) -> fst p = id
}.

(* ---- dictionaries ---- *)
Lemma ndget_dset_same {V} k (v : V) d : dget Nat.eqb k (dset Nat.eqb k v d) = Some v.
Proof.
  induction d as [|[k' v'] r IH]; simpl; [rewrite Nat.eqb_refl; reflexivity|].
  destruct (Nat.eqb_spec k' k) as [->|Hne]; simpl.
  - rewrite Nat.eqb_refl. reflexivity.
  - destruct (Nat.eqb_spec k' k); [contradiction | exact IH].
Qed.
Lemma ndget_dset_other {V} k k' (v : V) d : k' <> k -> dget Nat.eqb k' (dset Nat.eqb k v d) = dget Nat.eqb k' d.
Proof.
  intros Hne. induction d as [|[k0 v0] r IH]; simpl.
  - destruct (Nat.eqb_spec k k'); [congruence | reflexivity].
  - destruct (Nat.eqb_spec k0 k) as [->|H0]; simpl.
    + destruct (Nat.eqb_spec k k'); [congruence|]. reflexivity.
    + destruct (Nat.eqb_spec k0 k'); [reflexivity | exact IH].
Qed.

Lemma getst_setst_same s id t : getst (setst s id t) id = t.
Proof. unfold getst, setst; cbn [w_store]. rewrite ndget_dset_same. reflexivity. Qed.
Lemma getst_setst_other s id id' t : id' <> id -> getst (setst s id t) id' = getst s id'.
Proof. intros H. unfold getst, setst; cbn [w_store]. rewrite ndget_dset_other by exact H. reflexivity. Qed.

Lemma dget_app_other (z x y : spin) l : z <> x -> dget spin_eqb z (l ++ [(x, y)]) = dget spin_eqb z l.
Proof.
  intros H. induction l as [|[a b] r IH]; simpl.
  - destruct (spin_eqb_spec x z); [congruence | reflexivity].
  - destruct (spin_eqb_spec a z); [reflexivity | exact IH].
Qed.

Lemma In_remove1 (x p : spin) l : In p (remove1 x l) -> In p l.
Proof.
  induction l as [|y r IH]; simpl; [tauto|]. destruct (spin_eqb y x); [auto|]. intros [H|H]; auto.
Qed.

Lemma nmem_In n l : nmem n l = true <-> In n l.
Proof.
  unfold nmem. rewrite existsb_exists. split.
  - intros (x & Hx & E). apply Nat.eqb_eq in E. subst. exact Hx.
  - intros H. exists n. split; [exact H | apply Nat.eqb_refl].
Qed.

(* add_conn on a table that has no entry for x *)
Lemma add_conn_fresh t x y : dget spin_eqb x (s_conn t) = None ->
  exists t', add_conn t x y = Ok t' /\ s_pins t' = s_pins t /\ s_conn t' = s_conn t ++ [(x, y)] /\
             s_to t' = if nmem (fst y) (s_to t) then s_to t else s_to t ++ [fst y].
Proof. intros H. unfold add_conn. rewrite H. eexists. split; [reflexivity|]. split; [|split]; reflexivity. Qed.

(* ---- the invariant holds initially and is preserved ---- *)
Lemma Inv1_empty : Inv1 w_empty.
Proof. constructor; intros; try reflexivity; simpl in *; try tauto; try discriminate. Qed.

Lemma Inv1_map_only s s' :
  w_structs s' = w_structs s -> w_store s' = w_store s -> w_clist s' = w_clist s -> w_free s' = w_free s ->
  Inv1 s -> Inv1 s'.
Proof.
  intros E1 E2 E3 E4 [H1 H2 H3 H4].
  assert (G : forall id, getst s' id = getst s id) by (intros id; unfold getst; rewrite E2; reflexivity).
  constructor.
  - intros z Hz. unfold tbl. rewrite G. apply H1. rewrite <- E3. exact Hz.
  - intros id Hid. rewrite G. apply H2. rewrite <- E1. exact Hid.
  - intros p Hp. rewrite E1. apply H3. rewrite <- E4. exact Hp.
  - intros id p Hp. rewrite G in Hp. eapply H4; exact Hp.
Qed.

(* the accepted connect, spelled out *)
Lemma connect_ok_shape s x y :
  Inv1 s -> Nat.eqb (fst x) (fst y) = false ->
  mem x (w_clist s) = false -> mem y (w_clist s) = false ->
  mem x (w_free s) = true -> mem y (w_free s) = true ->
  exists t1 t2,
    s_conn t1 = s_conn (getst s (fst x)) ++ [(x, y)] /\ s_pins t1 = s_pins (getst s (fst x)) /\
    s_conn t2 = s_conn (getst s (fst y)) ++ [(y, x)] /\ s_pins t2 = s_pins (getst s (fst y)) /\
    s_to t1 = (if nmem (fst y) (s_to (getst s (fst x))) then s_to (getst s (fst x)) else s_to (getst s (fst x)) ++ [fst y]) /\
    s_to t2 = (if nmem (fst x) (s_to (getst s (fst y))) then s_to (getst s (fst y)) else s_to (getst s (fst y)) ++ [fst x]) /\
    step s (Connect x y) =
    (setst (setst {| w_structs := w_structs s; w_store := w_store s;
                     w_conns := dset spin_eqb x y (w_conns s); w_clist := w_clist s ++ [x; y];
                     w_free := remove1 y (remove1 x (w_free s)); w_map := w_map s |} (fst x) t1) (fst y) t2, None).
Proof.
  intros I E0 Ex Ey Fx Fy.
  assert (Hne : fst y <> fst x) by (apply Nat.eqb_neq in E0; congruence).
  set (s1 := {| w_structs := w_structs s; w_store := w_store s;
                w_conns := dset spin_eqb x y (w_conns s); w_clist := w_clist s ++ [x; y];
                w_free := remove1 y (remove1 x (w_free s)); w_map := w_map s |}).
  assert (G1 : forall id, getst s1 id = getst s id) by reflexivity.
  destruct (add_conn_fresh (getst s1 (fst x)) x y) as (t1 & A1 & P1 & C1 & T1).
  { rewrite G1. exact (i_tbl s I x Ex). }
  destruct (add_conn_fresh (getst (setst s1 (fst x) t1) (fst y)) y x) as (t2 & A2 & P2 & C2 & T2).
  { rewrite getst_setst_other by exact Hne. rewrite G1. exact (i_tbl s I y Ey). }
  exists t1, t2. rewrite G1 in C1, P1, T1. rewrite getst_setst_other in C2, P2, T2 by exact Hne. rewrite G1 in C2, P2, T2.
  repeat split; try assumption.
  unfold step. rewrite E0, Ex, Ey, Fx, Fy. cbn [negb orb].
  change (match add_conn (getst s1 (fst x)) x y with
          | Ok t0 => match add_conn (getst (setst s1 (fst x) t0) (fst y)) y x with
                     | Ok t3 => (setst (setst s1 (fst x) t0) (fst y) t3, None)
                     | Err e => (setst s1 (fst x) t0, Some e)
                     end
          | Err e => (s1, Some e)
          end = (setst (setst s1 (fst x) t1) (fst y) t2, None)).
  rewrite A1, A2. reflexivity.
Qed.

(* C16, full strength for connect: under the invariant a rejected connect changes NOTHING *)
Theorem connect_atomic s x y s' e : Inv1 s -> step s (Connect x y) = (s', Some e) -> s' = s.
Proof.
  intros I H. destruct (connect_validation_atomic s x y s' e H) as [E|(E0 & Ex & Ey & Fx & Fy)]; [exact E|].
  destruct (connect_ok_shape s x y I E0 Ex Ey Fx Fy) as (t1 & t2 & _ & _ & _ & _ & _ & _ & Hs).
  rewrite Hs in H. discriminate.
Qed.

Theorem add_atomic s id n s' e : step s (Add id n) = (s', Some e) -> s' = s.
Proof. simpl. destruct (nmem id (w_structs s)); intros H; [injection H as <- _; reflexivity | discriminate]. Qed.

Lemma Inv1_connect s x y s' : Inv1 s -> step s (Connect x y) = (s', None) -> Inv1 s'.
Proof.
  intros I H.
  destruct (Nat.eqb (fst x) (fst y)) eqn:E0; [simpl in H; rewrite E0 in H; discriminate|].
  destruct (mem x (w_clist s)) eqn:Ex.
  { (* a repeated connect: the state is unchanged *)
    simpl in H. rewrite E0, Ex in H.
    assert (s' = s); [|subst; exact I].
    destruct (dget spin_eqb x (w_conns s)) as [y'|]; destruct (dget spin_eqb y (w_conns s)) as [x'|];
      repeat match type of H with context [if ?b then _ else _] => destruct b end;
      try discriminate; injection H as <-; reflexivity. }
  destruct (mem y (w_clist s)) eqn:Ey; [simpl in H; rewrite E0, Ex, Ey in H; discriminate|].
  destruct (mem x (w_free s)) eqn:Fx; [|simpl in H; rewrite E0, Ex, Ey, Fx in H; discriminate].
  destruct (mem y (w_free s)) eqn:Fy; [|simpl in H; rewrite E0, Ex, Ey, Fx, Fy in H; discriminate].
  destruct (connect_ok_shape s x y I E0 Ex Ey Fx Fy) as (t1 & t2 & C1 & P1 & C2 & P2 & _ & _ & Hs).
  rewrite Hs in H. injection H as <-.
  assert (Hne : fst y <> fst x) by (apply Nat.eqb_neq in E0; congruence).
  set (s1 := {| w_structs := w_structs s; w_store := w_store s;
                w_conns := dset spin_eqb x y (w_conns s); w_clist := w_clist s ++ [x; y];
                w_free := remove1 y (remove1 x (w_free s)); w_map := w_map s |}).
  assert (G : forall id, getst (setst (setst s1 (fst x) t1) (fst y) t2) id =
                         if Nat.eqb id (fst y) then t2 else if Nat.eqb id (fst x) then t1 else getst s id).
  { intros id. destruct (Nat.eqb_spec id (fst y)) as [->|H1]; [apply getst_setst_same|].
    rewrite getst_setst_other by exact H1.
    destruct (Nat.eqb_spec id (fst x)) as [->|H2]; [apply getst_setst_same|].
    rewrite getst_setst_other by exact H2. reflexivity. }
  assert (Px : nmem (fst x) (w_structs s) = true) by (apply (i_free s I); apply mem_In; exact Fx).
  assert (Py : nmem (fst y) (w_structs s) = true) by (apply (i_free s I); apply mem_In; exact Fy).
  constructor.
  - intros z Hz. cbn [setst w_clist s1] in Hz. apply mem_nIn in Hz.
    assert (Hzc : mem z (w_clist s) = false) by (apply mem_nIn; intros Hc; apply Hz; apply in_or_app; auto).
    assert (Hzx : z <> x) by (intros ->; apply Hz; apply in_or_app; right; simpl; auto).
    assert (Hzy : z <> y) by (intros ->; apply Hz; apply in_or_app; right; simpl; auto).
    unfold tbl. rewrite G.
    destruct (Nat.eqb_spec (fst z) (fst y)) as [E|E1].
    + rewrite C2, dget_app_other by exact Hzy. rewrite <- E. exact (i_tbl s I z Hzc).
    + destruct (Nat.eqb_spec (fst z) (fst x)) as [E|E2].
      * rewrite C1, dget_app_other by exact Hzx. rewrite <- E. exact (i_tbl s I z Hzc).
      * exact (i_tbl s I z Hzc).
  - intros id Hid. cbn [setst w_structs s1] in Hid. rewrite G.
    destruct (Nat.eqb_spec id (fst y)) as [->|E1]; [congruence|].
    destruct (Nat.eqb_spec id (fst x)) as [->|E2]; [congruence|].
    exact (i_absent s I id Hid).
  - intros p Hp. cbn [setst w_free w_structs s1] in Hp |- *. apply In_remove1, In_remove1 in Hp.
    exact (i_free s I p Hp).
  - intros id p Hp. rewrite G in Hp.
    destruct (Nat.eqb_spec id (fst y)) as [->|E1]; [rewrite P2 in Hp; exact (i_own s I _ p Hp)|].
    destruct (Nat.eqb_spec id (fst x)) as [->|E2]; [rewrite P1 in Hp; exact (i_own s I _ p Hp)|].
    exact (i_own s I id p Hp).
Qed.

Lemma Inv1_add s id n s' : Inv1 s -> step s (Add id n) = (s', None) -> Inv1 s'.
Proof.
  intros I H. simpl in H. destruct (nmem id (w_structs s)) eqn:Eid; [discriminate|]. injection H as <-.
  set (t := match dget Nat.eqb id (w_store s) with Some t => t | None => fresh_struct id n end).
  assert (Ht : s_conn t = [] /\ forall p, In p (s_pins t) -> fst p = id).
  { unfold t. destruct (dget Nat.eqb id (w_store s)) as [t0|] eqn:E.
    - assert (Eg : getst s id = t0) by (unfold getst; rewrite E; reflexivity).
      split; [rewrite <- Eg; exact (i_absent s I id Eid) | intros p Hp; rewrite <- Eg in Hp; exact (i_own s I id p Hp)].
    - split; [reflexivity|]. intros p Hp. simpl in Hp. apply in_map_iff in Hp. destruct Hp as (k & <- & _). reflexivity. }
  destruct Ht as [Hc Hp].
  assert (G : forall id', getst {| w_structs := w_structs s ++ [id]; w_store := dset Nat.eqb id t (w_store s);
                                   w_conns := w_conns s; w_clist := w_clist s; w_free := w_free s ++ s_pins t;
                                   w_map := w_map s |} id' = if Nat.eqb id' id then t else getst s id').
  { intros id'. unfold getst; cbn [w_store]. destruct (Nat.eqb_spec id' id) as [->|Hne].
    - rewrite ndget_dset_same. reflexivity.
    - rewrite ndget_dset_other by exact Hne. reflexivity. }
  constructor.
  - intros z Hz. cbn [w_clist] in Hz. unfold tbl. rewrite G.
    destruct (Nat.eqb_spec (fst z) id); [rewrite Hc; reflexivity | exact (i_tbl s I z Hz)].
  - intros id' Hid'. cbn [w_structs] in Hid'. rewrite G.
    destruct (Nat.eqb_spec id' id) as [->|Hne]; [exact Hc|]. apply (i_absent s I).
    destruct (nmem id' (w_structs s)) eqn:E; [|reflexivity].
    apply nmem_In in E. assert (In id' (w_structs s ++ [id])) by (apply in_or_app; auto).
    apply nmem_In in H. congruence.
  - intros p Hin. cbn [w_free w_structs] in Hin |- *. apply nmem_In. apply in_or_app.
    apply in_app_or in Hin. destruct Hin as [Hin|Hin].
    + left. apply nmem_In. exact (i_free s I p Hin).
    + right. rewrite (Hp p Hin). simpl. auto.
  - intros id' p Hin. rewrite G in Hin. destruct (Nat.eqb_spec id' id) as [->|Hne]; [exact (Hp p Hin)|].
    exact (i_own s I id' p Hin).
Qed.

(* histories without cut / remove / prune *)
Definition growing (o : wop) : bool :=
  match o with Cut _ | Remove _ | Prune _ => false | _ => true end.

Lemma Inv1_step s o : growing o = true -> Inv1 s -> Inv1 (fst (step s o)).
Proof.
  intros Hg I. destruct o as [id n|x y|id|id|name x| |emp|]; try discriminate.
  - destruct (step s (Add id n)) as [s' [e|]] eqn:E; simpl.
    + rewrite (add_atomic s id n s' e E). exact I.
    + exact (Inv1_add s id n s' I E).
  - destruct (step s (Connect x y)) as [s' [e|]] eqn:E; simpl.
    + rewrite (connect_atomic s x y s' e I E). exact I.
    + exact (Inv1_connect s x y s' I E).
  - simpl. eapply Inv1_map_only; [..|exact I]; reflexivity.
  - simpl.
    match goal with |- Inv1 (fst (let (m', e) := ?g in _)) => destruct g as [m' e] end.
    simpl. eapply Inv1_map_only; [..|exact I]; reflexivity.
  - simpl. exact I.
Qed.

Theorem Inv1_reachable ops : forallb growing ops = true -> Inv1 (run w_empty ops).
Proof.
  assert (G : forall s, Inv1 s -> forallb growing ops = true -> Inv1 (run s ops)).
  { induction ops as [|o r IH]; intros s I H; simpl; [exact I|].
    simpl in H. apply andb_true_iff in H. destruct H as [H1 H2]. apply IH; [|exact H2].
    apply Inv1_step; assumption. }
  intros H. apply G; [exact Inv1_empty | exact H].
Qed.

(* in every state reachable by add / connect / map / raise / solve, a rejected connect or add leaves every
   table of the solver and of every structure exactly as it was *)
Theorem rejected_call_changes_nothing ops o s' e :
  forallb growing ops = true ->
  (exists x y, o = Connect x y) \/ (exists id n, o = Add id n) ->
  step (run w_empty ops) o = (s', Some e) -> s' = run w_empty ops.
Proof.
  intros Hg [(x & y & ->)|(id & n & ->)] H.
  - exact (connect_atomic _ x y s' e (Inv1_reachable ops Hg) H).
  - exact (add_atomic _ id n s' e H).
Qed.
