(* ModesProofs.v — a mode-expanded block obeys, mode by mode, the equations of the single-mode
   block and nothing else: its waves are np independent copies (C13). *)
From Coq Require Import List Arith Lia Bool Field Ring Setoid Morphisms.
From Lekkersim Require Import Field Matrix Base Network Modes.
Import ListNotations.

Section ModesProofs.
Variable K : cfield.
Hypothesis KL : cfield_laws K.

Notation "0" := (f0 K).
Notation "1" := (f1 K).
Infix "+" := (fadd K).
Infix "*" := (fmul K).
Infix "==" := (feq K) (at level 70).

Add Field Kfield13 : (F_ft K KL) (setoid (feq_equiv K KL) (F_ext K KL)).

Lemma bigsum_blocks np N (f : nat -> K) :
  bigsum (np * N) f == bigsum np (fun i => bigsum N (fun n => f (i * N + n)%nat)).
Proof.
  induction np as [|np IH]; [simpl; reflexivity|].
  replace (S np * N)%nat with (np * N + N)%nat by lia.
  rewrite (bigsum_split K KL), IH. simpl. reflexivity.
Qed.

(* row (i, n) of the expanded matrix applied to a vector: only the block of mode i contributes *)
Lemma expand_mv np N (S : mx K) (v : vec K) i n : (i < np)%nat -> (n < N)%nat ->
  bigsum (np * N) (fun c => expand_S N S (expand_idx N i n) c * v c) ==
  bigsum N (fun n' => S n n' * v (expand_idx N i n')).
Proof.
  intros Hi Hn. rewrite bigsum_blocks.
  transitivity (bigsum np (fun i' => (if Nat.eqb i i' then 1 else 0) *
                                     bigsum N (fun n' => S n n' * v (expand_idx N i' n')))).
  - apply (bigsum_ext K KL). intros i' Hi'.
    destruct (Nat.eqb i i') eqn:E.
    + transitivity (bigsum N (fun n' => S n n' * v (expand_idx N i' n'))); [|ring].
      apply (bigsum_ext K KL). intros n' Hn'.
      change (i' * N + n')%nat with (expand_idx N i' n').
      rewrite expand_coeff by assumption. rewrite E. reflexivity.
    + transitivity 0; [|ring]. apply (bigsum_0 K KL). intros n' Hn'.
      change (i' * N + n')%nat with (expand_idx N i' n').
      rewrite expand_coeff by assumption. rewrite E. ring.
  - rewrite (bigsum_delta K KL np i (fun i' => bigsum N (fun n' => S n n' * v (expand_idx N i' n')))) by exact Hi.
    reflexivity.
Qed.

Definition exp_comp (id np N : nat) (S : mx K) : comp K :=
  {| c_id := id; c_n := np * N; c_S := expand_S N S |}.
Definition base_comp (id N : nat) (S : mx K) : comp K := {| c_id := id; c_n := N; c_S := S |}.

(* the waves of mode i, seen on the pins of the single-mode block *)
Definition mode_view (N i : nat) (w : waves K) : waves K := fun x => w (fst x, expand_idx N i (snd x)).

Lemma comp_pins_nth (c : comp K) k : (k < c_n c)%nat -> nth k (comp_pins c) dpin = (c_id c, k).
Proof.
  intros H. unfold comp_pins.
  rewrite (nth_indep _ dpin ((fun k => (c_id c, k)) 0%nat)) by (rewrite map_length, seq_length; exact H).
  rewrite map_nth, seq_nth by exact H. reflexivity.
Qed.

Lemma comp_pins_length (c : comp K) : length (comp_pins c) = c_n c.
Proof. unfold comp_pins. rewrite map_length, seq_length. reflexivity. Qed.

Theorem expand_Sem id np N (S : mx K) (a b : waves K) :
  Sem (lst_of_comp (exp_comp id np N S)) a b <->
  forall i, (i < np)%nat -> Sem (lst_of_comp (base_comp id N S)) (mode_view N i a) (mode_view N i b).
Proof.
  unfold Sem. cbn [lst_of_comp l_pins l_S]. rewrite !comp_pins_length. cbn [exp_comp base_comp c_n c_S].
  split.
  - intros H i Hi n Hn.
    rewrite (comp_pins_nth (base_comp id N S)) by exact Hn. unfold mode_view at 1. cbn [fst snd base_comp c_id].
    specialize (H (expand_idx N i n) (expand_idx_bound N np i n Hi Hn)).
    rewrite (comp_pins_nth (exp_comp id np N S)) in H by (apply expand_idx_bound; assumption).
    cbn [exp_comp c_id] in H. rewrite H.
    transitivity (bigsum (np * N) (fun c => expand_S N S (expand_idx N i n) c * a (id, c))).
    + apply (bigsum_ext K KL). intros c Hc.
      rewrite (comp_pins_nth (exp_comp id np N S)) by exact Hc. reflexivity.
    + rewrite (expand_mv np N S (fun c => a (id, c)) i n Hi Hn).
      apply (bigsum_ext K KL). intros n' Hn'.
      rewrite (comp_pins_nth (base_comp id N S)) by exact Hn'. reflexivity.
  - intros H r Hr.
    assert (HN : N <> 0%nat) by (intros ->; lia).
    assert (Hi : (r / N < np)%nat) by (apply Nat.div_lt_upper_bound; lia).
    assert (Hn : (r mod N < N)%nat) by (apply Nat.mod_upper_bound; exact HN).
    assert (Er : r = expand_idx N (r / N) (r mod N)).
    { unfold expand_idx. rewrite (Nat.div_mod r N HN) at 1. lia. }
    specialize (H (r / N)%nat Hi (r mod N)%nat Hn).
    rewrite (comp_pins_nth (base_comp id N S)) in H by exact Hn.
    unfold mode_view at 1 in H. cbn [fst snd base_comp c_id] in H. rewrite <- Er in H.
    rewrite (comp_pins_nth (exp_comp id np N S)) by exact Hr. cbn [exp_comp c_id]. rewrite H.
    transitivity (bigsum (np * N) (fun c => expand_S N S (expand_idx N (r / N) (r mod N)) c * a (id, c))).
    + rewrite (expand_mv np N S (fun c => a (id, c)) _ _ Hi Hn).
      apply (bigsum_ext K KL). intros n' Hn'.
      rewrite (comp_pins_nth (base_comp id N S)) by exact Hn'. reflexivity.
    + rewrite <- Er. apply (bigsum_ext K KL). intros c Hc.
      rewrite (comp_pins_nth (exp_comp id np N S)) by exact Hc. reflexivity.
Qed.
End ModesProofs.
