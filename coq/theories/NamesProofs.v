From Coq Require Import List String Bool Arith Lia.
From Lekkersim Require Import Base Names.
Import ListNotations.
Open Scope string_scope.

Lemma existsb_name_In acc n :
  existsb (fun e : string * pin => String.eqb (fst e) n) acc = true <-> In n (map fst acc).
Proof.
  rewrite existsb_exists. split.
  - intros ((k, p) & Hin & E). simpl in E. apply String.eqb_eq in E. subst.
    apply in_map_iff. exists (n, p). auto.
  - intros H. apply in_map_iff in H. destruct H as ((k, p) & E & Hin). simpl in E. subst.
    exists (n, p). split; [exact Hin|]. simpl. apply String.eqb_refl.
Qed.

Lemma NoDup_snoc {A} (l : list A) x : NoDup l -> ~ In x l -> NoDup (l ++ [x]).
Proof.
  induction l as [|y r IH]; intros Hnd Hx; simpl; [constructor; [intros []|constructor]|].
  inversion Hnd as [|? ? Hy Hr]; subst. constructor.
  - intros Hin. apply in_app_or in Hin. destruct Hin as [Hin|[->|[]]]; [contradiction|].
    apply Hx. left. reflexivity.
  - apply IH; [exact Hr|]. intros Hc. apply Hx. right. exact Hc.
Qed.

Lemma name_table_ok pins : forall acc t,
  name_table pins acc = Ok t ->
  NoDup (map fst acc) ->
  t = (acc ++ map (fun p => (pin_name p, p)) pins)%list /\ NoDup (map fst t).
Proof.
  induction pins as [|p r IH]; intros acc t H Hnd; simpl in H.
  - injection H as <-. rewrite app_nil_r. auto.
  - destruct (existsb _ acc) eqn:E; [discriminate|].
    assert (Hnew : ~ In (pin_name p) (map fst acc)).
    { intros Hc. apply existsb_name_In in Hc. congruence. }
    destruct (IH _ _ H) as [-> Hnd'].
    + rewrite map_app. simpl. apply NoDup_snoc; assumption.
    + split; [|exact Hnd']. rewrite <- app_assoc. reflexivity.
Qed.

Lemma name_table_err pins : forall acc e, name_table pins acc = Err e -> e = ENameClash.
Proof.
  induction pins as [|x r IH]; intros acc e E; simpl in E; [discriminate|].
  destruct (existsb _ acc); [congruence|]. eapply IH; eassumption.
Qed.

(* two distinct pins with equal printable names: the table is refused *)
Theorem name_collision_rejected pins p q :
  In p pins -> In q pins -> p <> q -> pin_name p = pin_name q -> NoDup pins ->
  update_pins pins = Err ENameClash.
Proof.
  intros Hp Hq Hne Hname Hnd. unfold update_pins.
  destruct (name_table pins []) as [t|e] eqn:E.
  - exfalso. destruct (name_table_ok pins [] t E (NoDup_nil _)) as [-> Hndt]. simpl in Hndt.
    rewrite map_map in Hndt. simpl in Hndt.
    (* names are pairwise distinct, so p = q *)
    apply Hne. clear E.
    induction pins as [|x r IH]; [destruct Hp|]. simpl in Hndt.
    inversion Hndt as [|? ? Hx Hr]; subst. inversion Hnd as [|? ? Hx' Hr']; subst.
    destruct Hp as [->|Hp], Hq as [->|Hq].
    + reflexivity.
    + exfalso. apply Hx. rewrite Hname. apply in_map_iff. exists q. auto.
    + exfalso. apply Hx. rewrite <- Hname. apply in_map_iff. exists p. auto.
    + apply IH; assumption.
  - rewrite (name_table_err pins [] e E). reflexivity.
Qed.

Lemma lookup_In n t p : lookup n t = Some p -> In (n, p) t.
Proof.
  induction t as [|[k q] r IH]; simpl; [discriminate|].
  destruct (String.eqb_spec k n) as [->|Hk]; [intros H; injection H as <-; auto|].
  intros H. right. apply IH. exact H.
Qed.

Lemma In_lookup n t p : NoDup (map fst t) -> In (n, p) t -> lookup n t = Some p.
Proof.
  induction t as [|[k q] r IH]; intros Hnd Hin; [destruct Hin|]. simpl in *.
  inversion Hnd as [|? ? Hk Hr]; subst.
  destruct Hin as [E|Hin].
  - injection E as -> ->. rewrite String.eqb_refl. reflexivity.
  - destruct (String.eqb_spec k n) as [->|_]; [|apply IH; assumption].
    exfalso. apply Hk. apply in_map_iff. exists (n, p). auto.
Qed.

(* an accepted table resolves every pin's name to exactly that pin *)
Theorem names_resolve pins t p :
  update_pins pins = Ok t -> In p pins -> lookup (pin_name p) t = Some p.
Proof.
  intros H Hp. destruct (name_table_ok pins [] t H (NoDup_nil _)) as [-> Hnd]. simpl in *.
  apply In_lookup; [exact Hnd|]. apply in_map_iff. exists p. auto.
Qed.

(* ... and only pins of the model are returned *)
Theorem names_sound pins t n p :
  update_pins pins = Ok t -> lookup n t = Some p -> In p pins /\ pin_name p = n.
Proof.
  intros H Hl. destruct (name_table_ok pins [] t H (NoDup_nil _)) as [-> _]. simpl in *.
  apply lookup_In in Hl. apply in_map_iff in Hl. destruct Hl as (q & E & Hq).
  injection E as <- <-. auto.
Qed.

(* renamed pins are addressable by their new names; a replaced name no longer resolves unless
   another pin carries it *)
Theorem rename_addressable ren pins t old new :
  update_pins (rename_pins ren pins) = Ok t ->
  In old pins -> find (fun e => pin_eqb (fst e) old) ren = Some (old, new) ->
  lookup (pin_name new) t = Some new.
Proof.
  intros H Hin Hf. apply (names_resolve _ t new H).
  unfold rename_pins. apply in_map_iff. exists old. rewrite Hf. auto.
Qed.

Theorem rename_old_gone ren pins t n :
  update_pins (rename_pins ren pins) = Ok t ->
  (forall q, In q (rename_pins ren pins) -> pin_name q <> n) -> lookup n t = None.
Proof.
  intros H Hno. destruct (lookup n t) as [p|] eqn:E; [|reflexivity].
  destruct (names_sound _ t n p H E) as [Hp Hn]. exfalso. exact (Hno p Hp Hn).
Qed.
