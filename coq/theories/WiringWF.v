(* WiringWF.v — the circuit a reachable wiring state denotes is well formed: one connection per pin, all pins of
   the present structures distinct, every connection end is a pin of a present structure.  These are exactly the
   three checks [Solve.solve] performs before eliminating, so after ANY edit history the model's solve can only fail
   for a singular inner system or a bad schedule, never for an ill-formed circuit (C07 -> C01). *)
From Coq Require Import List Arith Lia Bool Permutation.
From Lekkersim Require Import Base Network Solve Wiring WiringProofs WiringInv WiringRep WiringRep2 WiringFree.
Import ListNotations.

Definition present_pins' (s : wstate) : list spin := flat_map (fun id => s_pins (getst s id)) (w_structs s).

Lemma NoDup_flat_map_disjoint {A B} (f : A -> list B) (l : list A) :
  NoDup l -> (forall a, In a l -> NoDup (f a)) ->
  (forall a a' b, In a l -> In a' l -> In b (f a) -> In b (f a') -> a = a') ->
  NoDup (flat_map f l).
Proof.
  induction l as [|x r IH]; simpl; intros Hnd Hf Hd; [constructor|].
  inversion Hnd as [|? ? Hx Hr]; subst.
  apply NoDup_app_intro.
  - apply Hf. left. reflexivity.
  - apply IH; [exact Hr | intros a Ha; apply Hf; right; exact Ha | intros a a' b Ha Ha'; apply Hd; right; assumption].
  - intros b Hb Hin. apply in_flat_map in Hin. destruct Hin as (a' & Ha' & Hb').
    assert (x = a') by (apply (Hd x a' b); [left; reflexivity | right; exact Ha' | exact Hb | exact Hb']).
    subst. contradiction.
Qed.

Theorem denoted_circuit_wellformed ops :
  let s := run w_empty ops in
  NoDup (map fst (w_conns s) ++ map snd (w_conns s)) /\
  NoDup (present_pins' s) /\
  (forall p, In p (map fst (w_conns s) ++ map snd (w_conns s)) -> In p (present_pins' s)).
Proof.
  intros s. pose proof (Rep_reachable ops) as R. pose proof (FreeInv_reachable ops) as F. fold s in R, F.
  split; [exact (f_ends_nd s F)|]. split.
  - unfold present_pins'. apply NoDup_flat_map_disjoint.
    + exact (r_structs s R).
    + intros a _. exact (f_pins_nd s F a).
    + intros a a' b _ _ Hb Hb'. rewrite <- (r_own s R a b Hb). exact (r_own s R a' b Hb').
  - intros p Hp. unfold present_pins'. apply in_flat_map.
    assert (Hl : exists w, linked s p w).
    { apply in_app_or in Hp. destruct Hp as [Hp|Hp]; apply in_map_iff in Hp; destruct Hp as ([a b] & E & Hab); simpl in E; subst;
        [exists b; left; exact Hab | exists a; right; exact Hab]. }
    destruct Hl as (w & Hl). exists (fst p). split.
    + apply nmem_In. exact (proj2 (r_link s R p w Hl)).
    + exact (f_lpin s F p w Hl).
Qed.
