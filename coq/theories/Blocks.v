(* Blocks.v — the documented basic blocks of model.py over Coq's real numbers (C09): every matrix
   entry as a real-analytic expression of constructor arguments and solve-time parameters (complex
   numbers as pairs (re, im)), and their physics for ALL parameter values. *)
From Coq Require Import Reals Lra Lia.
Open Scope R_scope.

Definition C := (R * R)%type.
Definition C0 : C := (0, 0).
Definition cis (t : R) : C := (cos t, sin t).
Definition cscale (r : R) (z : C) : C := (r * fst z, r * snd z).
Definition cmulc (z w : C) : C := (fst z * fst w - snd z * snd w, fst z * snd w + snd z * fst w).
Definition cabs2 (z : C) : R := fst z * fst z + snd z * snd z.
Definition cconjc (z : C) : C := (fst z, - snd z).
Definition caddc (z w : C) : C := (fst z + fst w, snd z + snd w).

(* ---- two-port phase elements: S = [[0, t], [t, 0]] ---- *)
Definition twoport (t : C) (i j : nat) : C :=
  match i, j with 0%nat, 1%nat => t | 1%nat, 0%nat => t | _, _ => C0 end.

(* Waveguide(L, n = nr + i ni, wl): exp(2 pi i n L / wl) *)
Definition wg_t (L nr ni wl : R) : C := cscale (exp (- (2 * PI * ni / wl * L))) (cis (2 * PI * nr / wl * L)).
Definition Waveguide (L nr ni wl : R) := twoport (wg_t L nr ni wl).
(* UserWaveguide(L, func, allowedmodes) with two modes: one waveguide per mode, each with the index its own
   mode settings give (n0 for the first declared mode, n1 for the second); pins a0_m0 b0_m0 a0_m1 b0_m1 *)
Definition UserWaveguide2 (L n0 n1 wl : R) (i j : nat) : C :=
  match i, j with
  | 0%nat, 1%nat | 1%nat, 0%nat => wg_t L n0 0 wl
  | 2%nat, 3%nat | 3%nat, 2%nat => wg_t L n1 0 wl
  | _, _ => C0
  end.
(* PhaseShifter(PS): exp(i pi PS) *)
Definition PhaseShifter (PS : R) := twoport (cis (PI * PS)).
(* TH_PhaseShifter(L, n, wl, PS): exp(i pi (2 n L / wl + PS)) *)
Definition TH_PhaseShifter (L n wl PS : R) := twoport (cis (PI * (2 * n / wl * L + PS))).
(* Attenuator(loss dB): amplitude 10^(-loss/20) *)
Definition att_amp (loss : R) : R := Rpower 10 (- (5 / 100) * loss).
Definition Attenuator (loss : R) := twoport (att_amp loss, 0).
(* LinearAttenuator(c): amplitude sqrt c *)
Definition LinearAttenuator (c : R) := twoport (sqrt c, 0).
(* PerfectMirror(phase): one port, exp(i pi phase) *)
Definition PerfectMirror (ph : R) (i j : nat) : C := match i, j with 0%nat, 0%nat => cis (PI * ph) | _, _ => C0 end.

(* PushPullPhaseShifter(PS): pins a0,b0 get +PS/2, pins a1,b1 get -PS/2 *)
Definition PushPull (PS : R) (i j : nat) : C :=
  match i, j with
  | 0%nat, 1%nat | 1%nat, 0%nat => cis (PI * PS / 2)
  | 2%nat, 3%nat | 3%nat, 2%nat => cis (- (PI * PS / 2))
  | _, _ => C0
  end.

(* Mirror(ref, phase): [[t e^{ip}, c], [-c, t e^{-ip}]], t = sqrt ref, c = sqrt (1 - ref), p = pi phase *)
Definition Mirror (ref ph : R) (i j : nat) : C :=
  match i, j with
  | 0%nat, 0%nat => cscale (sqrt ref) (cis (PI * ph))
  | 0%nat, 1%nat => (sqrt (1 - ref), 0)
  | 1%nat, 0%nat => (- sqrt (1 - ref), 0)
  | 1%nat, 1%nat => cscale (sqrt ref) (cis (- (PI * ph)))
  | _, _ => C0
  end.

(* BeamSplitter(ratio, phase): pins a0 a1 b0 b1; S[a,b] = S[b,a] = e^{2 pi i phase} [[t, i c], [i c, t]] *)
Definition bs_t (ratio ph : R) : C := cscale (sqrt (1 - ratio)) (cis (2 * PI * ph)).
Definition bs_c (ratio ph : R) : C := cmulc (0, sqrt ratio) (cis (2 * PI * ph)).
Definition BeamSplitter (ratio ph : R) (i j : nat) : C :=
  match i, j with
  | 0%nat, 2%nat | 1%nat, 3%nat | 2%nat, 0%nat | 3%nat, 1%nat => bs_t ratio ph
  | 0%nat, 3%nat | 1%nat, 2%nat | 2%nat, 1%nat | 3%nat, 0%nat => bs_c ratio ph
  | _, _ => C0
  end.

(* BeamSplitter(ratio, t, phase) with an explicit power transmission t (lossy when ratio + t < 1) *)
Definition bs_tt (t ph : R) : C := cscale (sqrt t) (cis (2 * PI * ph)).
Definition BeamSplitterT (ratio t ph : R) (i j : nat) : C :=
  match i, j with
  | 0%nat, 2%nat | 1%nat, 3%nat | 2%nat, 0%nat | 3%nat, 1%nat => bs_tt t ph
  | 0%nat, 3%nat | 1%nat, 2%nat | 2%nat, 1%nat | 3%nat, 0%nat => bs_c ratio ph
  | _, _ => C0
  end.

(* Splitter1x2: 1/sqrt 2 between a0 and b0, b1 *)
Definition Splitter1x2 (i j : nat) : C :=
  match i, j with
  | 0%nat, 1%nat | 0%nat, 2%nat | 1%nat, 0%nat | 2%nat, 0%nat => (1 / sqrt 2, 0)
  | _, _ => C0
  end.

(* PolRot(angle): pins a0_pol0 a0_pol1 b0_pol0 b0_pol1; rotation by pi*angle *)
Definition PolRot (ang : R) (i j : nat) : C :=
  let c := cos (PI * ang) in let s := sin (PI * ang) in
  match i, j with
  | 0%nat, 2%nat => (c, 0) | 0%nat, 3%nat => (s, 0)
  | 1%nat, 2%nat => (- s, 0) | 1%nat, 3%nat => (c, 0)
  | 2%nat, 0%nat => (c, 0) | 2%nat, 1%nat => (- s, 0)
  | 3%nat, 0%nat => (s, 0) | 3%nat, 1%nat => (c, 0)
  | _, _ => C0
  end.

(* ---- physics, for all parameter values ---- *)
Lemma cis_abs2 t : cabs2 (cis t) = 1.
Proof. unfold cabs2, cis; simpl. pose proof (sin2_cos2 t) as H. unfold Rsqr in H. lra. Qed.

Lemma cabs2_cscale r z : cabs2 (cscale r z) = r * r * cabs2 z.
Proof. unfold cabs2, cscale; simpl. ring. Qed.

Lemma cabs2_cmulc z w : cabs2 (cmulc z w) = cabs2 z * cabs2 w.
Proof. unfold cabs2, cmulc; simpl. ring. Qed.

(* lossless real-index waveguide, phase shifter, thermal shifter, perfect mirror: |t|^2 = 1 *)
Theorem waveguide_lossless L nr wl : cabs2 (wg_t L nr 0 wl) = 1.
Proof.
  unfold wg_t. rewrite cabs2_cscale, cis_abs2.
  replace (- (2 * PI * 0 / wl * L)) with 0 by (unfold Rdiv; ring). rewrite exp_0. ring.
Qed.
(* every mode of a user waveguide is a lossless waveguide with that mode's own index; modes do not couple *)
Theorem userwaveguide_modes L n0 n1 wl :
  cabs2 (UserWaveguide2 L n0 n1 wl 0 1) = 1 /\ cabs2 (UserWaveguide2 L n0 n1 wl 2 3) = 1 /\
  UserWaveguide2 L n0 n1 wl 0 1 = wg_t L n0 0 wl /\ UserWaveguide2 L n0 n1 wl 2 3 = wg_t L n1 0 wl /\
  UserWaveguide2 L n0 n1 wl 0 3 = C0 /\ UserWaveguide2 L n0 n1 wl 2 1 = C0.
Proof. simpl. rewrite !waveguide_lossless. repeat split; reflexivity. Qed.
(* lossy waveguide: power transmission exp(-4 pi ni L / wl) *)
Theorem waveguide_power L nr ni wl : cabs2 (wg_t L nr ni wl) = exp (- (4 * PI * ni / wl * L)).
Proof.
  unfold wg_t. rewrite cabs2_cscale, cis_abs2. rewrite Rmult_1_r, <- exp_plus. f_equal. unfold Rdiv. ring.
Qed.
Theorem waveguide_passive L nr ni wl : 0 <= ni / wl * L -> cabs2 (wg_t L nr ni wl) <= 1.
Proof.
  intros H. rewrite waveguide_power. rewrite <- exp_0.
  destruct (Req_dec (4 * PI * ni / wl * L) 0) as [E|E].
  - rewrite E, Ropp_0. lra.
  - left. apply exp_increasing. pose proof PI_RGT_0.
    assert (0 <= 4 * PI * ni / wl * L). { unfold Rdiv in *. nra. } lra.
Qed.
Theorem phaseshifter_lossless PS : cabs2 (cis (PI * PS)) = 1.
Proof. apply cis_abs2. Qed.
Theorem th_phaseshifter_lossless L n wl PS : cabs2 (cis (PI * (2 * n / wl * L + PS))) = 1.
Proof. apply cis_abs2. Qed.
Theorem pushpull_lossless PS : cabs2 (cis (PI * PS / 2)) = 1 /\ cabs2 (cis (- (PI * PS / 2))) = 1.
Proof. split; apply cis_abs2. Qed.
(* push-pull: the two arms acquire opposite phases: their product is 1 *)
Theorem pushpull_opposite PS : cmulc (cis (PI * PS / 2)) (cis (- (PI * PS / 2))) = (1, 0).
Proof.
  unfold cmulc, cis; simpl. rewrite cos_neg, sin_neg. f_equal.
  - pose proof (sin2_cos2 (PI * PS / 2)) as H. unfold Rsqr in H. lra.
  - ring.
Qed.

(* attenuators: documented power ratios *)
Theorem attenuator_power loss : att_amp loss * att_amp loss = Rpower 10 (- loss / 10).
Proof. unfold att_amp. rewrite <- Rpower_plus. f_equal. lra. Qed.
Theorem attenuator_passive loss : 0 <= loss -> att_amp loss * att_amp loss <= 1.
Proof.
  intros H. rewrite attenuator_power. unfold Rpower. rewrite <- exp_0.
  assert (Hl : 0 < ln 10) by (rewrite <- ln_1; apply ln_increasing; lra).
  destruct (Req_dec loss 0) as [->|E].
  - replace (- 0 / 10 * ln 10) with 0 by lra. lra.
  - left. apply exp_increasing. assert (0 < loss) by lra. nra.
Qed.
Theorem linear_attenuator_power c : 0 <= c -> sqrt c * sqrt c = c.
Proof. apply sqrt_sqrt. Qed.

(* mirror: unitary for 0 <= ref <= 1 *)
Theorem mirror_powers ref ph : 0 <= ref <= 1 ->
  cabs2 (Mirror ref ph 0 0) = ref /\ cabs2 (Mirror ref ph 0 1) = 1 - ref /\
  cabs2 (Mirror ref ph 1 0) = 1 - ref /\ cabs2 (Mirror ref ph 1 1) = ref.
Proof.
  intros [H0 H1]. simpl. rewrite !cabs2_cscale, !cis_abs2. unfold cabs2; simpl.
  pose proof (sqrt_sqrt ref H0). pose proof (sqrt_sqrt (1 - ref) ltac:(lra)). repeat split; nra.
Qed.
(* rows orthogonal: S00 conj(S10) + S01 conj(S11) = 0 *)
Theorem mirror_rows_orthogonal ref ph :
  caddc (cmulc (Mirror ref ph 0 0) (cconjc (Mirror ref ph 1 0)))
        (cmulc (Mirror ref ph 0 1) (cconjc (Mirror ref ph 1 1))) = (0, 0).
Proof.
  simpl. unfold caddc, cmulc, cconjc, cscale, cis; simpl. rewrite cos_neg, sin_neg. f_equal; ring.
Qed.

(* beam splitter: documented power ratios, lossless *)
Theorem beamsplitter_powers ratio ph : 0 <= ratio <= 1 ->
  cabs2 (bs_t ratio ph) = 1 - ratio /\ cabs2 (bs_c ratio ph) = ratio.
Proof.
  intros [H0 H1]. unfold bs_t, bs_c. rewrite cabs2_cscale, cabs2_cmulc, cis_abs2. unfold cabs2; simpl.
  pose proof (sqrt_sqrt ratio H0). pose proof (sqrt_sqrt (1 - ratio) ltac:(lra)). split; nra.
Qed.
Theorem beamsplitter_lossless ratio ph : 0 <= ratio <= 1 ->
  cabs2 (bs_t ratio ph) + cabs2 (bs_c ratio ph) = 1 /\
  caddc (cmulc (bs_t ratio ph) (cconjc (bs_c ratio ph))) (cmulc (bs_c ratio ph) (cconjc (bs_t ratio ph))) = (0, 0).
Proof.
  intros H. destruct (beamsplitter_powers ratio ph H) as [E1 E2]. split; [lra|].
  unfold bs_t, bs_c, caddc, cmulc, cconjc, cscale, cis; simpl. f_equal; ring.
Qed.

(* explicit transmission: the bar power is t — also t = 0 — and the cross power is the ratio *)
Theorem beamsplitter_t_powers ratio t ph : 0 <= ratio -> 0 <= t ->
  cabs2 (bs_tt t ph) = t /\ cabs2 (bs_c ratio ph) = ratio.
Proof.
  intros H0 H1. unfold bs_tt, bs_c. rewrite cabs2_cscale, cabs2_cmulc, cis_abs2. unfold cabs2; simpl.
  pose proof (sqrt_sqrt ratio H0). pose proof (sqrt_sqrt t H1). split; nra.
Qed.

(* 1x2 splitter: 50/50 *)
Theorem splitter_power : (1 / sqrt 2) * (1 / sqrt 2) = 1 / 2.
Proof.
  assert (H : sqrt 2 * sqrt 2 = 2) by (apply sqrt_sqrt; lra).
  assert (Hn : sqrt 2 <> 0) by (intros E; rewrite E in H; lra).
  replace (1 / sqrt 2 * (1 / sqrt 2)) with (1 / (sqrt 2 * sqrt 2)) by (field; exact Hn).
  rewrite H. reflexivity.
Qed.

(* polarisation rotator: a rotation by pi*angle, orthogonal *)
Theorem polrot_orthogonal ang :
  let c := cos (PI * ang) in let s := sin (PI * ang) in
  c * c + s * s = 1 /\ c * (- s) + s * c = 0.
Proof.
  intros c s. pose proof (sin2_cos2 (PI * ang)) as H. unfold Rsqr in H. unfold c, s. split; lra.
Qed.

(* power reciprocity |S_ij| = |S_ji| of the non-symmetric blocks *)
Theorem mirror_power_reciprocal ref ph : cabs2 (Mirror ref ph 0 1) = cabs2 (Mirror ref ph 1 0).
Proof. simpl. unfold cabs2; simpl. ring. Qed.
Theorem polrot_power_reciprocal ang i j : cabs2 (PolRot ang i j) = cabs2 (PolRot ang j i).
Proof.
  destruct i as [|[|[|[|i]]]]; destruct j as [|[|[|[|j]]]]; simpl; unfold cabs2; simpl; ring.
Qed.
