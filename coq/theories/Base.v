(* Base.v — results with errors, strings, small list utilities shared by the model files. *)
From Coq Require Import List String Bool Arith.
Import ListNotations.

Inductive err :=
| EDim | ESingular | EConnectivity | ENotSymmetric | EAlreadyConnected | ENoSuchPin
| EAlreadyPresent | ENotPresent | ENameClash | EUnknownName | ESchedule | EShape | EOther.

Inductive result (A : Type) := Ok (x : A) | Err (e : err).
Arguments Ok {A}. Arguments Err {A}.

Definition bind {A B} (r : result A) (f : A -> result B) : result B :=
  match r with Ok x => f x | Err e => Err e end.
Notation "'do' x <- r ; k" := (bind r (fun x => k)) (at level 200, x pattern, r at level 100, k at level 200).

Definition is_ok {A} (r : result A) : bool := match r with Ok _ => true | Err _ => false end.

Lemma bind_ok {A B} (r : result A) (f : A -> result B) y :
  bind r f = Ok y -> exists x, r = Ok x /\ f x = Ok y.
Proof. destruct r; simpl; intros H; [eauto|discriminate]. Qed.
