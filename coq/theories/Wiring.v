(* Wiring.v — model of the editing operations of Solver (sol.py:112-261, 325-346, 645-656) and of
   the per-structure tables they maintain (structure.py:288-366), as a total step function.
   The order of checks and mutations inside an operation follows the code (after the fix:
   commits recorded in known_findings.json), because atomicity (C16) is about that order:
   [step] returns the state reached when the exception is raised together with the error. *)
From Coq Require Import List Arith Lia Bool.
From Lekkersim Require Import Base Network.
Import ListNotations.

(* Python dict with insertion order: association list, update keeps the position *)
Section Dict.
Context {Key V : Type} (keqb : Key -> Key -> bool).
Fixpoint dget (k : Key) (d : list (Key * V)) : option V :=
  match d with [] => None | (k', v) :: r => if keqb k' k then Some v else dget k r end.
Fixpoint dset (k : Key) (v : V) (d : list (Key * V)) : list (Key * V) :=
  match d with
  | [] => [(k, v)]
  | (k', v') :: r => if keqb k' k then (k, v) :: r else (k', v') :: dset k v r
  end.
Fixpoint dpop (k : Key) (d : list (Key * V)) : list (Key * V) :=
  match d with [] => [] | (k', v) :: r => if keqb k' k then r else (k', v) :: dpop k r end.
End Dict.

Fixpoint remove1 (x : spin) (l : list spin) : list spin :=   (* list.remove: first occurrence *)
  match l with [] => [] | y :: r => if spin_eqb y x then r else y :: remove1 x r end.

Definition nmem (n : nat) (l : list nat) : bool := existsb (Nat.eqb n) l.
Fixpoint nremove1 (n : nat) (l : list nat) : list nat :=
  match l with [] => [] | y :: r => if Nat.eqb y n then r else y :: nremove1 n r end.

Record sstruct := {
  s_pins : list spin;              (* pin_list *)
  s_conn : list (spin * spin);     (* conn_dict: own pin -> partner *)
  s_to : list nat                  (* connected_to *)
}.

Record wstate := {
  w_structs : list nat;            (* Solver.structures *)
  w_store : list (nat * sstruct);  (* every Structure object the history has created *)
  w_conns : list (spin * spin);    (* Solver.connections *)
  w_clist : list spin;             (* Solver.connections_list *)
  w_free : list spin;              (* Solver.free_pins *)
  w_map : list (nat * spin)        (* Solver.pin_mapping *)
}.

Definition w_empty : wstate :=
  {| w_structs := []; w_store := []; w_conns := []; w_clist := []; w_free := []; w_map := [] |}.

Definition fresh_struct (id n : nat) : sstruct :=
  {| s_pins := map (fun k => (id, k)) (seq 0 n); s_conn := []; s_to := [] |}.
Definition dstruct : sstruct := {| s_pins := []; s_conn := []; s_to := [] |}.

Definition getst (s : wstate) (id : nat) : sstruct :=
  match dget Nat.eqb id (w_store s) with Some t => t | None => dstruct end.
Definition setst (s : wstate) (id : nat) (t : sstruct) : wstate :=
  {| w_structs := w_structs s; w_store := dset Nat.eqb id t (w_store s); w_conns := w_conns s;
     w_clist := w_clist s; w_free := w_free s; w_map := w_map s |}.

Inductive wop :=
| Add (id n : nat)            (* add_structure of a (new or previously cut) structure with n pins *)
| Connect (x y : spin)
| Cut (id : nat)
| Remove (id : nat)
| MapPin (name : nat) (x : spin)
| RaiseAll
| Prune (empties : list nat)   (* Solver.prune(); [empties]: the structures holding an empty model *)
| SolveOp.

(* the auto-raised name of a pin (maps_all_pins uses the pin itself as its external name) *)
(* structures 2j and 2j+1 carry the same pin names (two instances of one block) *)
Definition auto_name (x : spin) : nat := 1000 + 100 * (fst x / 2) + snd x.

(* Structure.add_conn *)
Definition add_conn (t : sstruct) (x y : spin) : result sstruct :=
  match dget spin_eqb x (s_conn t) with
  | Some y' => if spin_eqb y' y
               then Ok {| s_pins := s_pins t; s_conn := s_conn t;
                          s_to := if nmem (fst y) (s_to t) then s_to t else s_to t ++ [fst y] |}
               else Err EAlreadyConnected
  | None => Ok {| s_pins := s_pins t; s_conn := s_conn t ++ [(x, y)];
                  s_to := if nmem (fst y) (s_to t) then s_to t else s_to t ++ [fst y] |}
  end.

(* Structure.cut_connections(target): forget the links to target, keep the pins *)
Definition cut_connections (t : sstruct) (target : nat) : result sstruct :=
  if negb (nmem target (s_to t)) then Err ENotPresent else
  Ok {| s_pins := s_pins t;
        s_conn := filter (fun e => negb (Nat.eqb (fst (snd e)) target)) (s_conn t);
        s_to := nremove1 target (s_to t) |}.

(* Structure.remove_connections(target): forget the links and drop the pins that faced target *)
Definition remove_connections (t : sstruct) (target : nat) : result sstruct :=
  if negb (nmem target (s_to t)) then Err ENotPresent else
  let gone := map fst (filter (fun e => Nat.eqb (fst (snd e)) target) (s_conn t)) in
  Ok {| s_pins := filter (fun p => negb (mem p gone)) (s_pins t);
        s_conn := filter (fun e => negb (Nat.eqb (fst (snd e)) target)) (s_conn t);
        s_to := nremove1 target (s_to t) |}.

Fixpoint for_neighbours (f : sstruct -> nat -> result sstruct) (target : nat)
         (ns : list nat) (s : wstate) : wstate * option err :=
  match ns with
  | [] => (s, None)
  | n :: r => match f (getst s n) target with
              | Ok t' => for_neighbours f target r (setst s n t')
              | Err e => (s, Some e)
              end
  end.

Definition conn_touches (id : nat) (c : spin * spin) : bool :=
  Nat.eqb (fst (fst c)) id || Nat.eqb (fst (snd c)) id.

(* Solver.cut_structure (refree = true: the partners' pins become free again) and Solver.remove_structure
   (refree = false: the partners' pins are dropped by remove_connections) *)
Definition detach_op (f : sstruct -> nat -> result sstruct) (refree : bool) (s : wstate) (id : nat)
  : wstate * option err :=
  if negb (nmem id (w_structs s)) then (s, Some ENotPresent) else
  let s0 := {| w_structs := nremove1 id (w_structs s); w_store := w_store s; w_conns := w_conns s;
               w_clist := w_clist s; w_free := w_free s; w_map := w_map s |} in
  match for_neighbours f id (s_to (getst s0 id)) s0 with
  | (s1, Some e) => (s1, Some e)
  | (s1, None) =>
      let me := getst s1 id in
      let s2 := setst s1 id {| s_pins := s_pins me; s_conn := []; s_to := [] |} in
      let hit := filter (conn_touches id) (w_conns s2) in
      ({| w_structs := w_structs s2; w_store := w_store s2;
          w_conns := filter (fun c => negb (conn_touches id c)) (w_conns s2);
          w_clist := fold_left (fun l c => remove1 (fst c) (remove1 (snd c) l)) hit (w_clist s2);
          w_free := filter (fun p => negb (Nat.eqb (fst p) id))
                           (if refree then w_free s2 ++ flat_map (fun c => [snd c; fst c]) hit else w_free s2);
          w_map := filter (fun e => negb (Nat.eqb (fst (snd e)) id)) (w_map s2) |}, None)
  end.

Definition cut_op := detach_op cut_connections true.
Definition remove_op := detach_op remove_connections false.

(* Solver.prune() on a flat solver: every structure holding an empty model is removed, visiting a COPY of
   the structure list in declaration order *)
Fixpoint prune_ops (ids : list nat) (empties : list nat) (s : wstate) : wstate * option err :=
  match ids with
  | [] => (s, None)
  | id :: r => if nmem id empties then
                 match remove_op s id with
                 | (s', None) => prune_ops r empties s'
                 | (s', Some e) => (s', Some e)
                 end
               else prune_ops r empties s
  end.

Definition step (s : wstate) (o : wop) : wstate * option err :=
  match o with
  | Add id n =>
      if nmem id (w_structs s) then (s, Some EAlreadyPresent) else
      let t := match dget Nat.eqb id (w_store s) with Some t => t | None => fresh_struct id n end in
      ({| w_structs := w_structs s ++ [id]; w_store := dset Nat.eqb id t (w_store s);
          w_conns := w_conns s; w_clist := w_clist s; w_free := w_free s ++ s_pins t;
          w_map := w_map s |}, None)
  | Connect x y =>
      if Nat.eqb (fst x) (fst y) then (s, Some EConnectivity) else
      if mem x (w_clist s) then
        match dget spin_eqb x (w_conns s), dget spin_eqb y (w_conns s) with
        | Some y', _ => if spin_eqb y' y then (s, None) else
                        match dget spin_eqb y (w_conns s) with
                        | Some x' => if spin_eqb x' x then (s, None) else (s, Some EAlreadyConnected)
                        | None => (s, Some EAlreadyConnected) end
        | None, Some x' => if spin_eqb x' x then (s, None) else (s, Some EAlreadyConnected)
        | None, None => (s, Some EAlreadyConnected)
        end
      else if mem y (w_clist s) then (s, Some EAlreadyConnected)
      else if negb (mem x (w_free s)) || negb (mem y (w_free s)) then (s, Some ENoSuchPin)
      else
        let s1 := {| w_structs := w_structs s; w_store := w_store s;
                     w_conns := dset spin_eqb x y (w_conns s);
                     w_clist := w_clist s ++ [x; y];
                     w_free := remove1 y (remove1 x (w_free s)); w_map := w_map s |} in
        match add_conn (getst s1 (fst x)) x y with
        | Err e => (s1, Some e)
        | Ok t1 => let s2 := setst s1 (fst x) t1 in
                   match add_conn (getst s2 (fst y)) y x with
                   | Err e => (s2, Some e)
                   | Ok t2 => (setst s2 (fst y) t2, None)
                   end
        end
  | Cut id => cut_op s id
  | Remove id => remove_op s id
  | Prune empties => prune_ops (w_structs s) empties s
  | MapPin name x =>
      ({| w_structs := w_structs s; w_store := w_store s; w_conns := w_conns s; w_clist := w_clist s;
          w_free := w_free s; w_map := dset Nat.eqb name x (w_map s) |}, None)
  | RaiseAll =>
      let fix go (l : list spin) (m : list (nat * spin)) : list (nat * spin) * option err :=
        match l with
        | [] => (m, None)
        | x :: r =>
            if existsb (fun e => spin_eqb (snd e) x) m then go r m else
            match dget Nat.eqb (auto_name x) m with
            | Some _ => (m, Some ENameClash)
            | None => go r (m ++ [(auto_name x, x)])
            end
        end in
      let (m', e) := go (w_free s) (w_map s) in
      ({| w_structs := w_structs s; w_store := w_store s; w_conns := w_conns s; w_clist := w_clist s;
          w_free := w_free s; w_map := m' |}, e)
  | SolveOp => (s, None)
  end.

(* run a history; rejected calls leave whatever state they left (the theorem says: unchanged) *)
Fixpoint run (s : wstate) (ops : list wop) : wstate :=
  match ops with [] => s | o :: r => run (fst (step s o)) r end.

(* the circuit a state denotes *)
Definition present_pins (s : wstate) : list spin :=
  flat_map (fun id => s_pins (getst s id)) (w_structs s).
