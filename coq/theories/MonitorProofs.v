(* MonitorProofs.v — the monitor read-out is the true pair of waves on every link between the
   monitored and the non-monitored part, and declaring monitors does not change the matrix (C10). *)
From Coq Require Import List Arith Lia Bool Field Ring Setoid Morphisms Permutation.
From Lekkersim Require Import Field Matrix Base Kernel KernelProofs Network Solve SolveProofs
  SolveComplete Energy Hier Monitor.
Import ListNotations.

Section MonitorProofs.
Variable K : cfield.
Hypothesis KL : cfield_laws K.

Notation "0" := (f0 K).
Notation "1" := (f1 K).
Infix "+" := (fadd K).
Infix "*" := (fmul K).
Infix "==" := (feq K) (at level 70).

Add Field Kfield8 : (F_ft K KL) (setoid (feq_equiv K KL) (F_ext K KL)).

(* the pair's network equations hold for the true waves (the core of join_sound, kept) *)
Lemma pair_star_eqs cs (A B : lst K) a b :
  NoDup (l_pins A ++ l_pins B) -> NoDup (map snd (links cs A B)) ->
  Sem A a b -> Sem B a b -> link_eqs K cs a b ->
  let lk := links cs A B in
  let xs := map fst lk in let ys := map snd lk in
  let Ain := keep xs (l_pins A) in let Bout := keep ys (l_pins B) in
  star_eqs (part A Ain xs) (part B ys Bout)
    (fun i => a (nth i Ain dpin)) (fun i => a (nth i xs dpin)) (fun i => b (nth i xs dpin))
    (fun i => a (nth i Bout dpin)) (fun i => b (nth i Ain dpin)) (fun i => b (nth i Bout dpin)).
Proof.
  intros Hnd Hndy HA HB HL lk xs ys Ain Bout.
  assert (HndA : NoDup (l_pins A)) by (apply NoDup_app_l in Hnd; exact Hnd).
  assert (HndB : NoDup (l_pins B)) by (apply NoDup_app_r in Hnd; exact Hnd).
  assert (Hndx : NoDup xs) by (apply (links_fst_nodup K); exact HndA).
  assert (PermA : Permutation (l_pins A) (Ain ++ xs)).
  { apply keep_perm; [exact HndA | exact Hndx | apply (links_fst_sub K)]. }
  assert (PermB : Permutation (l_pins B) (ys ++ Bout)).
  { eapply Permutation_trans; [|apply Permutation_app_comm].
    apply keep_perm; [exact HndB | exact Hndy | apply (links_snd_sub K)]. }
  destruct (part_rows K KL A a b Ain xs HndA PermA HA) as [A1 A2].
  destruct (part_rows K KL B a b ys Bout HndB PermB HB) as [B1 B2].
  assert (Lxy : length xs = length ys) by (unfold xs, ys; rewrite !map_length; reflexivity).
  assert (Llk : length xs = length lk) by (unfold xs; rewrite map_length; reflexivity).
  assert (HLK : forall j, (j < length xs)%nat ->
            a (nth j xs dpin) == b (nth j ys dpin) /\ a (nth j ys dpin) == b (nth j xs dpin)).
  { intros j Hj. apply (link_eqs_partner K cs a b _ _ HL). apply (links_nth K). fold lk. rewrite <- Llk. exact Hj. }
  unfold star_eqs. rewrite !(part_N K), !(part_M K). split; [|split; [|split]].
  - exact A1.
  - exact A2.
  - intros i Hi. cbv beta. rewrite <- Lxy in Hi. destruct (HLK i Hi) as [E1 _]. rewrite E1.
    rewrite Lxy in Hi. rewrite (B1 i Hi). unfold vadd.
    rewrite (mv_cong K KL (length ys) _ (fun i0 => a (nth i0 ys dpin)) (fun i0 => b (nth i0 xs dpin)) i); [reflexivity|].
    intros j Hj. rewrite <- Lxy in Hj. destruct (HLK j Hj) as [_ E2]. exact E2.
  - intros i Hi. cbv beta. rewrite (B2 i Hi). unfold vadd.
    rewrite (mv_cong K KL (length ys) _ (fun i0 => a (nth i0 ys dpin)) (fun i0 => b (nth i0 xs dpin)) i); [reflexivity|].
    intros j Hj. rewrite <- Lxy in Hj. destruct (HLK j Hj) as [_ E2]. exact E2.
Qed.

(* THE read-out theorem: for every wave solution, on every link between main and monitor the
   reported "_i" is the wave entering the monitored side and "_o" the wave leaving it *)
Theorem monitor_waves cs (main mon C : lst K) (ain a b : waves K) rd :
  join cs main mon = Ok C ->
  Sem main a b -> Sem mon a b -> link_eqs K cs a b ->
  (forall p, In p (l_pins C) -> ain p == a p) ->
  monitor_readout cs main mon ain = Ok rd ->
  let ys := map snd (links cs main mon) in
  length rd = length ys /\
  forall j d, (j < length ys)%nat ->
    fst (fst (nth j rd d)) = nth j ys dpin /\
    snd (fst (nth j rd d)) == a (nth j ys dpin) /\
    snd (nth j rd d) == b (nth j ys dpin).
Proof.
  intros HJ HA HB HL Hain Hrd ys.
  pose proof (join_pins K _ _ _ _ HJ) as HCp.
  apply (join_inv K) in HJ. cbv zeta in HJ. destruct HJ as (Hnd & Hndy & P & HP & _).
  pose proof (pair_star_eqs cs main mon a b Hnd Hndy HA HB HL) as SE. cbv zeta in SE.
  set (lk := links cs main mon) in *. set (xs := map fst lk) in *. fold ys in SE, Hndy, HP, HCp.
  set (Ain := keep xs (l_pins main)) in *. set (Bout := keep ys (l_pins mon)) in *.
  unfold monitor_readout in Hrd. fold lk xs ys Ain Bout in Hrd.
  apply bind_ok in Hrd. destruct Hrd as ([uo do_] & Hic & Hrd). injection Hrd as <-.
  assert (Lxy : length xs = length ys) by (unfold xs, ys; rewrite !map_length; reflexivity).
  pose proof (int_complete_ok K KL _ _ _ _ uo do_ Hic) as [I1 I2].
  rewrite ?(part_N K), ?(part_M K) in I1, I2.
  (* the waves reported by int_complete satisfy the pair's equations for the same excitation *)
  set (aL := fun i => a (nth i Ain dpin)) in *. set (aR := fun i => a (nth i Bout dpin)) in *.
  set (u := fun i => ain (nth i Ain dpin)) in *. set (dd := fun i => ain (nth i Bout dpin)) in *.
  assert (Eu : veq (length Ain) u aL).
  { intros i Hi. unfold u, aL. apply Hain. rewrite HCp. apply in_or_app. left. apply nth_In. exact Hi. }
  assert (Ed : veq (length Bout) dd aR).
  { intros i Hi. unfold dd, aR. apply Hain. rewrite HCp. apply in_or_app. right. apply nth_In. exact Hi. }
  set (PA := part main Ain xs) in *. set (PB := part mon ys Bout) in *.
  assert (SE' : star_eqs PA PB aL do_ uo aR
                  (vadd (mv (sN PA) (S21 PA) aL) (mv (sM PA) (S22 PA) do_))
                  (vadd (mv (sN PB) (S11 PB) uo) (mv (sM PB) (S12 PB) aR))).
  { unfold star_eqs. split; [apply (veq_refl K KL)|]. split; [|split; [|apply (veq_refl K KL)]].
    - change (sM PA) with (length xs). change (sN PA) with (length Ain).
      change (sN PA) with (length Ain) in I1.
      intros i Hi. rewrite (I1 i Hi). unfold vadd.
      rewrite (mv_cong K KL (length Ain) (S11 PA) u aL i Eu). reflexivity.
    - change (sN PB) with (length ys). change (sM PB) with (length Bout).
      change (sM PB) with (length Bout) in I2. rewrite <- Lxy.
      intros i Hi. rewrite (I2 i Hi). unfold vadd.
      rewrite (mv_cong K KL (length Bout) (S22 PB) dd aR i Ed). reflexivity. }
  destruct (sadd_unique K KL PA PB P aL aR _ _ _ _ _ _ _ _ HP SE SE') as [Ux Uy].
  change (sM PA) with (length xs) in Ux, Uy.
  assert (HLK : forall j, (j < length xs)%nat ->
            a (nth j xs dpin) == b (nth j ys dpin) /\ a (nth j ys dpin) == b (nth j xs dpin)).
  { intros j Hj. apply (link_eqs_partner K cs a b _ _ HL). apply (links_nth K). fold lk.
    unfold xs in Hj. rewrite map_length in Hj. exact Hj. }
  split; [rewrite map_length, seq_length; reflexivity|].
  intros j d Hj.
  rewrite nth_indep with (d' := (nth 0 ys dpin, uo 0%nat, do_ 0%nat))
    by (rewrite map_length, seq_length; exact Hj).
  rewrite (map_nth (fun j0 => (nth j0 ys dpin, uo j0, do_ j0)) (seq 0 (length ys)) 0%nat).
  rewrite seq_nth by exact Hj. cbn [fst snd]. rewrite <- Lxy in Hj.
  split; [reflexivity|]. destruct (HLK j Hj) as [E1 E2]. split.
  - rewrite <- (Ux j Hj). cbv beta. symmetry. exact E2.
  - rewrite <- (Uy j Hj). cbv beta. exact E1.
Qed.

(* ---- declaring monitors does not change the external matrix ---- *)
Lemma group_waves (net : netlist K) sel u a b :
  wave_solution net u a b -> wave_solution (group_net net sel) a a b.
Proof.
  intros (E1 & E2 & E3). unfold group_net. split; [|split]; cbn [comps conns expo].
  - intros L HL. apply filter_In in HL. apply E1. tauto.
  - intros x y Hin. apply filter_In in Hin. apply E2. tauto.
  - intros x Hx _. unfold ext. apply mem_In in Hx. rewrite Hx. reflexivity.
Qed.

Lemma group_Sem (net : netlist K) sel s L u a b :
  solve (group_net net sel) s = Ok L -> wave_solution net u a b -> Sem L a b.
Proof.
  intros HL W.
  pose proof (solve_sound K KL _ s L HL a a b (group_waves net sel u a b W)) as S.
  destruct (solve_pins K _ _ L HL) as [_ PL].
  apply (Sem_ext K KL L (ext (expo (group_net net sel)) a) b); [|exact S].
  intros p Hp. split; [|reflexivity]. unfold ext, group_net; cbn [expo].
  assert (Hm : mem p (allpins (filter sel (comps net))) = true).
  { apply mem_In. apply (proj1 (PL p)). exact Hp. }
  rewrite Hm. reflexivity.
Qed.

Lemma allpins_filter_sub (ls : list (lst K)) sel p : In p (allpins (filter sel ls)) -> In p (allpins ls).
Proof.
  unfold allpins. intros H. apply in_concat in H. destruct H as (l & Hl & Hp).
  apply in_map_iff in Hl. destruct Hl as (L & <- & HL). apply filter_In in HL.
  apply in_concat. exists (l_pins L). split; [apply in_map; tauto | exact Hp].
Qed.

Theorem mon_sound (net : netlist K) ids s1 s2 main mon T :
  mon_parts net ids s1 s2 = Ok (main, mon, T) -> reports net T.
Proof.
  unfold mon_parts. intros H.
  apply bind_ok in H. destruct H as (main' & Hmain & H).
  apply bind_ok in H. destruct H as (mon' & Hmon & H).
  apply bind_ok in H. destruct H as (T' & HT & H).
  destruct (forallb _ (l_pins T')) eqn:Efree; simpl in H; [|discriminate].
  injection H as -> -> ->.
  intros u a b W.
  assert (SA : Sem main a b) by (eapply group_Sem; eassumption).
  assert (SB : Sem mon a b) by (eapply group_Sem; eassumption).
  destruct W as (E1 & E2 & E3).
  assert (ST : Sem T a b) by (apply (join_sound K KL _ _ _ _ a b HT SA SB E2)).
  intros i Hi. rewrite (ST i Hi). apply (bigsum_ext K KL). intros j Hj.
  assert (Hin : In (nth j (l_pins T) dpin) (l_pins T)) by (apply nth_In; exact Hj).
  set (x := nth j (l_pins T) dpin) in *.
  rewrite (E3 x); [reflexivity | |].
  - rewrite (join_pins K _ _ _ _ HT) in Hin. apply in_app_or in Hin.
    destruct Hin as [Hin|Hin]; apply keep_In in Hin; destruct Hin as [Hin _].
    + apply (allpins_filter_sub _ (fun L => negb (in_group ids L))).
      apply (proj1 (proj2 (solve_pins K _ _ main Hmain) _)). exact Hin.
    + apply (allpins_filter_sub _ (in_group ids)).
      apply (proj1 (proj2 (solve_pins K _ _ mon Hmon) _)). exact Hin.
  - rewrite forallb_forall in Efree. specialize (Efree _ Hin).
    destruct (partner (conns net) x); [discriminate|reflexivity].
Qed.

(* any result that reports the circuit has the coefficients of a plain solve *)
Lemma reports_coeff (net : netlist K) (T : lst K) sched T' p q :
  NoDup (l_pins T) ->
  (forall ex, reports (with_expo K net ex) T) ->
  solve net sched = Ok T' ->
  In p (l_pins T) -> In q (l_pins T) -> In p (l_pins T') -> In q (l_pins T') ->
  coeff T p q == coeff T' p q.
Proof.
  intros NT Rep HT' Hp Hq Hp' Hq'.
  destruct (solve_complete K KL (with_expo K net [q]) sched T' (fun _ => 1) HT') as (a & b & W).
  rewrite <- (sound_col K KL net sched T' q a b p HT' W Hp' Hq').
  pose proof (Rep [q] _ a b W) as R.
  pose proof (R (pos p (l_pins T)) (pos_lt _ _ Hp)) as E. rewrite nth_pos in E by exact Hp.
  symmetry. rewrite E. unfold coeff.
  rewrite (bigsum_ext K KL _ _ (fun j => l_S T (pos p (l_pins T)) j
                                         * (if Nat.eqb j (pos q (l_pins T)) then 1 else 0))).
  2:{ intros j Hj. cbn [with_expo expo]. unfold ext. simpl.
      destruct (spin_eqb_spec q (nth j (l_pins T) dpin)) as [Eq|Eq]; simpl.
      - rewrite Eq, pos_nth by assumption. rewrite Nat.eqb_refl. reflexivity.
      - destruct (Nat.eqb_spec j (pos q (l_pins T))) as [->|_]; [|reflexivity].
        exfalso. apply Eq. rewrite nth_pos by exact Hq. reflexivity. }
  apply (bigsum_delta_r K KL). apply pos_lt. exact Hq.
Qed.

Theorem monitor_transparent (net : netlist K) ids s1 s2 main mon T sched T' :
  mon_parts net ids s1 s2 = Ok (main, mon, T) -> solve net sched = Ok T' ->
  forall p q, In p (l_pins T) -> In q (l_pins T) -> In p (l_pins T') -> In q (l_pins T') ->
    coeff T p q == coeff T' p q.
Proof.
  intros Hm HT' p q Hp Hq Hp' Hq'.
  apply (reports_coeff net T sched T' p q); try assumption.
  - (* the pins of a join are distinct *)
    unfold mon_parts in Hm.
    apply bind_ok in Hm. destruct Hm as (main' & _ & Hm).
    apply bind_ok in Hm. destruct Hm as (mon' & _ & Hm).
    apply bind_ok in Hm. destruct Hm as (T0 & HT & Hm).
    destruct (forallb _ (l_pins T0)); simpl in Hm; [|discriminate].
    injection Hm as -> -> ->.
    pose proof (join_pins K _ _ _ _ HT) as HCp. apply (join_inv K) in HT. cbv zeta in HT.
    destruct HT as (Hnd & _). rewrite HCp.
    apply NoDup_app_intro.
    + apply NoDup_filter. apply NoDup_app_l in Hnd. exact Hnd.
    + apply NoDup_filter. apply NoDup_app_r in Hnd. exact Hnd.
    + intros x Hx Hx'. apply keep_In in Hx. apply keep_In in Hx'.
      apply (NoDup_app_disj _ _ x Hnd); tauto.
  - intros ex. apply (mon_sound (with_expo K net ex) ids s1 s2 main mon T). exact Hm.
Qed.

(* the read-out of mon_solve, for every wave solution of the circuit *)
Theorem mon_solve_waves (net : netlist K) ids s1 s2 u r a b :
  mon_solve net ids s1 s2 u = Ok r -> wave_solution net u a b ->
  exists main mon, mon_parts net ids s1 s2 = Ok (main, mon, mr_T r) /\
    let ys := map snd (links (conns net) main mon) in
    length (mr_read r) = length ys /\
    forall j d, (j < length ys)%nat ->
      fst (fst (nth j (mr_read r) d)) = nth j ys dpin /\
      snd (fst (nth j (mr_read r) d)) == a (nth j ys dpin) /\
      snd (nth j (mr_read r) d) == b (nth j ys dpin).
Proof.
  unfold mon_solve. intros H W.
  apply bind_ok in H. destruct H as ([[main mon] T] & Hp & H). cbn [fst snd] in H.
  apply bind_ok in H. destruct H as (rd & Hrd & H). injection H as <-. cbn [mr_T mr_read].
  exists main, mon. split; [exact Hp|].
  pose proof Hp as Hp'. unfold mon_parts in Hp'.
  apply bind_ok in Hp'. destruct Hp' as (main' & Hmain & Hp').
  apply bind_ok in Hp'. destruct Hp' as (mon' & Hmon & Hp').
  apply bind_ok in Hp'. destruct Hp' as (T' & HT & Hp').
  destruct (forallb _ (l_pins T')) eqn:Efree; simpl in Hp'; [|discriminate].
  injection Hp' as -> -> ->.
  assert (SA : Sem main a b) by (eapply group_Sem; eassumption).
  assert (SB : Sem mon a b) by (eapply group_Sem; eassumption).
  destruct W as (E1 & E2 & E3).
  apply (monitor_waves (conns net) main mon T (ext (expo net) u) a b rd HT SA SB E2); [|exact Hrd].
  intros p Hin. symmetry. apply E3.
  - rewrite (join_pins K _ _ _ _ HT) in Hin. apply in_app_or in Hin.
    destruct Hin as [Hin|Hin]; apply keep_In in Hin; destruct Hin as [Hin _].
    + apply (allpins_filter_sub _ (fun L => negb (in_group ids L))).
      apply (proj1 (proj2 (solve_pins K _ _ main Hmain) _)). exact Hin.
    + apply (allpins_filter_sub _ (in_group ids)).
      apply (proj1 (proj2 (solve_pins K _ _ mon Hmon) _)). exact Hin.
  - rewrite forallb_forall in Efree. specialize (Efree _ Hin).
    destruct (partner (conns net) p); [discriminate|reflexivity].
Qed.

(* a lossless monitored part: over ALL its pins the incoming and outgoing powers balance for every
   wave solution; when all of its pins are links to the rest (no exposed/free pin of its own) these
   are exactly the reported "_i" and "_o" columns (monitor_waves) *)
Theorem monitor_balance (net : netlist K) ids s2 mon u a b :
  solve (group_net net (in_group ids)) s2 = Ok mon ->
  (forall L, In L (comps net) -> in_group ids L = true -> mx_lossless K (length (l_pins L)) (l_S L)) ->
  wave_solution net u a b ->
  lsum K (l_pins mon) (fun p => pw K (a p)) == lsum K (l_pins mon) (fun p => pw K (b p)).
Proof.
  intros Hmon Hl W.
  assert (SM : Sem mon a b) by (eapply group_Sem; eassumption).
  assert (Hl' : forall L, In L (comps (group_net net (in_group ids))) ->
                          mx_lossless K (length (l_pins L)) (l_S L)).
  { intros L HL. unfold group_net in HL; cbn [comps] in HL. apply filter_In in HL. apply Hl; tauto. }
  pose proof (solve_lossless K KL _ s2 mon Hmon Hl' a) as E.
  destruct (solve_pins K _ _ mon Hmon) as [NM PM].
  rewrite (lsum_ext K KL (l_pins mon) (fun p => pw K (a p))
             (fun p => pw K (ext (expo (group_net net (in_group ids))) a p))).
  2:{ intros p Hp. unfold ext, group_net; cbn [expo].
      assert (Hm : mem p (allpins (filter (in_group ids) (comps net))) = true).
      { apply mem_In. apply (proj1 (PM p)). exact Hp. }
      rewrite Hm. reflexivity. }
  rewrite E. apply (lsum_ext K KL). intros p Hp.
  pose proof (SM (pos p (l_pins mon)) (pos_lt _ _ Hp)) as Sp. rewrite nth_pos in Sp by exact Hp.
  rewrite Sp. unfold outw. apply (pw_Proper K KL). apply (bigsum_ext K KL). intros j Hj.
  unfold ext, group_net; cbn [expo].
  assert (Hm : mem (nth j (l_pins mon) dpin) (allpins (filter (in_group ids) (comps net))) = true).
  { apply mem_In. apply (proj1 (PM _)). apply nth_In. exact Hj. }
  rewrite Hm. reflexivity.
Qed.

End MonitorProofs.
