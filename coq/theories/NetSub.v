(* NetSub.v — a part of a circuit that no connection leaves behaves, solved alone, like the
   original (the matrix half of C12; also used for block structure of disconnected circuits). *)
From Coq Require Import List Arith Lia Bool Setoid Morphisms Permutation.
From Lekkersim Require Import Field Matrix Base Kernel KernelProofs Network Solve SolveProofs SolveComplete Energy.
Import ListNotations.

Section NetSub.
Variable K : cfield.
Hypothesis KL : cfield_laws K.
Infix "==" := (feq K) (at level 70).

Definition subnet (net : netlist K) (keepc : lst K -> bool) : netlist K :=
  let kept := filter keepc (comps net) in
  {| comps := kept;
     conns := filter (fun c => mem (fst c) (allpins kept)) (conns net);
     expo := filter (fun p => mem p (allpins kept)) (expo net) |}.

(* no connection leaves the selected part *)
Definition closed_sel (net : netlist K) (keepc : lst K -> bool) : Prop :=
  forall x y, In (x, y) (conns net) ->
    (In x (allpins (filter keepc (comps net))) <-> In y (allpins (filter keepc (comps net)))).

Lemma sub_waves (net : netlist K) keepc u a b :
  closed_sel net keepc -> wave_solution net u a b -> wave_solution (subnet net keepc) u a b.
Proof.
  intros Hcl (E1 & E2 & E3). unfold subnet. split; [|split]; cbn [comps conns expo].
  - intros L HL. apply filter_In in HL. apply E1. tauto.
  - intros x y Hin. apply filter_In in Hin. apply E2. tauto.
  - intros x Hx Hn.
    assert (Hx' : In x (allpins (comps net))).
    { unfold allpins in *. apply in_concat in Hx. destruct Hx as (l & Hl & Hx).
      apply in_map_iff in Hl. destruct Hl as (L & <- & HL). apply filter_In in HL.
      apply in_concat. exists (l_pins L). split; [apply in_map; tauto | exact Hx]. }
    rewrite (E3 x Hx').
    + unfold ext. apply mem_In in Hx.
      destruct (mem x (expo net)) eqn:Em.
      * assert (Hm : mem x (filter (fun p => mem p (allpins (filter keepc (comps net)))) (expo net)) = true).
        { apply mem_In. apply filter_In. split; [apply mem_In; exact Em | exact Hx]. }
        rewrite Hm. reflexivity.
      * assert (Hm : mem x (filter (fun p => mem p (allpins (filter keepc (comps net)))) (expo net)) = false).
        { apply mem_nIn. intros Hc. apply filter_In in Hc. destruct Hc as [Hc _]. apply mem_In in Hc. congruence. }
        rewrite Hm. reflexivity.
    + apply partner_none_iff. intros [p q] Hin. simpl.
      pose proof (partner_None _ _ Hn) as Hnone.
      split; intros ->.
      * apply (proj1 (Hnone (x, q) ltac:(apply filter_In; split; [exact Hin | apply mem_In; exact Hx]))). reflexivity.
      * assert (Hp : In p (allpins (filter keepc (comps net)))) by (apply (Hcl p x Hin); exact Hx).
        apply (proj2 (Hnone (p, x) ltac:(apply filter_In; split; [exact Hin | apply mem_In; exact Hp]))). reflexivity.
Qed.

(* each part solved alone reports, for the pins it owns, what the original reports *)
Theorem split_behaves (net : netlist K) keepc s1 s2 T Ts :
  closed_sel net keepc -> solve net s1 = Ok T -> solve (subnet net keepc) s2 = Ok Ts ->
  forall p q, In p (l_pins Ts) -> In q (l_pins Ts) -> In p (l_pins T) -> In q (l_pins T) ->
    coeff Ts p q == coeff T p q.
Proof.
  intros Hcl HT HTs p q Hp Hq HpT HqT.
  destruct (solve_complete K KL (with_expo K net [q]) s1 T (fun _ => f1 K) HT) as (a & b & W).
  assert (Hcl' : closed_sel (with_expo K net [q]) keepc) by exact Hcl.
  pose proof (sub_waves (with_expo K net [q]) keepc _ a b Hcl' W) as Ws.
  (* q is a pin of the kept part, so the part's exposure list for [q] is [q] *)
  assert (Hqk : In q (allpins (filter keepc (comps net)))).
  { apply (proj1 (proj2 (solve_pins K _ _ Ts HTs) q)). exact Hq. }
  assert (Eexp : subnet (with_expo K net [q]) keepc = with_expo K (subnet net keepc) [q]).
  { unfold subnet, with_expo; cbn [comps conns expo]. f_equal. simpl.
    apply mem_In in Hqk. rewrite Hqk. reflexivity. }
  rewrite Eexp in Ws.
  rewrite <- (sound_col K KL net s1 T q a b p HT W HpT HqT).
  symmetry. exact (sound_col K KL (subnet net keepc) s2 Ts q a b p HTs Ws Hp Hq).
Qed.

End NetSub.
