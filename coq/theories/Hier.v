(* Hier.v — nested solvers (C02).  A placed solver behaves as a component whose pins are the
   pins it exposes and whose matrix is its solved matrix restricted to them (Structure.createS
   with a solver: recursive solve, adoption of the solved model's pin table).  Pins are global
   (leaf pins), so no renaming is needed; how names resolve to leaf pins is the harness's
   business (and C16's). *)
From Coq Require Import List Arith Lia Bool.
From Lekkersim Require Import Field Matrix Base Kernel Network Solve.
Import ListNotations.

Section Hier.
Variable K : cfield.

Inductive circ :=
| Leaf (L : lst K)
| Sub (subs : list circ) (cs : list conn) (ex : list spin).

(* the solved model of a solver: its exposed pins, in exposure order *)
Definition restrict (T : lst K) (ex : list spin) : result (lst K) :=
  if nodupb ex && forallb (fun p => mem p (l_pins T)) ex then
    let n := length ex in
    Ok {| l_pins := ex;
          l_S := tab n n (fun i j => coeff T (nth i ex dpin) (nth j ex dpin)) |}
  else Err ENoSuchPin.

(* any rule choosing the merge schedule of a level (C03: the result does not depend on it) *)
Variable pick : list (lst K) -> list conn -> list (nat * nat).

Fixpoint solve_hier (c : circ) : result (lst K) :=
  match c with
  | Leaf L => Ok L
  | Sub subs cs ex =>
      let fix go (l : list circ) : result (list (lst K)) :=
        match l with
        | [] => Ok []
        | c' :: r => do L <- solve_hier c'; do rest <- go r; Ok (L :: rest)
        end in
      do Ls <- go subs;
      do T <- solve {| comps := Ls; conns := cs; expo := ex |} (pick Ls cs);
      restrict T ex
  end.

(* the equivalent single-level circuit *)
Fixpoint leaves (c : circ) : list (lst K) :=
  match c with Leaf L => [L] | Sub subs _ _ => flat_map leaves subs end.
Fixpoint all_conns (c : circ) : list conn :=
  match c with Leaf _ => [] | Sub subs cs _ => cs ++ flat_map all_conns subs end.
Definition top_expo (c : circ) : list spin :=
  match c with Leaf L => l_pins L | Sub _ _ ex => ex end.
Definition inline (c : circ) : netlist K :=
  {| comps := leaves c; conns := all_conns c; expo := top_expo c |}.

Fixpoint depth (c : circ) : nat :=
  match c with Leaf _ => O | Sub subs _ _ => S (fold_right Nat.max O (map depth subs)) end.

End Hier.

Arguments Leaf {K}. Arguments Sub {K}. Arguments restrict {K}. Arguments solve_hier {K}.
Arguments leaves {K}. Arguments all_conns {K}. Arguments top_expo {K}. Arguments inline {K}.
Arguments depth {K}.
