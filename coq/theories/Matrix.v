(* Matrix.v — matrices as functions nat -> nat -> F with sizes carried separately.
   Equality is pointwise on the index range. Every executable operation passes its result
   through [tab] (a list-of-lists round trip) so that nested products are not recomputed by
   [vm_compute]; [tab_ok] makes this invisible to proofs. *)
From Coq Require Import List Arith Lia Bool Field Ring Setoid Morphisms.
From Lekkersim Require Import Field.
Import ListNotations.

Section Mx.
Variable K : cfield.
Hypothesis KL : cfield_laws K.

Notation "0" := (f0 K).
Notation "1" := (f1 K).
Infix "+" := (fadd K).
Infix "*" := (fmul K).
Infix "-" := (fsub K).
Notation "- x" := (fopp K x).
Infix "/" := (fdiv K).
Infix "==" := (feq K) (at level 70).

Add Field Kfield : (F_ft K KL) (setoid (feq_equiv K KL) (F_ext K KL)).

Definition vec := nat -> K.
Definition mx := nat -> nat -> K.

Fixpoint bigsum (n : nat) (f : nat -> K) : K :=
  match n with O => 0 | S k => bigsum k f + f k end.

Definition veq (n : nat) (u v : vec) : Prop := forall i, (i < n)%nat -> u i == v i.
Definition meq (n m : nat) (A B : mx) : Prop :=
  forall i j, (i < n)%nat -> (j < m)%nat -> A i j == B i j.

Definition vzero : vec := fun _ => 0.
Definition vadd (u v : vec) : vec := fun i => u i + v i.
Definition vsub (u v : vec) : vec := fun i => u i - v i.
Definition mzero : mx := fun _ _ => 0.
Definition mid : mx := fun i j => if Nat.eqb i j then 1 else 0.
Definition madd (A B : mx) : mx := fun i j => A i j + B i j.
Definition msub (A B : mx) : mx := fun i j => A i j - B i j.
Definition mmul (k : nat) (A B : mx) : mx := fun i j => bigsum k (fun l => A i l * B l j).
Definition mv (k : nat) (A : mx) (v : vec) : vec := fun i => bigsum k (fun l => A i l * v l).
Definition mtrans (A : mx) : mx := fun i j => A j i.

(* tabulation *)
Definition tabv (n : nat) (v : vec) : vec :=
  let l := map v (seq 0 n) in fun i => nth i l 0.
Definition tab (n m : nat) (A : mx) : mx :=
  let rows := map (fun i => map (fun j => A i j) (seq 0 m)) (seq 0 n) in
  fun i j => nth j (nth i rows []) 0.

Definition to_rows (n m : nat) (A : mx) : list (list K) :=
  map (fun i => map (fun j => A i j) (seq 0 m)) (seq 0 n).
Definition of_rows (rows : list (list K)) : mx := fun i j => nth j (nth i rows []) 0.

Lemma tabv_ok n v i : (i < n)%nat -> tabv n v i = v i.
Proof.
  intros H. unfold tabv.
  rewrite nth_indep with (d' := v 0%nat) by (rewrite map_length, seq_length; exact H).
  rewrite map_nth with (d := 0%nat). rewrite seq_nth by exact H. reflexivity.
Qed.

Lemma tab_ok n m A i j : (i < n)%nat -> (j < m)%nat -> tab n m A i j = A i j.
Proof.
  intros Hi Hj. unfold tab.
  set (g := fun i0 : nat => map (fun j0 : nat => A i0 j0) (seq 0 m)).
  rewrite nth_indep with (d' := g 0%nat) by (rewrite map_length, seq_length; exact Hi).
  rewrite map_nth with (d := 0%nat). rewrite seq_nth by exact Hi. unfold g. simpl.
  rewrite nth_indep with (d' := A i 0%nat) by (rewrite map_length, seq_length; exact Hj).
  rewrite map_nth with (d := 0%nat). rewrite seq_nth by exact Hj. reflexivity.
Qed.

Lemma tab_meq n m A : meq n m (tab n m A) A.
Proof. intros i j Hi Hj. rewrite tab_ok by assumption. reflexivity. Qed.

Lemma of_to_rows n m A i j : (i < n)%nat -> (j < m)%nat -> of_rows (to_rows n m A) i j = A i j.
Proof. intros. apply tab_ok; assumption. Qed.

(* ---- equivalences ---- *)
Lemma veq_refl n v : veq n v v. Proof. intros i _. reflexivity. Qed.
Lemma veq_sym n u v : veq n u v -> veq n v u. Proof. intros H i Hi. symmetry. auto. Qed.
Lemma veq_trans n u v w : veq n u v -> veq n v w -> veq n u w.
Proof. intros H1 H2 i Hi. rewrite (H1 i Hi), (H2 i Hi). reflexivity. Qed.
Lemma meq_refl n m A : meq n m A A. Proof. intros i j _ _. reflexivity. Qed.
Lemma meq_sym n m A B : meq n m A B -> meq n m B A.
Proof. intros H i j Hi Hj. symmetry. auto. Qed.
Lemma meq_trans n m A B C : meq n m A B -> meq n m B C -> meq n m A C.
Proof. intros H1 H2 i j Hi Hj. rewrite (H1 i j Hi Hj), (H2 i j Hi Hj). reflexivity. Qed.

(* ---- bigsum ---- *)
Lemma bigsum_ext n f g : (forall i, (i < n)%nat -> f i == g i) -> bigsum n f == bigsum n g.
Proof.
  induction n as [|n IH]; intros H; simpl; [reflexivity|].
  rewrite IH by (intros; apply H; lia). rewrite H by lia. reflexivity.
Qed.

Lemma bigsum_0 n f : (forall i, (i < n)%nat -> f i == 0) -> bigsum n f == 0.
Proof.
  induction n as [|n IH]; intros H; simpl; [reflexivity|].
  rewrite IH by (intros; apply H; lia). rewrite H by lia. ring.
Qed.

Lemma bigsum_add n f g : bigsum n (fun i => f i + g i) == bigsum n f + bigsum n g.
Proof. induction n as [|n IH]; simpl; [ring|]. rewrite IH. ring. Qed.

Lemma bigsum_sub n f g : bigsum n (fun i => f i - g i) == bigsum n f - bigsum n g.
Proof. induction n as [|n IH]; simpl; [ring|]. rewrite IH. ring. Qed.

Lemma bigsum_scal_l n c f : bigsum n (fun i => c * f i) == c * bigsum n f.
Proof. induction n as [|n IH]; simpl; [ring|]. rewrite IH. ring. Qed.

Lemma bigsum_scal_r n c f : bigsum n (fun i => f i * c) == bigsum n f * c.
Proof. induction n as [|n IH]; simpl; [ring|]. rewrite IH. ring. Qed.

Lemma bigsum_swap n m (f : nat -> nat -> K) :
  bigsum n (fun i => bigsum m (fun j => f i j)) == bigsum m (fun j => bigsum n (fun i => f i j)).
Proof.
  induction n as [|n IH]; simpl.
  - symmetry. apply bigsum_0. reflexivity.
  - rewrite IH. rewrite <- bigsum_add. reflexivity.
Qed.

Lemma bigsum_delta n k f : (k < n)%nat ->
  bigsum n (fun i => (if Nat.eqb k i then 1 else 0) * f i) == f k.
Proof.
  induction n as [|n IH]; intros H; [lia|]. simpl.
  destruct (Nat.eqb_spec k n) as [->|Hne].
  - rewrite bigsum_0; [ring|]. intros i Hi.
    destruct (Nat.eqb_spec n i); [lia|ring].
  - rewrite IH by lia. ring.
Qed.

Lemma bigsum_delta_r n k f : (k < n)%nat ->
  bigsum n (fun i => f i * (if Nat.eqb i k then 1 else 0)) == f k.
Proof.
  intros H. rewrite <- (bigsum_delta n k f H). apply bigsum_ext. intros i _.
  rewrite Nat.eqb_sym. ring.
Qed.

Lemma bigsum_split n m f :
  bigsum (n + m) f == bigsum n f + bigsum m (fun i => f (n + i)%nat).
Proof.
  induction m as [|m IH]; simpl.
  - rewrite Nat.add_0_r. ring.
  - rewrite Nat.add_succ_r. simpl. rewrite IH. ring.
Qed.

(* ---- matrix-vector algebra ---- *)
Lemma mv_ext k n A B u v : meq n k A B -> veq k u v -> veq n (mv k A u) (mv k B v).
Proof.
  intros HA Hv i Hi. unfold mv. apply bigsum_ext. intros l Hl.
  rewrite (HA i l Hi Hl), (Hv l Hl). reflexivity.
Qed.

Lemma mv_mmul k m A B v i : mv k (mmul m A B) v i == mv m A (mv k B v) i.
Proof.
  unfold mv, mmul.
  rewrite (bigsum_ext k _ (fun l => bigsum m (fun l0 => A i l0 * B l0 l * v l))).
  2:{ intros l _. rewrite <- bigsum_scal_r. reflexivity. }
  rewrite bigsum_swap. apply bigsum_ext. intros l0 _.
  rewrite <- bigsum_scal_l. apply bigsum_ext. intros; ring.
Qed.

Lemma mv_vadd k A u v i : mv k A (vadd u v) i == mv k A u i + mv k A v i.
Proof.
  unfold mv, vadd. rewrite <- bigsum_add. apply bigsum_ext. intros; ring.
Qed.

Lemma mv_madd k A B v i : mv k (madd A B) v i == mv k A v i + mv k B v i.
Proof.
  unfold mv, madd. rewrite <- bigsum_add. apply bigsum_ext. intros; ring.
Qed.

Lemma mv_msub k A B v i : mv k (msub A B) v i == mv k A v i - mv k B v i.
Proof.
  unfold mv, msub. rewrite <- bigsum_sub. apply bigsum_ext. intros; ring.
Qed.

Lemma mv_mid k v i : (i < k)%nat -> mv k mid v i == v i.
Proof. intros H. unfold mv, mid. apply bigsum_delta. exact H. Qed.

Lemma mv_mzero k v i : mv k mzero v i == 0.
Proof. unfold mv, mzero. apply bigsum_0. intros; ring. Qed.

Lemma mv_vzero k A i : mv k A vzero i == 0.
Proof. unfold mv, vzero. apply bigsum_0. intros; ring. Qed.

(* basis vectors: a matrix is determined by its action *)
Definition basis (j : nat) : vec := fun i => if Nat.eqb i j then 1 else 0.

Lemma mv_basis k A i j : (j < k)%nat -> mv k A (basis j) i == A i j.
Proof. intros H. unfold mv, basis. apply (bigsum_delta_r k j (fun l => A i l)). exact H. Qed.

Lemma meq_by_action n k A B :
  (forall v, veq n (mv k A v) (mv k B v)) -> meq n k A B.
Proof.
  intros H i j Hi Hj. specialize (H (basis j) i Hi).
  rewrite !mv_basis in H by exact Hj. exact H.
Qed.

(* ---- matrix algebra ---- *)
Lemma mmul_ext n k m A A' B B' :
  meq n k A A' -> meq k m B B' -> meq n m (mmul k A B) (mmul k A' B').
Proof.
  intros HA HB i j Hi Hj. unfold mmul. apply bigsum_ext. intros l Hl.
  rewrite (HA i l Hi Hl), (HB l j Hl Hj). reflexivity.
Qed.

Lemma mmul_assoc k l A B C i j :
  mmul l (mmul k A B) C i j == mmul k A (mmul l B C) i j.
Proof.
  unfold mmul.
  rewrite (bigsum_ext l _ (fun x => bigsum k (fun y => A i y * B y x * C x j))).
  2:{ intros x _. rewrite <- bigsum_scal_r. reflexivity. }
  rewrite bigsum_swap. apply bigsum_ext. intros y _.
  rewrite <- bigsum_scal_l. apply bigsum_ext. intros; ring.
Qed.

Lemma mmul_mid_l k A i j : (i < k)%nat -> mmul k mid A i j == A i j.
Proof. intros H. unfold mmul, mid. apply (bigsum_delta k i (fun l => A l j)). exact H. Qed.

Lemma mmul_mid_r k A i j : (j < k)%nat -> mmul k A mid i j == A i j.
Proof. intros H. unfold mmul, mid. apply (bigsum_delta_r k j (fun l => A i l)). exact H. Qed.

Lemma mmul_mzero_l k A i j : mmul k mzero A i j == 0.
Proof. unfold mmul, mzero. apply bigsum_0. intros; ring. Qed.

Lemma mmul_mzero_r k A i j : mmul k A mzero i j == 0.
Proof. unfold mmul, mzero. apply bigsum_0. intros; ring. Qed.

Lemma mmul_madd_r k A B C i j :
  mmul k A (madd B C) i j == mmul k A B i j + mmul k A C i j.
Proof. unfold mmul, madd. rewrite <- bigsum_add. apply bigsum_ext. intros; ring. Qed.

Lemma mmul_madd_l k A B C i j :
  mmul k (madd A B) C i j == mmul k A C i j + mmul k B C i j.
Proof. unfold mmul, madd. rewrite <- bigsum_add. apply bigsum_ext. intros; ring. Qed.

Lemma mmul_msub_r k A B C i j :
  mmul k A (msub B C) i j == mmul k A B i j - mmul k A C i j.
Proof. unfold mmul, msub. rewrite <- bigsum_sub. apply bigsum_ext. intros; ring. Qed.

Lemma mmul_msub_l k A B C i j :
  mmul k (msub A B) C i j == mmul k A C i j - mmul k B C i j.
Proof. unfold mmul, msub. rewrite <- bigsum_sub. apply bigsum_ext. intros; ring. Qed.

Lemma mtrans_mmul k A B i j : mtrans (mmul k A B) i j == mmul k (mtrans B) (mtrans A) i j.
Proof. unfold mtrans, mmul. apply bigsum_ext. intros; ring. Qed.

(* boolean equality on a range *)
Definition meqb (n m : nat) (A B : mx) : bool :=
  forallb (fun i => forallb (fun j => feqb K (A i j) (B i j)) (seq 0 m)) (seq 0 n).

Lemma meqb_ok n m A B : meqb n m A B = true -> meq n m A B.
Proof.
  unfold meqb. intros H i j Hi Hj.
  rewrite forallb_forall in H. specialize (H i). rewrite in_seq in H.
  specialize (H ltac:(lia)). rewrite forallb_forall in H. specialize (H j).
  rewrite in_seq in H. specialize (H ltac:(lia)). apply (feqb_ok K KL). exact H.
Qed.

(* ---- certified inverse: Gauss-Jordan on rows, result checked by multiplication ---- *)
Definition row := list K.

Definition row_scale (c : K) (r : row) : row := map (fun x => c * x) r.
Definition row_axpy (c : K) (r s : row) : row :=   (* s - c * r *)
  map (fun p => snd p - c * fst p) (combine r s).

Fixpoint find_pivot (c : nat) (rows : list row) (idx : nat) : option nat :=
  match rows with
  | [] => None
  | r :: rest => if feqb K (nth c r 0) 0 then find_pivot c rest (S idx) else Some idx
  end.

Definition swap_rows (i j : nat) (rows : list row) : list row :=
  let ri := nth i rows [] in let rj := nth j rows [] in
  map (fun k => if Nat.eqb k i then rj else if Nat.eqb k j then ri else nth k rows [])
      (seq 0 (length rows)).

Definition gj_step (rows : list row) (c : nat) : option (list row) :=
  match find_pivot c (skipn c rows) c with
  | None => None
  | Some p =>
      let rows1 := swap_rows c p rows in
      let prow := nth c rows1 [] in
      let piv := nth c prow 0 in
      let prow' := row_scale (finv K piv) prow in
      Some (map (fun k => if Nat.eqb k c then prow'
                          else let r := nth k rows1 [] in row_axpy (nth c r 0) prow' r)
                (seq 0 (length rows1)))
  end.

Fixpoint gj_loop (rows : list row) (cols : list nat) : option (list row) :=
  match cols with
  | [] => Some rows
  | c :: rest => match gj_step rows c with None => None | Some rows' => gj_loop rows' rest end
  end.

Definition gauss_jordan (n : nat) (A : mx) : option mx :=
  let aug := map (fun i => map (fun j => A i j) (seq 0 n) ++ map (fun j => mid i j) (seq 0 n))
                 (seq 0 n) in
  match gj_loop aug (seq 0 n) with
  | None => None
  | Some rows => let R := map (fun r => skipn n r) rows in Some (of_rows R)
  end.

Definition cinv (n : nat) (A : mx) : option mx :=
  match gauss_jordan n A with
  | None => None
  | Some X =>
      if meqb n n (mmul n X A) mid && meqb n n (mmul n A X) mid then Some X else None
  end.

Lemma cinv_ok n A X : cinv n A = Some X ->
  meq n n (mmul n X A) mid /\ meq n n (mmul n A X) mid.
Proof.
  unfold cinv. destruct (gauss_jordan n A) as [Y|]; [|discriminate].
  destruct (meqb n n (mmul n Y A) mid && meqb n n (mmul n A Y) mid) eqn:E; [|discriminate].
  intros H; injection H as <-. apply andb_true_iff in E. destruct E as [E1 E2].
  split; apply meqb_ok; assumption.
Qed.

(* consequences of a left inverse *)
Lemma linv_solve k X M (x r : vec) :
  meq k k (mmul k X M) mid -> veq k (mv k M x) r -> veq k x (mv k X r).
Proof.
  intros HX Hx i Hi.
  rewrite <- (mv_ext k k X X (mv k M x) r (meq_refl _ _ _) Hx i Hi).
  rewrite <- mv_mmul.
  rewrite (mv_ext k k _ _ x x HX (veq_refl _ _) i Hi). rewrite mv_mid by exact Hi. reflexivity.
Qed.

Lemma rinv_apply k X M (r : vec) :
  meq k k (mmul k M X) mid -> veq k (mv k M (mv k X r)) r.
Proof.
  intros HX i Hi. rewrite <- mv_mmul.
  rewrite (mv_ext k k _ _ r r HX (veq_refl _ _) i Hi). apply mv_mid. exact Hi.
Qed.

End Mx.

Arguments bigsum {K}. Arguments veq {K}. Arguments meq {K}.
Arguments vzero {K}. Arguments vadd {K}. Arguments vsub {K}. Arguments mzero {K}. Arguments mid {K}.
Arguments madd {K}. Arguments msub {K}. Arguments mmul {K}. Arguments mv {K}. Arguments mtrans {K}.
Arguments tab {K}. Arguments tabv {K}. Arguments to_rows {K}. Arguments of_rows {K}.
Arguments basis {K}. Arguments meqb {K}. Arguments cinv {K}. Arguments gauss_jordan {K}.
