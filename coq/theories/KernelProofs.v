(* KernelProofs.v — the star product is the exact elimination of the shared ports (C18). *)
From Coq Require Import List Arith Lia Bool Field Ring Setoid Morphisms.
From Lekkersim Require Import Field Matrix Base Kernel.
Import ListNotations.

Section KernelProofs.
Variable K : cfield.
Hypothesis KL : cfield_laws K.

Notation "0" := (f0 K).
Notation "1" := (f1 K).
Infix "+" := (fadd K).
Infix "*" := (fmul K).
Infix "-" := (fsub K).
Notation "- x" := (fopp K x).
Infix "==" := (feq K) (at level 70).

Add Field Kfield2 : (F_ft K KL) (setoid (feq_equiv K KL) (F_ext K KL)).

Lemma mv_cong k (A : mx K) u v i : veq k u v -> mv k A u i == mv k A v i.
Proof. intros H. unfold mv. apply (bigsum_ext K KL). intros l Hl. rewrite (H l Hl). reflexivity. Qed.

Lemma mv_mcong n k (A B : mx K) v i : meq n k A B -> (i < n)%nat -> mv k A v i == mv k B v i.
Proof. intros H Hi. unfold mv. apply (bigsum_ext K KL). intros l Hl. rewrite (H i l Hi Hl). reflexivity. Qed.

Lemma mv_vadd_veq k n (A : mx K) u v : veq n (mv k A (vadd u v)) (vadd (mv k A u) (mv k A v)).
Proof. intros i _. apply (mv_vadd K KL). Qed.

(* elimination of one interface vector, needs a left inverse only *)
Lemma elim_generic k (P Q X : mx K) (p q x y : vec K) :
  meq k k (mmul k X (msub mid (mmul k P Q))) mid ->
  (forall i, (i < k)%nat -> x i == p i + mv k P y i) ->
  (forall i, (i < k)%nat -> y i == q i + mv k Q x i) ->
  veq k x (mv k X (vadd p (mv k P q))).
Proof.
  intros HX Hx Hy.
  apply (linv_solve K KL k X (msub mid (mmul k P Q))); [exact HX|].
  intros i Hi.
  rewrite (mv_msub K KL), (mv_mid K KL) by exact Hi. rewrite (mv_mmul K KL).
  rewrite (Hx i Hi) at 1.
  rewrite (mv_cong k P y (vadd q (mv k Q x))) by (intros l Hl; apply Hy; exact Hl).
  rewrite (mv_vadd K KL). unfold vadd. ring.
Qed.

(* existence, needs a right inverse *)
Lemma exist_generic k (P Q X : mx K) (p q : vec K) :
  meq k k (mmul k (msub mid (mmul k P Q)) X) mid ->
  forall i, (i < k)%nat ->
    mv k X (vadd p (mv k P q)) i
    == p i + mv k P (vadd q (mv k Q (mv k X (vadd p (mv k P q))))) i.
Proof.
  intros HX i Hi.
  pose proof (rinv_apply K KL k X (msub mid (mmul k P Q)) (vadd p (mv k P q)) HX i Hi) as H.
  rewrite (mv_msub K KL), (mv_mid K KL) in H by exact Hi. rewrite (mv_mmul K KL) in H.
  set (xv := mv k X (vadd p (mv k P q))) in *.
  rewrite (mv_vadd K KL k P q (mv k Q xv) i).
  unfold vadd in H.
  set (a := xv i) in *. set (w := mv k P (mv k Q xv) i) in *.
  transitivity ((a - w) + w); [ring | rewrite H; ring].
Qed.

(* ---- unpacking sadd ---- *)
Lemma sadd_inv (A B C : smx K) : sadd A B = Ok C ->
  sM A = sN B /\ exists X1 X2,
    C = sadd_blocks A B X1 X2 /\
    (meq (sM A) (sM A) (mmul (sM A) X1 (msub mid (mmul (sM A) (S12 A) (S21 B)))) mid /\
     meq (sM A) (sM A) (mmul (sM A) (msub mid (mmul (sM A) (S12 A) (S21 B))) X1) mid) /\
    (meq (sM A) (sM A) (mmul (sM A) X2 (msub mid (mmul (sM A) (S21 B) (S12 A)))) mid /\
     meq (sM A) (sM A) (mmul (sM A) (msub mid (mmul (sM A) (S21 B) (S12 A))) X2) mid).
Proof.
  unfold sadd. destruct (Nat.eqb_spec (sM A) (sN B)) as [E|E]; simpl; [|discriminate].
  destruct (cinv (sM A) (msub mid (mmul (sM A) (S12 A) (S21 B)))) as [X1|] eqn:E1; [|discriminate].
  destruct (cinv (sM A) (msub mid (mmul (sM A) (S21 B) (S12 A)))) as [X2|] eqn:E2; [|discriminate].
  intros H; injection H as <-. split; [exact E|]. exists X1, X2. split; [reflexivity|].
  split; [apply (cinv_ok K KL _ _ _ E1) | apply (cinv_ok K KL _ _ _ E2)].
Qed.

Theorem sadd_dim (A B : smx K) : sM A <> sN B -> sadd A B = Err EDim.
Proof. intros H. unfold sadd. destruct (Nat.eqb_spec (sM A) (sN B)); [contradiction|reflexivity]. Qed.

Theorem sadd_shape (A B C : smx K) : sadd A B = Ok C -> sN C = sN A /\ sM C = sM B.
Proof.
  intros H. apply sadd_inv in H. destruct H as (_ & X1 & X2 & -> & _). split; reflexivity.
Qed.

(* outputs of the joined blocks, expanded *)
Lemma outL_blocks (A B : smx K) X1 X2 aL aR i : (i < sN A)%nat ->
  outL (sadd_blocks A B X1 X2) aL aR i
  == mv (sN A) (S21 A) aL i
    + mv (sM A) (S22 A) (mv (sM A) X2 (vadd (mv (sM B) (S22 B) aR)
                                            (mv (sM A) (S21 B) (mv (sN A) (S11 A) aL)))) i.
Proof.
  intros Hi. unfold outL, sadd_blocks; cbn [sN sM S21 S22 S11 S12]. unfold vadd at 1.
  set (k := sM A).
  rewrite (mv_mcong (sN A) (sN A) _ _ aL i (tab_meq K KL _ _ _) Hi).
  rewrite (mv_mcong (sN A) (sM B) _ _ aR i (tab_meq K KL _ _ _) Hi).
  rewrite (mv_madd K KL), !(mv_mmul K KL).
  rewrite (mv_mcong (sN A) k _ _ _ i (tab_meq K KL _ _ _) Hi).
  rewrite (mv_mcong (sN A) k _ _ (mv (sM B) (S22 B) aR) i (tab_meq K KL _ _ _) Hi).
  rewrite !(mv_mmul K KL).
  rewrite (mv_cong k (S22 A) _ _ i (mv_vadd_veq k k X2 _ _)).
  rewrite (mv_vadd K KL). unfold vadd. ring.
Qed.

Lemma outR_blocks (A B : smx K) X1 X2 aL aR i : (i < sM B)%nat ->
  outR (sadd_blocks A B X1 X2) aL aR i
  == mv (sM B) (S12 B) aR i
    + mv (sM A) (S11 B) (mv (sM A) X1 (vadd (mv (sN A) (S11 A) aL)
                                            (mv (sM A) (S12 A) (mv (sM B) (S22 B) aR)))) i.
Proof.
  intros Hi. unfold outR, sadd_blocks; cbn [sN sM S21 S22 S11 S12]. unfold vadd at 1.
  set (k := sM A).
  rewrite (mv_mcong (sM B) (sN A) _ _ aL i (tab_meq K KL _ _ _) Hi).
  rewrite (mv_mcong (sM B) (sM B) _ _ aR i (tab_meq K KL _ _ _) Hi).
  rewrite (mv_madd K KL), !(mv_mmul K KL).
  rewrite (mv_mcong (sM B) k _ _ _ i (tab_meq K KL _ _ _) Hi).
  rewrite (mv_mcong (sM B) k _ _ (mv k (S12 A) (mv (sM B) (S22 B) aR)) i (tab_meq K KL _ _ _) Hi).
  rewrite !(mv_mmul K KL).
  rewrite (mv_cong k (S11 B) _ _ i (mv_vadd_veq k k X1 _ _)).
  rewrite (mv_vadd K KL). unfold vadd. ring.
Qed.

(* ---- soundness: every solution of the pair's equations obeys the joined matrix ---- *)
Theorem sadd_sound (A B C : smx K) (aL y x aR bL bR : vec K) :
  sadd A B = Ok C ->
  star_eqs A B aL y x aR bL bR ->
  veq (sN C) bL (outL C aL aR) /\ veq (sM C) bR (outR C aL aR).
Proof.
  intros HC (HbL & Hx & Hy & HbR).
  apply sadd_inv in HC. destruct HC as (E & X1 & X2 & -> & (HX1 & _) & (HX2 & _)).
  rewrite <- E in Hy, HbR.
  set (k := sM A) in *.
  assert (Ex : veq k x (mv k X1 (vadd (mv (sN A) (S11 A) aL)
                                       (mv k (S12 A) (mv (sM B) (S22 B) aR))))).
  { apply (elim_generic k (S12 A) (S21 B) X1 _ _ x y HX1).
    - intros i Hi. rewrite (Hx i Hi). reflexivity.
    - intros i Hi. rewrite (Hy i Hi). unfold vadd. ring. }
  assert (Ey : veq k y (mv k X2 (vadd (mv (sM B) (S22 B) aR)
                                       (mv k (S21 B) (mv (sN A) (S11 A) aL))))).
  { apply (elim_generic k (S21 B) (S12 A) X2 _ _ y x HX2).
    - intros i Hi. rewrite (Hy i Hi). unfold vadd. ring.
    - intros i Hi. rewrite (Hx i Hi). reflexivity. }
  split.
  - intros i Hi. cbn [sN sadd_blocks] in Hi.
    rewrite (outL_blocks A B X1 X2 aL aR i Hi). rewrite (HbL i Hi). unfold vadd at 1.
    rewrite (mv_cong k (S22 A) y _ i Ey). reflexivity.
  - intros i Hi. cbn [sM sadd_blocks] in Hi.
    rewrite (outR_blocks A B X1 X2 aL aR i Hi). rewrite (HbR i Hi). unfold vadd at 1.
    rewrite (mv_cong k (S11 B) x _ i Ex). unfold k. ring.
Qed.

(* ---- completeness: for every excitation the interface waves exist ---- *)
Theorem sadd_complete (A B C : smx K) (aL aR : vec K) :
  sadd A B = Ok C ->
  exists x y, star_eqs A B aL y x aR (outL C aL aR) (outR C aL aR).
Proof.
  intros HC. pose proof HC as HC'.
  apply sadd_inv in HC. destruct HC as (E & X1 & X2 & -> & (HX1l & HX1) & (HX2l & HX2)).
  set (k := sM A) in *.
  set (p := mv (sN A) (S11 A) aL). set (q := mv (sM B) (S22 B) aR).
  set (x := mv k X1 (vadd p (mv k (S12 A) q))).
  set (y := vadd q (mv k (S21 B) x)).
  assert (Hx : veq k x (vadd p (mv k (S12 A) y))).
  { intros i Hi. unfold x at 1.
    rewrite (exist_generic k (S12 A) (S21 B) X1 p q HX1 i Hi). reflexivity. }
  assert (Hy : veq (sN B) y (vadd (mv (sN B) (S21 B) x) q)).
  { rewrite <- E. intros i Hi. unfold y, vadd. ring. }
  exists x, y.
  assert (HL : veq (sN A) (vadd (mv (sN A) (S21 A) aL) (mv (sM A) (S22 A) y))
                          (outL (sadd_blocks A B X1 X2) aL aR) /\
               veq (sM B) (vadd (mv (sN B) (S11 B) x) (mv (sM B) (S12 B) aR))
                          (outR (sadd_blocks A B X1 X2) aL aR)).
  { apply (sadd_sound A B _ aL y x aR _ _ HC').
    repeat split; try apply (veq_refl K KL); assumption. }
  destruct HL as [HL HR].
  repeat split.
  - apply (veq_sym K KL). exact HL.
  - exact Hx.
  - exact Hy.
  - apply (veq_sym K KL). exact HR.
Qed.

(* ---- uniqueness of the interface waves ---- *)
Theorem sadd_unique (A B C : smx K) aL aR y x bL bR y' x' bL' bR' :
  sadd A B = Ok C ->
  star_eqs A B aL y x aR bL bR -> star_eqs A B aL y' x' aR bL' bR' ->
  veq (sM A) x x' /\ veq (sM A) y y'.
Proof.
  intros HC (_ & Hx & Hy & _) (_ & Hx' & Hy' & _).
  apply sadd_inv in HC. destruct HC as (E & X1 & X2 & _ & (HX1 & _) & (HX2 & _)).
  rewrite <- E in Hy, Hy'. set (k := sM A) in *.
  set (p := mv (sN A) (S11 A) aL) in *. set (q := mv (sM B) (S22 B) aR) in *.
  split.
  - apply (veq_trans K KL k x (mv k X1 (vadd p (mv k (S12 A) q))) x'); [|apply (veq_sym K KL)].
    + apply (elim_generic k (S12 A) (S21 B) X1 p q x y HX1).
      * intros i Hi. rewrite (Hx i Hi). reflexivity.
      * intros i Hi. rewrite (Hy i Hi). unfold vadd. ring.
    + apply (elim_generic k (S12 A) (S21 B) X1 p q x' y' HX1).
      * intros i Hi. rewrite (Hx' i Hi). reflexivity.
      * intros i Hi. rewrite (Hy' i Hi). unfold vadd. ring.
  - apply (veq_trans K KL k y (mv k X2 (vadd q (mv k (S21 B) p))) y'); [|apply (veq_sym K KL)].
    + apply (elim_generic k (S21 B) (S12 A) X2 q p y x HX2).
      * intros i Hi. rewrite (Hy i Hi). unfold vadd. ring.
      * intros i Hi. rewrite (Hx i Hi). reflexivity.
    + apply (elim_generic k (S21 B) (S12 A) X2 q p y' x' HX2).
      * intros i Hi. rewrite (Hy' i Hi). unfold vadd. ring.
      * intros i Hi. rewrite (Hx' i Hi). reflexivity.
Qed.

(* ---- two partitioned matrices with equal action are blockwise equal ---- *)
Lemma smx_eq_by_action (C D : smx K) :
  sN C = sN D -> sM C = sM D ->
  (forall aL aR, veq (sN C) (outL C aL aR) (outL D aL aR) /\
                 veq (sM C) (outR C aL aR) (outR D aL aR)) ->
  smx_eq C D.
Proof.
  intros EN EM H. unfold smx_eq. repeat split; try assumption.
  - (* S11 *) intros i j Hi Hj. destruct (H (basis j) (vzero)) as [_ HR].
    specialize (HR i Hi). unfold outR, vadd in HR. rewrite <- EN, <- EM in HR.
    rewrite !(mv_basis K KL) in HR by exact Hj. rewrite !(mv_vzero K KL) in HR.
    transitivity (S11 C i j + 0); [ring|]. rewrite HR. ring.
  - (* S12 *) intros i j Hi Hj. destruct (H (vzero) (basis j)) as [_ HR].
    specialize (HR i Hi). unfold outR, vadd in HR. rewrite <- EN, <- EM in HR.
    rewrite !(mv_basis K KL) in HR by exact Hj. rewrite !(mv_vzero K KL) in HR.
    transitivity (0 + S12 C i j); [ring|]. rewrite HR. ring.
  - (* S21 *) intros i j Hi Hj. destruct (H (basis j) (vzero)) as [HL _].
    specialize (HL i Hi). unfold outL, vadd in HL. rewrite <- EN, <- EM in HL.
    rewrite !(mv_basis K KL) in HL by exact Hj. rewrite !(mv_vzero K KL) in HL.
    transitivity (S21 C i j + 0); [ring|]. rewrite HL. ring.
  - (* S22 *) intros i j Hi Hj. destruct (H (vzero) (basis j)) as [HL _].
    specialize (HL i Hi). unfold outL, vadd in HL. rewrite <- EN, <- EM in HL.
    rewrite !(mv_basis K KL) in HL by exact Hj. rewrite !(mv_vzero K KL) in HL.
    transitivity (0 + S22 C i j); [ring|]. rewrite HL. ring.
Qed.

(* ---- associativity ---- *)
Theorem sadd_assoc (A B C AB BC L R : smx K) :
  sadd A B = Ok AB -> sadd AB C = Ok L ->
  sadd B C = Ok BC -> sadd A BC = Ok R ->
  smx_eq L R.
Proof.
  intros HAB HL HBC HR.
  destruct (sadd_shape _ _ _ HAB) as [EAB1 EAB2].
  destruct (sadd_shape _ _ _ HL) as [EL1 EL2].
  destruct (sadd_shape _ _ _ HBC) as [EBC1 EBC2].
  destruct (sadd_shape _ _ _ HR) as [ER1 ER2].
  apply smx_eq_by_action; [congruence | congruence |].
  intros aL aR.
  (* interface waves between AB and C, then between A and B *)
  destruct (sadd_complete AB C L aL aR HL) as (x2 & y2 & (H1 & H2 & H3 & H4)).
  destruct (sadd_complete A B AB aL y2 HAB) as (x1 & y1 & (G1 & G2 & G3 & G4)).
  (* B and C now satisfy their pair equations with left input x1 and right input aR *)
  assert (SBC : star_eqs B C x1 y2 x2 aR y1 (outR L aL aR)).
  { repeat split.
    - exact G3.
    - assert (H2' : veq (sM B) x2 (outR AB aL y2)) by (rewrite <- EAB2; exact H2).
      eapply (veq_trans K KL); [exact H2' | exact G4].
    - exact H3.
    - exact H4. }
  destruct (sadd_sound B C BC x1 y2 x2 aR y1 _ HBC SBC) as [S1 S2].
  assert (SABC : star_eqs A BC aL y1 x1 aR (outL L aL aR) (outR L aL aR)).
  { repeat split.
    - assert (H1' : veq (sN A) (outL L aL aR) (outL AB aL y2)) by (rewrite <- EAB1; exact H1).
      eapply (veq_trans K KL); [exact H1' | exact G1].
    - exact G2.
    - exact S1.
    - exact S2. }
  destruct (sadd_sound A BC R aL y1 x1 aR _ _ HR SABC) as [T1 T2].
  split.
  - rewrite EL1, EAB1, <- ER1. exact T1.
  - rewrite EL2, <- EBC2, <- ER2. exact T2.
Qed.

(* ---- the reflection-free through connection is neutral ---- *)
Lemma thru_star_l (A : smx K) aL aR :
  star_eqs (thru (sN A)) A aL (outL A aL aR) aL aR (outL A aL aR) (outR A aL aR).
Proof.
  unfold star_eqs, thru; cbn [sN sM S11 S12 S21 S22].
  split; [|split; [|split]]; intros i Hi; unfold vadd.
  - rewrite (mv_mzero K KL), (mv_mid K KL) by exact Hi. ring.
  - rewrite (mv_mzero K KL), (mv_mid K KL) by exact Hi. ring.
  - reflexivity.
  - reflexivity.
Qed.

Theorem sadd_thru_l (A C : smx K) : sadd (thru (sN A)) A = Ok C -> smx_eq C A.
Proof.
  intros H. destruct (sadd_shape _ _ _ H) as [E1 E2]. cbn in E1.
  apply smx_eq_by_action; [exact E1 | exact E2 |].
  intros aL aR.
  destruct (sadd_sound _ _ _ _ _ _ _ _ _ H (thru_star_l A aL aR)) as [H1 H2].
  split; apply (veq_sym K KL); assumption.
Qed.

Lemma thru_star_r (A : smx K) aL aR :
  star_eqs A (thru (sM A)) aL aR (outR A aL aR) aR (outL A aL aR) (outR A aL aR).
Proof.
  unfold star_eqs, thru; cbn [sN sM S11 S12 S21 S22].
  split; [|split; [|split]]; intros i Hi; unfold vadd.
  - reflexivity.
  - reflexivity.
  - rewrite (mv_mzero K KL), (mv_mid K KL) by exact Hi. ring.
  - rewrite (mv_mzero K KL), (mv_mid K KL) by exact Hi. ring.
Qed.

Theorem sadd_thru_r (A C : smx K) : sadd A (thru (sM A)) = Ok C -> smx_eq C A.
Proof.
  intros H. destruct (sadd_shape _ _ _ H) as [E1 E2]. cbn in E2.
  apply smx_eq_by_action; [exact E1 | exact E2 |].
  intros aL aR.
  destruct (sadd_sound _ _ _ _ _ _ _ _ _ H (thru_star_r A aL aR)) as [H1 H2].
  split; apply (veq_sym K KL); assumption.
Qed.

(* ---- interface amplitudes ---- *)
Theorem int_complete_ok (A B : smx K) (u d uo do_ : vec K) :
  int_complete A B u d = Ok (uo, do_) ->
  veq (sM A) uo (vadd (mv (sN A) (S11 A) u) (mv (sM A) (S12 A) do_)) /\
  veq (sM A) do_ (vadd (mv (sM A) (S21 B) uo) (mv (sM B) (S22 B) d)).
Proof.
  unfold int_complete. set (k := sM A).
  destruct (cinv k (msub mid (mmul k (S12 A) (S21 B)))) as [X1|] eqn:E1; [|discriminate].
  destruct (cinv k (msub mid (mmul k (S21 B) (S12 A)))) as [X2|] eqn:E2; [|discriminate].
  intros H. injection H as Hu Hd.
  destruct (cinv_ok K KL _ _ _ E1) as [HX1l HX1r].
  destruct (cinv_ok K KL _ _ _ E2) as [HX2l HX2r].
  set (ut := tabv k (mv (sN A) (S11 A) u)) in *.
  set (dt := tabv k (mv (sM B) (S22 B) d)) in *.
  set (x := mv k X1 (vadd ut (mv k (S12 A) dt))).
  set (y' := vadd dt (mv k (S21 B) x)).
  assert (Hx : forall i, (i < k)%nat -> x i == ut i + mv k (S12 A) y' i).
  { intros i Hi. unfold x at 1. rewrite (exist_generic k (S12 A) (S21 B) X1 ut dt HX1r i Hi).
    reflexivity. }
  assert (Hy' : veq k y' (mv k X2 (vadd dt (mv k (S21 B) ut)))).
  { apply (elim_generic k (S21 B) (S12 A) X2 dt ut y' x HX2l).
    - intros i Hi. reflexivity.
    - exact Hx. }
  assert (Euo : veq k uo x).
  { intros i Hi. rewrite <- Hu. rewrite tabv_ok by exact Hi. reflexivity. }
  assert (Edo : veq k do_ y').
  { intros i Hi. rewrite <- Hd. rewrite tabv_ok by exact Hi. symmetry. apply Hy'. exact Hi. }
  split; intros i Hi.
  - rewrite (Euo i Hi), (Hx i Hi). unfold vadd.
    rewrite (mv_cong k (S12 A) do_ y' i Edo). unfold ut. rewrite tabv_ok by exact Hi. reflexivity.
  - rewrite (Edo i Hi). unfold y', vadd.
    rewrite (mv_cong k (S21 B) uo x i Euo). unfold dt. rewrite tabv_ok by exact Hi. ring.
Qed.

(* ---- batching ---- *)
Theorem sadd_batch_slices (As Bs Cs : list (smx K)) :
  sadd_batch As Bs = Ok Cs ->
  length Cs = length As /\ length Cs = length Bs /\
  forall k dA dB dC, (k < length Cs)%nat ->
    sadd (nth k As dA) (nth k Bs dB) = Ok (nth k Cs dC).
Proof.
  revert Bs Cs. induction As as [|A As IH]; intros [|B Bs] Cs H; simpl in H; try discriminate.
  - injection H as <-. simpl. repeat split; intros; lia.
  - apply bind_ok in H. destruct H as (C & HC & H).
    apply bind_ok in H. destruct H as (Cs' & HCs & H). injection H as <-.
    destruct (IH _ _ HCs) as (L1 & L2 & Hn). simpl. repeat split; try lia.
    intros [|k] dA dB dC Hk; [exact HC|]. apply Hn. lia.
Qed.

End KernelProofs.
