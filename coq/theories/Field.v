(* Field.v — scalar interface of the model.
   Every model function is written over a record [cfield] of operations; theorems assume the
   laws [cfield_laws] (a field with an involutive conjugation and a notion of non-negative
   element, up to an equivalence [feq]).  Two instances whose laws are *proved* here, so that
   the theorems literally apply to what [vm_compute] executes in the correspondence check:
     - [QcCf]: Gaussian rationals over canonical rationals [Qc], Leibniz equality, axiom-free;
     - [BQCf]: Gaussian rationals over Bignums' [bigQ] (machine-word arithmetic, ~100x faster),
       equality = equality of the denoted rationals. *)
From Coq Require Import QArith Qcanon Field Ring Bool Lia Setoid Morphisms.
From Bignums Require Import BigQ.

Record cfield := {
  F :> Type;
  feq : F -> F -> Prop;
  f0 : F; f1 : F;
  fadd : F -> F -> F; fmul : F -> F -> F; fsub : F -> F -> F;
  fopp : F -> F; fdiv : F -> F -> F; finv : F -> F;
  fconj : F -> F;
  feqb : F -> F -> bool;
  fnonneg : F -> Prop
}.

Record cfield_laws (K : cfield) := {
  feq_equiv : Equivalence (feq K);
  F_ext : ring_eq_ext (fadd K) (fmul K) (fopp K) (feq K);
  finv_ext : forall x y : K, feq K x y -> feq K (finv K x) (finv K y);
  F_ft : field_theory (f0 K) (f1 K) (fadd K) (fmul K) (fsub K) (fopp K) (fdiv K) (finv K) (feq K);
  feqb_ok : forall x y : K, feqb K x y = true <-> feq K x y;
  conj_ext : forall x y : K, feq K x y -> feq K (fconj K x) (fconj K y);
  conj_add : forall x y : K, feq K (fconj K (fadd K x y)) (fadd K (fconj K x) (fconj K y));
  conj_mul : forall x y : K, feq K (fconj K (fmul K x y)) (fmul K (fconj K x) (fconj K y));
  conj_opp : forall x : K, feq K (fconj K (fopp K x)) (fopp K (fconj K x));
  conj_invol : forall x : K, feq K (fconj K (fconj K x)) x;
  conj_0 : feq K (fconj K (f0 K)) (f0 K);
  conj_1 : feq K (fconj K (f1 K)) (f1 K);
  nonneg_ext : forall x y : K, feq K x y -> fnonneg K x -> fnonneg K y;
  nonneg_0 : fnonneg K (f0 K);
  nonneg_sq : forall z : K, fnonneg K (fmul K z (fconj K z));
  nonneg_add : forall x y : K, fnonneg K x -> fnonneg K y -> fnonneg K (fadd K x y);
  nonneg_antisym : forall x : K, fnonneg K x -> fnonneg K (fopp K x) -> feq K x (f0 K)
}.

(* ------------------------------------------------------------------------------------------ *)
(* Gaussian rationals over Qc (Leibniz equality)                                               *)

Definition QcC : Type := (Qc * Qc)%type.

Section QcCdef.
Local Open Scope Qc_scope.

Definition c0 : QcC := (0, 0).
Definition c1 : QcC := (1, 0).
Definition cadd (x y : QcC) : QcC := (fst x + fst y, snd x + snd y).
Definition copp (x : QcC) : QcC := (- fst x, - snd x).
Definition csub (x y : QcC) : QcC := (fst x - fst y, snd x - snd y).
Definition cmul (x y : QcC) : QcC :=
  (fst x * fst y - snd x * snd y, fst x * snd y + snd x * fst y).
Definition cnorm2 (x : QcC) : Qc := fst x * fst x + snd x * snd x.
Definition cinvc (x : QcC) : QcC := (fst x / cnorm2 x, - snd x / cnorm2 x).
Definition cdiv (x y : QcC) : QcC := cmul x (cinvc y).
Definition cconj (x : QcC) : QcC := (fst x, - snd x).
Definition ceqb (x y : QcC) : bool := Qc_eq_bool (fst x) (fst y) && Qc_eq_bool (snd x) (snd y).
Definition cnonneg (x : QcC) : Prop := snd x = 0 /\ 0 <= fst x.

Definition QcCf : cfield :=
  {| F := QcC; feq := eq; f0 := c0; f1 := c1; fadd := cadd; fmul := cmul; fsub := csub;
     fopp := copp; fdiv := cdiv; finv := cinvc; fconj := cconj; feqb := ceqb;
     fnonneg := cnonneg |}.

Lemma Qc_sq_nonneg (a : Qc) : 0 <= a * a.
Proof.
  unfold Qcle, Qcmult, Q2Qc; cbn [this]. setoid_rewrite Qred_correct.
  destruct a as [[n d] H]; unfold Qle, Qmult; simpl. nia.
Qed.

Lemma Qc_sumsq_0 (a b : Qc) : a * a + b * b = 0 -> a = 0 /\ b = 0.
Proof.
  intros H.
  assert (Ha := Qc_sq_nonneg a). assert (Hb := Qc_sq_nonneg b).
  assert (Ha0 : a * a = 0).
  { apply Qcle_antisym; [|exact Ha].
    rewrite <- H. rewrite <- (Qcplus_0_r (a*a)) at 1.
    apply Qcplus_le_compat; [apply Qcle_refl | exact Hb]. }
  assert (Hb0 : b * b = 0).
  { rewrite Ha0, Qcplus_0_l in H. exact H. }
  split.
  - destruct (Qcmult_integral _ _ Ha0); assumption.
  - destruct (Qcmult_integral _ _ Hb0); assumption.
Qed.

Lemma cnorm2_nz (x : QcC) : x <> c0 -> cnorm2 x <> 0.
Proof.
  intros Hx Hn. apply Hx. unfold cnorm2 in Hn. apply Qc_sumsq_0 in Hn.
  destruct x as [a b]; simpl in *. destruct Hn; subst; reflexivity.
Qed.

Lemma QcC_eq (x y : QcC) : fst x = fst y -> snd x = snd y -> x = y.
Proof. destruct x, y; simpl; intros; subst; reflexivity. Qed.

Lemma QcC_ft : field_theory c0 c1 cadd cmul csub copp cdiv cinvc eq.
Proof.
  constructor.
  - constructor; intros; apply QcC_eq; simpl; ring.
  - intro H. apply (f_equal fst) in H. simpl in H. discriminate H.
  - reflexivity.
  - intros p Hp. pose proof (cnorm2_nz p Hp) as Hn.
    apply QcC_eq; simpl; unfold cnorm2 in *; field; exact Hn.
Qed.

Lemma ceqb_ok (x y : QcC) : ceqb x y = true <-> x = y.
Proof.
  unfold ceqb; split.
  - intros H. apply andb_true_iff in H. destruct H as [H1 H2].
    apply QcC_eq; apply Qc_eq_bool_correct; assumption.
  - intros ->. apply andb_true_iff. unfold Qc_eq_bool.
    destruct (Qc_eq_dec (fst y) (fst y)); [|congruence].
    destruct (Qc_eq_dec (snd y) (snd y)); [|congruence]. auto.
Qed.

Lemma QcCf_laws : cfield_laws QcCf.
Proof.
  constructor; simpl.
  - exact eq_equivalence.
  - constructor; repeat intro; subst; reflexivity.
  - intros; subst; reflexivity.
  - exact QcC_ft.
  - exact ceqb_ok.
  - intros; subst; reflexivity.
  - intros; apply QcC_eq; simpl; ring.
  - intros; apply QcC_eq; simpl; ring.
  - intros; apply QcC_eq; simpl; ring.
  - intros; apply QcC_eq; simpl; ring.
  - reflexivity.
  - reflexivity.
  - intros; subst; assumption.
  - split; [reflexivity | apply Qcle_refl].
  - intros z; split; simpl; [ring|].
    replace (fst z * fst z - snd z * - snd z) with (fst z * fst z + snd z * snd z) by ring.
    rewrite <- (Qcplus_0_r 0).
    apply Qcplus_le_compat; apply Qc_sq_nonneg.
  - intros x y [Hx1 Hx2] [Hy1 Hy2]; split; simpl.
    + rewrite Hx1, Hy1; ring.
    + rewrite <- (Qcplus_0_r 0). apply Qcplus_le_compat; assumption.
  - intros x [Hx1 Hx2] [Hy1 Hy2]; simpl in *.
    apply QcC_eq; simpl; [|exact Hx1].
    apply Qcle_antisym; [|exact Hx2].
    apply Qcopp_le_compat in Hy2. rewrite Qcopp_involutive in Hy2. exact Hy2.
Qed.
End QcCdef.

(* ------------------------------------------------------------------------------------------ *)
(* Gaussian rationals over bigQ (fast; equality of denotations)                                *)

Definition BQC : Type := (bigQ * bigQ)%type.

Section BQCdef.
Local Open Scope Q_scope.
Notation "[ x ]" := (BigQ.to_Q x).

Definition b0 : BQC := (BigQ.zero, BigQ.zero).
Definition b1 : BQC := (BigQ.one, BigQ.zero).
Definition badd (x y : BQC) : BQC := (BigQ.add_norm (fst x) (fst y), BigQ.add_norm (snd x) (snd y)).
Definition bopp (x : BQC) : BQC := (BigQ.opp (fst x), BigQ.opp (snd x)).
Definition bsub (x y : BQC) : BQC := (BigQ.sub_norm (fst x) (fst y), BigQ.sub_norm (snd x) (snd y)).
Definition bmul (x y : BQC) : BQC :=
  (BigQ.sub_norm (BigQ.mul_norm (fst x) (fst y)) (BigQ.mul_norm (snd x) (snd y)),
   BigQ.add_norm (BigQ.mul_norm (fst x) (snd y)) (BigQ.mul_norm (snd x) (fst y))).
Definition bnorm2 (x : BQC) : bigQ :=
  BigQ.add_norm (BigQ.mul_norm (fst x) (fst x)) (BigQ.mul_norm (snd x) (snd x)).
Definition binv (x : BQC) : BQC :=
  let n := BigQ.inv_norm (bnorm2 x) in
  (BigQ.mul_norm (fst x) n, BigQ.mul_norm (BigQ.opp (snd x)) n).
Definition bdiv (x y : BQC) : BQC := bmul x (binv y).
Definition bconj (x : BQC) : BQC := (fst x, BigQ.opp (snd x)).
Definition beqb (x y : BQC) : bool := BigQ.eq_bool (fst x) (fst y) && BigQ.eq_bool (snd x) (snd y).
Definition beq (x y : BQC) : Prop := [fst x] == [fst y] /\ [snd x] == [snd y].
Definition bnonneg (x : BQC) : Prop := [snd x] == 0 /\ 0 <= [fst x].

Definition BQCf : cfield :=
  {| F := BQC; feq := beq; f0 := b0; f1 := b1; fadd := badd; fmul := bmul; fsub := bsub;
     fopp := bopp; fdiv := bdiv; finv := binv; fconj := bconj; feqb := beqb;
     fnonneg := bnonneg |}.

Lemma Q_sumsq_0 (a b : Q) : a * a + b * b == 0 -> a == 0 /\ b == 0.
Proof.
  destruct a as [n d], b as [m e]. unfold Qeq, Qplus, Qmult; simpl. intros H. split; nia.
Qed.

Ltac bq := unfold beq, badd, bmul, bsub, bopp, binv, bdiv, bconj, bnorm2, b0, b1; cbn [fst snd];
  repeat (rewrite ?BigQ.spec_add_norm, ?BigQ.spec_sub_norm, ?BigQ.spec_mul_norm,
                 ?BigQ.spec_inv_norm, ?BigQ.spec_opp, ?BigQ.spec_0, ?BigQ.spec_1).

Lemma beq_equiv : Equivalence beq.
Proof.
  constructor.
  - intros x; split; reflexivity.
  - intros x y [H1 H2]; split; symmetry; assumption.
  - intros x y z [H1 H2] [H3 H4]; split; etransitivity; eassumption.
Qed.

Lemma BQC_ext : ring_eq_ext badd bmul bopp beq.
Proof.
  constructor.
  - intros x x' [H1 H2] y y' [H3 H4]. bq. rewrite H1, H2, H3, H4. split; reflexivity.
  - intros x x' [H1 H2] y y' [H3 H4]. bq. rewrite H1, H2, H3, H4. split; reflexivity.
  - intros x x' [H1 H2]. bq. rewrite H1, H2. split; reflexivity.
Qed.

Lemma binv_ext x y : beq x y -> beq (binv x) (binv y).
Proof. intros [H1 H2]. bq. rewrite H1, H2. split; reflexivity. Qed.

Lemma BQC_ft : field_theory b0 b1 badd bmul bsub bopp bdiv binv beq.
Proof.
  constructor.
  - constructor; intros; bq; split; ring.
  - intros [H _]. revert H. bq. intros H. discriminate H.
  - intros p q. unfold bdiv. apply beq_equiv.
  - intros p Hp.
    assert (Hn : ~ [fst p] * [fst p] + [snd p] * [snd p] == 0).
    { intros H. apply Q_sumsq_0 in H. apply Hp. revert H. bq. tauto. }
    bq. split; field; exact Hn.
Qed.

Lemma beqb_ok (x y : BQC) : beqb x y = true <-> beq x y.
Proof.
  unfold beqb, beq. rewrite andb_true_iff, !BigQ.spec_eq_bool, !Qeq_bool_iff. tauto.
Qed.

Lemma BQCf_laws : cfield_laws BQCf.
Proof.
  constructor; simpl.
  - exact beq_equiv.
  - exact BQC_ext.
  - exact binv_ext.
  - exact BQC_ft.
  - exact beqb_ok.
  - intros x y [H1 H2]. bq. rewrite H1, H2. split; reflexivity.
  - intros; bq; split; ring.
  - intros; bq; split; ring.
  - intros; bq; split; ring.
  - intros; bq; split; ring.
  - bq; split; ring.
  - bq; split; ring.
  - intros x y [H1 H2] [H3 H4]. unfold bnonneg. rewrite <- H1, <- H2. split; assumption.
  - unfold bnonneg. bq. split; [reflexivity | apply Qle_refl].
  - intros z. unfold bnonneg. bq. split; [ring|].
    setoid_replace ([fst z] * [fst z] - [snd z] * - [snd z])
      with ([fst z] * [fst z] + [snd z] * [snd z]) by ring.
    destruct ([fst z]) as [n d], ([snd z]) as [m e]. unfold Qle, Qplus, Qmult; simpl. nia.
  - intros x y [Hx1 Hx2] [Hy1 Hy2]. unfold bnonneg. bq. split.
    + rewrite Hx1, Hy1. ring.
    + setoid_replace 0 with (0 + 0) by ring. apply Qplus_le_compat; assumption.
  - intros x [Hx1 Hx2] [Hy1 Hy2]. revert Hy1 Hy2. bq. intros Hy1 Hy2. split; [|exact Hx1].
    apply Qle_antisym; [|exact Hx2].
    apply Qopp_le_compat in Hy2. rewrite Qopp_involutive in Hy2. exact Hy2.
Qed.
End BQCdef.

(* ------------------------------------------------------------------------------------------ *)
(* the laws as a class, so that setoid rewriting finds the morphisms in any section that
   assumes [KL : cfield_laws K] *)
Existing Class cfield_laws.
Global Instance feq_Equivalence (K : cfield) {KL : cfield_laws K} : Equivalence (feq K) :=
  feq_equiv K KL.
Global Instance fadd_Proper (K : cfield) {KL : cfield_laws K} :
  Proper (feq K ==> feq K ==> feq K) (fadd K) := Radd_ext (F_ext K KL).
Global Instance fmul_Proper (K : cfield) {KL : cfield_laws K} :
  Proper (feq K ==> feq K ==> feq K) (fmul K) := Rmul_ext (F_ext K KL).
Global Instance fopp_Proper (K : cfield) {KL : cfield_laws K} :
  Proper (feq K ==> feq K) (fopp K) := Ropp_ext (F_ext K KL).
Global Instance finv_Proper (K : cfield) {KL : cfield_laws K} :
  Proper (feq K ==> feq K) (finv K) := finv_ext K KL.
Global Instance fconj_Proper (K : cfield) {KL : cfield_laws K} :
  Proper (feq K ==> feq K) (fconj K) := conj_ext K KL.
Global Instance fsub_Proper (K : cfield) {KL : cfield_laws K} :
  Proper (feq K ==> feq K ==> feq K) (fsub K).
Proof.
  intros a b H c d H'.
  rewrite (Rsub_def (F_R (F_ft K KL)) a c), (Rsub_def (F_R (F_ft K KL)) b d).
  rewrite H, H'. reflexivity.
Qed.
Global Instance fdiv_Proper (K : cfield) {KL : cfield_laws K} :
  Proper (feq K ==> feq K ==> feq K) (fdiv K).
Proof.
  intros a b H c d H'.
  rewrite (Fdiv_def (F_ft K KL) a c), (Fdiv_def (F_ft K KL) b d).
  rewrite H, H'. reflexivity.
Qed.
Global Instance fnonneg_Proper (K : cfield) {KL : cfield_laws K} :
  Proper (feq K ==> iff) (fnonneg K).
Proof.
  intros a b H. split; apply (nonneg_ext K KL); [exact H | symmetry; exact H].
Qed.
