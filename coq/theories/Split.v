(* Split.v — Solver.split (sol.py:726-764): incremental union of the structures into connected
   components (C12).  Structures are numbers; adj s = s.connected_to. *)
From Coq Require Import List Arith Lia Bool.
Import ListNotations.

Definition nin (x : nat) (l : list nat) : bool := existsb (Nat.eqb x) l.

Fixpoint nodupn (l : list nat) : list nat :=      (* a Python set built from a list *)
  match l with [] => [] | x :: r => if nin x r then nodupn r else x :: nodupn r end.

Definition touches (adjs : list nat) (S : list nat) : bool := existsb (fun t => nin t S) adjs.

(* one iteration of the loop over self.structures *)
Definition split_step (adj : nat -> list nat) (sets : list (list nat)) (st : nat) : list (list nat) :=
  let connected := filter (touches (adj st)) sets in
  let others := filter (fun S => negb (touches (adj st) S)) sets in
  match connected with
  | [] => others ++ [nodupn (st :: adj st)]
  | _ => others ++ [nodupn (st :: concat connected)]
  end.

Definition split_sets (adj : nat -> list nat) (structs : list nat) : list (list nat) :=
  fold_left (split_step adj) structs [].
